/-
Simulation of a dynamic-Huffman block header (table sizes, the code-length code, the run-length
coded literal/length and distance code lengths) by the decoder model. Helper lemmas for Props/C03.
-/
import MinizProof.Lemmas.CoreBlocks
import MinizProof.Lemmas.SpecCodes
set_option linter.unusedVariables false
set_option linter.unusedSimpArgs false
namespace Model.Core
open Spec
variable {e : Env} {c : Ctx} {outA : Array UInt8}

/-- Registers the header of a dynamic block leaves alone. -/
structure InvD (c c' : Ctx) : Prop where
  finish : c'.r.finish = c.r.finish
  z      : InvZ c c'
  rh     : c'.r.rawHeader = c.r.rawHeader
  bt     : c'.r.blockType = c.r.blockType
  outPos : c'.outPos = c.outPos

theorem InvD.refl (c : Ctx) : InvD c c := ⟨rfl, InvZ.refl c, rfl, rfl, rfl⟩
theorem InvD.trans {a b c : Ctx} (h1 : InvD a b) (h2 : InvD b c) : InvD a c :=
  ⟨h2.finish.trans h1.finish, h1.z.trans h2.z, h2.rh.trans h1.rh, h2.bt.trans h1.bt, h2.outPos.trans h1.outPos⟩
theorem InvD.of_read {inp : Array UInt8} {c c' : Ctx} (h : ReadOK inp c c') : InvD c c' := by
  have i := Inv.of_read h
  exact ⟨i.finish, InvZ.of_inv i, i.rh, by rw [h.regs], h.outPos⟩

/-- One of the three table-size fields (`ReadTableSizes`, counter < 3). -/
theorem micro_tableSize {pos k v : Nat} (hs : c.r.state = sReadTableSizes) (hc : c.r.counter = k) (hk : k < 3)
    (hr : Rep e.inp c pos) (hv : bitsAt e.inp pos ([5, 5, 4].getD k 0) = some v) :
    ∃ c1, step e c outA = .cont c1 outA ∧ c1.r.state = sReadTableSizes ∧ c1.r.counter = k + 1 ∧
      c1.r.tableSizes = c.r.tableSizes.setIfInBounds k (v + [257, 1, 4].getD k 0) ∧
      Rep e.inp c1 (pos + [5, 5, 4].getD k 0) ∧ (c.r.numBits < 8 → c1.r.numBits < 8) ∧ InvD c c1 ∧
      c1.r.lenCodes = c.r.lenCodes := by
  obtain ⟨c1, hrb, hr1, h8, hok, _⟩ := readBits_full hr hv
  rw [step_ReadTableSizes hs]
  unfold stReadTableSizes
  have hlt : c.r.counter < 3 := by omega
  simp only [hlt, ↓reduceIte]
  rw [hc, hrb]
  have hreg := hok.regs
  have hcnt : c1.r.counter = k := by rw [hreg]; exact hc
  have hts : c1.r.tableSizes = c.r.tableSizes := by rw [hreg]
  have hst : c1.r.state = sReadTableSizes := by rw [hreg]; exact hs
  have i := InvD.of_read hok
  refine ⟨_, rfl, hst, by simp [hcnt], by simp [hcnt, hts], hr1.of_eq rfl rfl rfl, h8,
    ⟨i.finish, ⟨i.z.z0, i.z.z1, i.z.zA, i.z.chk⟩, i.rh, i.bt, i.outPos⟩, by rw [hreg]⟩

theorem set3 (t : Array Nat) (h : t.size = 3) (x y z : Nat) :
    ((t.setIfInBounds 0 x).setIfInBounds 1 y).setIfInBounds 2 z = #[x, y, z] := by
  obtain ⟨l⟩ := t
  match l, h with
  | [a, b, c], _ => simp [Array.setIfInBounds]

/-- The fourth `ReadTableSizes` transition: size check, clear the code-length-code lengths. -/
theorem micro_tableSizes_done (hs : c.r.state = sReadTableSizes) (hc : c.r.counter = 3)
    (h0 : c.r.tableSizes.getD 0 0 ≤ 286) (h1 : c.r.tableSizes.getD 1 0 ≤ 30) :
    step e c outA = .cont (setState { c with r := { c.r with clenLens := Array.replicate 19 0, counter := 0 } }
      sReadHufflenTableCodeSize) outA := by
  rw [step_ReadTableSizes hs]
  unfold stReadTableSizes
  have hlt : ¬ c.r.counter < 3 := by omega
  simp only [hlt, ↓reduceIte, h0, h1, and_self]

/-- The three table sizes of a dynamic block header. -/
theorem sim_tableSizes {pos hlit hdist hclen : Nat} (hs : c.r.state = sReadTableSizes) (hc : c.r.counter = 0)
    (hts : c.r.tableSizes.size = 3) (hr : Rep e.inp c pos) (h8 : c.r.numBits < 8)
    (h1 : bitsAt e.inp pos 5 = some hlit) (h2 : bitsAt e.inp (pos + 5) 5 = some hdist)
    (h3 : bitsAt e.inp (pos + 10) 4 = some hclen) (hok : ¬ (hlit + 257 > 286 ∨ hdist + 1 > 30)) :
    ∃ c4, Reaches e c outA c4 outA ∧ c4.r.state = sReadHufflenTableCodeSize ∧ c4.r.counter = 0 ∧
      c4.r.tableSizes = #[hlit + 257, hdist + 1, hclen + 4] ∧ c4.r.clenLens = Array.replicate 19 0 ∧
      Rep e.inp c4 (pos + 14) ∧ c4.r.numBits < 8 ∧ InvD c c4 ∧ c4.r.lenCodes = c.r.lenCodes := by
  obtain ⟨c1, st1, hs1, hc1, ht1, hr1, h81, i1, l1⟩ := micro_tableSize (outA := outA) (k := 0) hs hc (by omega) hr h1
  obtain ⟨c2, st2, hs2, hc2, ht2, hr2, h82, i2, l2⟩ := micro_tableSize (outA := outA) (k := 1) hs1 hc1 (by omega) hr1 h2
  obtain ⟨c3, st3, hs3, hc3, ht3, hr3, h83, i3, l3⟩ := micro_tableSize (outA := outA) (k := 2) hs2 hc2 (by omega) hr2 h3
  have hts3 : c3.r.tableSizes = #[hlit + 257, hdist + 1, hclen + 4] := by
    rw [ht3, ht2, ht1]
    exact set3 _ hts _ _ _
  have st4 := micro_tableSizes_done (e := e) (c := c3) (outA := outA) hs3 hc3
    (by rw [hts3]; simp; omega) (by rw [hts3]; simp; omega)
  refine ⟨_, (Reaches.of_step st1).trans ((Reaches.of_step st2).trans ((Reaches.of_step st3).trans (Reaches.of_step st4))),
    rfl, rfl, hts3, rfl, ?_, h83 (h82 (h81 h8)), ?_, ?_⟩
  · exact hr3.of_eq rfl rfl rfl
  · have i := i1.trans (i2.trans i3)
    exact ⟨i.finish, ⟨i.z.z0, i.z.z1, i.z.zA, i.z.chk⟩, i.rh, i.bt, i.outPos⟩
  · show c3.r.lenCodes = _; rw [l3, l2, l1]

/-- One length of the code-length code (`ReadHufflenTableCodeSize`, counter < HCLEN + 4). -/
theorem micro_hufflen {pos k v : Nat} (hs : c.r.state = sReadHufflenTableCodeSize) (hc : c.r.counter = k)
    (hk : k < c.r.tableSizes.getD 2 0) (hr : Rep e.inp c pos) (hv : bitsAt e.inp pos 3 = some v) :
    ∃ c1, step e c outA = .cont c1 outA ∧ c1.r.state = sReadHufflenTableCodeSize ∧ c1.r.counter = k + 1 ∧
      c1.r.clenLens = c.r.clenLens.setIfInBounds (clenOrder.getD k 0) v ∧ c1.r.tableSizes = c.r.tableSizes ∧
      Rep e.inp c1 (pos + 3) ∧ (c.r.numBits < 8 → c1.r.numBits < 8) ∧ InvD c c1 ∧
      c1.r.lenCodes = c.r.lenCodes := by
  obtain ⟨c1, hrb, hr1, h8, hok, _⟩ := readBits_full hr hv
  rw [step_ReadHufflenTableCodeSize hs]
  unfold stReadHufflenTableCodeSize
  have hlt : c.r.counter < c.r.tableSizes.getD 2 0 := by omega
  simp only [hlt, ↓reduceIte]
  rw [hrb]
  have hreg := hok.regs
  have hcnt : c1.r.counter = k := by rw [hreg]; exact hc
  have hcl : c1.r.clenLens = c.r.clenLens := by rw [hreg]
  have hst : c1.r.state = sReadHufflenTableCodeSize := by rw [hreg]; exact hs
  have i := InvD.of_read hok
  refine ⟨_, rfl, hst, by simp [hcnt], by simp [hcnt, hcl], by rw [hreg], hr1.of_eq rfl rfl rfl, h8,
    ⟨i.finish, ⟨i.z.z0, i.z.z1, i.z.zA, i.z.chk⟩, i.rh, i.bt, i.outPos⟩, by rw [hreg]⟩

theorem clenOrder_drop (k : Nat) (hk : k < 19) : clenOrder.drop k = clenOrder.getD k 0 :: clenOrder.drop (k + 1) := by
  have hl : k < clenOrder.length := by simpa [clenOrder] using hk
  rw [List.drop_eq_getElem_cons hl]
  congr 1
  simp [List.getD_eq_getElem?_getD, hl]

/-- The lengths of the code-length code: the specification's `readClens` loop. -/
theorem sim_clens : ∀ (n k pos : Nat) (acc : Array Nat) (c : Ctx) (pos' : Nat) (acc' : Array Nat),
    c.r.state = sReadHufflenTableCodeSize → c.r.counter = k → c.r.tableSizes.getD 2 0 = k + n → k + n ≤ 19 →
    c.r.clenLens = acc → Rep e.inp c pos → c.r.numBits < 8 →
    readClens e.inp n pos (clenOrder.drop k) acc = some (pos', acc') →
    ∃ c', Reaches e c outA c' outA ∧ c'.r.state = sReadHufflenTableCodeSize ∧ c'.r.counter = k + n ∧
      c'.r.clenLens = acc' ∧ c'.r.tableSizes = c.r.tableSizes ∧ Rep e.inp c' pos' ∧ c'.r.numBits < 8 ∧
      InvD c c' ∧ c'.r.lenCodes = c.r.lenCodes := by
  intro n
  induction n with
  | zero =>
    intro k pos acc c pos' acc' hs hc hts hle hcl hr h8 h
    simp only [readClens, Option.some.injEq, Prod.mk.injEq] at h
    exact ⟨c, Reaches.refl _ _ _, hs, by omega, by rw [hcl, h.2], rfl, by rw [← h.1]; exact hr, h8, InvD.refl c, rfl⟩
  | succ n ih =>
    intro k pos acc c pos' acc' hs hc hts hle hcl hr h8 h
    rw [clenOrder_drop k (by omega)] at h
    unfold readClens at h
    cases hv : bitsAt e.inp pos 3 with
    | none => simp [hv] at h
    | some v =>
      simp only [hv] at h
      obtain ⟨c1, st1, hs1, hc1, hcl1, ht1, hr1, h81, i1, l1⟩ :=
        micro_hufflen (outA := outA) hs hc (by omega) hr hv
      obtain ⟨c', r', hs', hc', hcl', ht', hr', h8', i', l'⟩ :=
        ih (k + 1) (pos + 3) _ c1 pos' acc' hs1 hc1 (by rw [ht1]; omega) (by omega) (by rw [hcl1, hcl]) hr1 (h81 h8) h
      exact ⟨c', (Reaches.of_step st1).trans r', hs', by omega, hcl', by rw [ht', ht1], hr', h8', i1.trans i', by rw [l', l1]⟩

/-- The last `ReadHufflenTableCodeSize` transition: build the code-length code. -/
theorem micro_hufflen_done (hs : c.r.state = sReadHufflenTableCodeSize) (hc : c.r.counter = c.r.tableSizes.getD 2 0)
    (hbt : c.r.blockType = 2) (hvalid : codeValid .clen c.r.clenLens = true) :
    ∃ c1, step e c outA = .cont c1 outA ∧ c1.r.state = sReadLitlenDistTablesCodeSize ∧ c1.r.counter = 0 ∧
      c1.r.clenCode = mkCode c.r.clenLens ∧ c1.r.tableSizes = c.r.tableSizes.setIfInBounds 2 19 ∧
      c1.inPos = c.inPos ∧ c1.r.numBits = c.r.numBits ∧ c1.r.bitBuf = c.r.bitBuf ∧ InvD c c1 ∧
      c1.r.lenCodes = c.r.lenCodes := by
  rw [step_ReadHufflenTableCodeSize hs]
  unfold stReadHufflenTableCodeSize
  have hlt : ¬ c.r.counter < c.r.tableSizes.getD 2 0 := by omega
  simp only [hlt, ↓reduceIte]
  unfold initTree
  simp only [hbt, ↓reduceIte, hvalid]
  exact ⟨_, rfl, rfl, rfl, rfl, rfl, rfl, rfl, rfl, ⟨rfl, ⟨rfl, rfl, rfl, rfl⟩, rfl, hbt.symm, rfl⟩, rfl⟩

/-- The first `acc.size` entries of the model's `len_codes` array are `acc`. -/
structure LensRep (c : Ctx) (acc : Array Nat) : Prop where
  cnt  : c.r.counter = acc.size
  pre  : ∀ i, i < acc.size → c.r.lenCodes[i]? = acc[i]?
  size : c.r.lenCodes.size = 512

/-- `fillLens` appends `n` copies of `val` behind the prefix. -/
theorem fillLens_prefix (val n : Nat) : ∀ (lc acc : Array Nat), (∀ i, i < acc.size → lc[i]? = acc[i]?) →
    acc.size + n ≤ lc.size →
    (∀ i, i < acc.size + n → (fillLens lc acc.size val n)[i]? = (acc ++ Array.replicate n val)[i]?) ∧
    (fillLens lc acc.size val n).size = lc.size := by
  induction n with
  | zero =>
    intro lc acc h _
    refine ⟨fun i hi => ?_, rfl⟩
    simp only [fillLens, Array.replicate_zero, Array.append_empty]
    exact h i (by omega)
  | succ n ih =>
    intro lc acc h hsz
    unfold fillLens
    have hpre : ∀ i, i < (acc.push val).size → (lc.setIfInBounds acc.size val)[i]? = (acc.push val)[i]? := by
      intro i hi
      simp only [Array.size_push] at hi
      rw [Array.getElem?_setIfInBounds, Array.getElem?_push]
      by_cases he : i = acc.size
      · subst he; simp; omega
      · have : acc.size ≠ i := fun h => he h.symm
        simp only [this, ↓reduceIte, he]
        exact h i (by omega)
    have := ih (lc.setIfInBounds acc.size val) (acc.push val) hpre (by simp; omega)
    simp only [Array.size_push, Array.size_setIfInBounds] at this
    refine ⟨fun i hi => ?_, this.2⟩
    rw [this.1 i (by omega)]
    congr 1
    rw [Array.push_eq_append, Array.append_assoc]
    congr 1
    simp [Array.replicate_succ']

/-- `ReadLitlenDistTablesCodeSize`: one symbol of the code-length alphabet is decoded. -/
theorem micro_rld_sym {pos s p : Nat} (hs : c.r.state = sReadLitlenDistTablesCodeSize)
    (hlt : c.r.counter < c.r.tableSizes.getD 0 0 + c.r.tableSizes.getD 1 0) (hr : Rep e.inp c pos)
    (hd : decodeSym c.r.clenCode e.inp pos = .sym s p) :
    ∃ c1, ReadOK e.inp c c1 ∧ Rep e.inp c1 p ∧ (c.r.numBits < 8 → c1.r.numBits < 8) ∧
      step e c outA =
        (if s < 16 then
          .cont { c1 with r := { c1.r with dist := s, lenCodes := c1.r.lenCodes.setIfInBounds (c1.r.counter % 512) s,
                                           counter := c1.r.counter + 1 } } outA
         else if s = 16 ∧ c1.r.counter = 0 then
          .cont (setState { c1 with r := { c1.r with dist := s } } sBadCodeSizeDistPrevLookup) outA
         else .cont (setState { c1 with r := { c1.r with dist := s, numExtra := [2, 3, 7, 0].getD ((s - 16) % 4) 0 } }
                  sReadExtraBitsCodeSize) outA) := by
  have h := decodeHuff_rep hr hd
  have hok := (decodeHuff_spec e.inp c.r.clenCode c hr.inLe).1
  rw [step_ReadLitlenDistTablesCodeSize hs]
  unfold stReadLitlenDistTablesCodeSize
  simp only [hlt, ↓reduceIte]
  generalize decodeHuff e.inp c.r.clenCode c = q at h hok
  obtain ⟨c1, o⟩ := q
  obtain ⟨h1, h2, h8⟩ := h
  simp only at h1 h2 hok h8
  subst h1
  refine ⟨c1, hok, h2, h8, ?_⟩
  by_cases h16 : s < 16
  · simp only [h16, ↓reduceIte]
  · simp only [h16, ↓reduceIte]

/-- `ReadExtraBitsCodeSize`: the repeat count. -/
theorem micro_rebcs {pos v : Nat} (hs : c.r.state = sReadExtraBitsCodeSize) (hr : Rep e.inp c pos)
    (hv : bitsAt e.inp pos c.r.numExtra = some v) :
    ∃ c1, ReadOK e.inp c c1 ∧ Rep e.inp c1 (pos + c.r.numExtra) ∧ (c.r.numBits < 8 → c1.r.numBits < 8) ∧
      step e c outA = .cont (setState { c1 with r := { c1.r with
          lenCodes := fillLens c1.r.lenCodes c1.r.counter
            (if c1.r.dist = 16 then c1.r.lenCodes.getD ((c1.r.counter - 1) % 512) 0 else 0)
            (v + [3, 3, 11].getD ((c1.r.dist - 16) % 4 / 2 * 2) 0),
          counter := c1.r.counter + (v + [3, 3, 11].getD ((c1.r.dist - 16) % 4 / 2 * 2) 0) } }
        sReadLitlenDistTablesCodeSize) outA := by
  obtain ⟨c1, hrb, hr1, h8, hok, _⟩ := readBits_full hr hv
  rw [step_ReadExtraBitsCodeSize hs]
  unfold stReadExtraBitsCodeSize
  rw [hrb]
  exact ⟨c1, hok, hr1, h8, rfl⟩

/-- One step of the specification's code-length reading, simulated by the model
    (`ReadLitlenDistTablesCodeSize` and, for the repeat codes, `ReadExtraBitsCodeSize`). -/
theorem sim_lenStep {cl : Code} {pos p' : Nat} {acc acc' : Array Nat} {clens : Array Nat}
    (hs : c.r.state = sReadLitlenDistTablesCodeSize) (hcl : c.r.clenCode = cl) (hmk : cl = mkCode clens)
    (h19 : clens.size = 19)
    (hlt : c.r.counter < c.r.tableSizes.getD 0 0 + c.r.tableSizes.getD 1 0)
    (hrep : LensRep c acc) (hr : Rep e.inp c pos) (h8 : c.r.numBits < 8)
    (hstep : readLenStep cl e.inp pos acc = .more p' acc') (hsz : acc'.size ≤ 512) :
    ∃ c', Reaches e c outA c' outA ∧ c'.r.state = sReadLitlenDistTablesCodeSize ∧ LensRep c' acc' ∧
      Rep e.inp c' p' ∧ c'.r.numBits < 8 ∧ InvD c c' ∧ c'.r.tableSizes = c.r.tableSizes ∧
      c'.r.clenCode = c.r.clenCode := by
  unfold readLenStep at hstep
  cases hd : decodeSym cl e.inp pos with
  | short => simp [hd] at hstep
  | invalid => simp [hd] at hstep
  | sym s p =>
    simp only [hd] at hstep
    have hs19 : s < 19 := by
      have := decodeSym_lt (lens := clens) (by omega) (by rw [← hmk]; exact hd)
      omega
    obtain ⟨c1, hok, hr1, h81, hst⟩ := micro_rld_sym (outA := outA) hs hlt hr (by rw [hcl]; exact hd)
    have hreg := hok.regs
    have hcnt1 : c1.r.counter = c.r.counter := by rw [hreg]
    have hlc1 : c1.r.lenCodes = c.r.lenCodes := by rw [hreg]
    have hts1 : c1.r.tableSizes = c.r.tableSizes := by rw [hreg]
    have hcc1 : c1.r.clenCode = c.r.clenCode := by rw [hreg]
    have i1 := InvD.of_read hok
    have hcnt := hrep.cnt
    by_cases h16 : s < 16
    · -- a literal length
      simp only [h16, ↓reduceIte] at hstep hst
      simp only [LenStep.more.injEq] at hstep
      obtain ⟨hp, hacc⟩ := hstep
      subst hp; subst hacc
      simp only [Array.size_push] at hsz
      refine ⟨_, Reaches.of_step hst, by show c1.r.state = _; rw [hreg]; exact hs, ⟨?_, ?_, ?_⟩,
        hr1.of_eq rfl rfl rfl, h81 h8, ⟨i1.finish, ⟨i1.z.z0, i1.z.z1, i1.z.zA, i1.z.chk⟩, i1.rh, i1.bt, i1.outPos⟩,
        hts1, hcc1⟩
      · show c1.r.counter + 1 = _; rw [hcnt1, hcnt]; simp
      · intro i hi
        simp only [Array.size_push] at hi
        show (c1.r.lenCodes.setIfInBounds (c1.r.counter % 512) s)[i]? = _
        rw [hcnt1, hlc1, hcnt, Nat.mod_eq_of_lt (by omega), Array.getElem?_setIfInBounds, Array.getElem?_push]
        by_cases he : i = acc.size
        · subst he; simp [hrep.size]; omega
        · have : acc.size ≠ i := fun h => he h.symm
          simp only [this, ↓reduceIte, he]
          exact hrep.pre i (by omega)
      · show (c1.r.lenCodes.setIfInBounds _ _).size = 512
        rw [Array.size_setIfInBounds, hlc1]; exact hrep.size
    · -- a repeat code
      simp only [h16, ↓reduceIte] at hstep hst
      -- the specification's data for the three repeat codes
      have hspec : ∃ nx r val base, bitsAt e.inp p nx = some r ∧ p' = p + nx ∧
          acc' = acc ++ Array.replicate (base + r) val ∧
          nx = [2, 3, 7, 0].getD ((s - 16) % 4) 0 ∧ base = [3, 3, 11].getD ((s - 16) % 4 / 2 * 2) 0 ∧
          val = (if s = 16 then acc.getD (acc.size - 1) 0 else 0) ∧ ¬ (s = 16 ∧ acc.size = 0) := by
        by_cases e16 : s = 16
        · simp only [e16, ↓reduceIte] at hstep
          by_cases hz : acc.size = 0
          · simp [hz] at hstep
          · simp only [hz, ↓reduceIte] at hstep
            cases hb : bitsAt e.inp p 2 with
            | none => simp [hb] at hstep
            | some r =>
              simp only [hb, LenStep.more.injEq] at hstep
              exact ⟨2, r, _, 3, hb, hstep.1.symm, hstep.2.symm, by simp [e16], by simp [e16], by simp [e16], by simp [hz]⟩
        · simp only [e16, ↓reduceIte] at hstep
          by_cases e17 : s = 17
          · simp only [e17, ↓reduceIte] at hstep
            cases hb : bitsAt e.inp p 3 with
            | none => simp [hb] at hstep
            | some r =>
              simp only [hb, LenStep.more.injEq] at hstep
              exact ⟨3, r, 0, 3, hb, hstep.1.symm, hstep.2.symm, by simp [e17], by simp [e17], by simp [e17], by simp [e17]⟩
          · simp only [e17, ↓reduceIte] at hstep
            have e18 : s = 18 := by omega
            cases hb : bitsAt e.inp p 7 with
            | none => simp [hb] at hstep
            | some r =>
              simp only [hb, LenStep.more.injEq] at hstep
              exact ⟨7, r, 0, 11, hb, hstep.1.symm, hstep.2.symm, by simp [e18], by simp [e18], by simp [e18], by simp [e18]⟩
      obtain ⟨nx, r, val, base, hb, hp', hacc', hnx, hbase, hval, hnz⟩ := hspec
      have hbad : ¬ (s = 16 ∧ c1.r.counter = 0) := by rw [hcnt1, hcnt]; exact hnz
      simp only [hbad, ↓reduceIte] at hst
      -- second transition: the extra bits
      obtain ⟨c1', hc1'⟩ : ∃ x, x = setState { c1 with r := { c1.r with dist := s, numExtra := [2, 3, 7, 0].getD ((s - 16) % 4) 0 } } sReadExtraBitsCodeSize := ⟨_, rfl⟩
      rw [← hc1'] at hst
      have d1 : c1'.r.dist = s := by rw [hc1']; rfl
      have d2 : c1'.r.numExtra = nx := by rw [hc1', hnx]; rfl
      have d3 : c1'.r.counter = c.r.counter := by rw [hc1']; exact hcnt1
      have d4 : c1'.r.lenCodes = c.r.lenCodes := by rw [hc1']; exact hlc1
      have d5 : c1'.r.tableSizes = c.r.tableSizes := by rw [hc1']; exact hts1
      have d6 : c1'.r.clenCode = c.r.clenCode := by rw [hc1']; exact hcc1
      have d7 : c1'.r.numBits = c1.r.numBits := by rw [hc1']; rfl
      have i1' : InvD c c1' := by
        rw [hc1']; exact ⟨i1.finish, ⟨i1.z.z0, i1.z.z1, i1.z.zA, i1.z.chk⟩, i1.rh, i1.bt, i1.outPos⟩
      obtain ⟨c2, hok2, hr2, h82, hst2⟩ := micro_rebcs (e := e) (outA := outA) (c := c1')
        (pos := p) (v := r) (by rw [hc1']; rfl) (by rw [hc1']; exact hr1.of_eq rfl rfl rfl) (by rw [d2]; exact hb)
      have hreg2 := hok2.regs
      have hcnt2 : c2.r.counter = c.r.counter := by rw [hreg2]; exact d3
      have hlc2 : c2.r.lenCodes = c.r.lenCodes := by rw [hreg2]; exact d4
      have hdist2 : c2.r.dist = s := by rw [hreg2]; exact d1
      have i2 := InvD.of_read hok2
      have hfill := fillLens_prefix val (base + r) c.r.lenCodes acc hrep.pre (by
        rw [hrep.size]; rw [hacc'] at hsz; simp at hsz; omega)
      have hvaleq : (if c2.r.dist = 16 then c2.r.lenCodes.getD ((c2.r.counter - 1) % 512) 0 else 0) = val := by
        rw [hdist2, hval, hlc2, hcnt2, hcnt]
        by_cases e16 : s = 16
        · simp only [e16, ↓reduceIte]
          have hpos : 0 < acc.size := by
            rcases Nat.eq_zero_or_pos acc.size with h | h
            · exact absurd ⟨e16, h⟩ hnz
            · exact h
          have hlt512 : acc.size ≤ 512 := by rw [hacc'] at hsz; simp at hsz; omega
          rw [Nat.mod_eq_of_lt (by omega)]
          simp only [Array.getD_eq_getD_getElem?]
          rw [hrep.pre (acc.size - 1) (by omega)]
        · simp only [e16, ↓reduceIte]
      have hcount : r + [3, 3, 11].getD ((c2.r.dist - 16) % 4 / 2 * 2) 0 = base + r := by
        rw [hdist2, ← hbase]; omega
      rw [hvaleq, hcount, hlc2, hcnt2, hcnt] at hst2
      refine ⟨_, (Reaches.of_step hst).trans (Reaches.of_step hst2), rfl, ⟨?_, ?_, ?_⟩, ?_, ?_, ?_, ?_, ?_⟩
      · show acc.size + (base + r) = _; rw [hacc']; simp
      · intro i hi
        rw [hacc'] at hi ⊢
        simp only [Array.size_append, Array.size_replicate] at hi
        exact hfill.1 i hi
      · exact hfill.2.trans hrep.size
      · rw [hp', ← d2]; exact hr2.of_eq rfl rfl rfl
      · exact h82 (by rw [d7]; exact h81 h8)
      · have i := i1'.trans i2
        exact ⟨i.finish, ⟨i.z.z0, i.z.z1, i.z.zA, i.z.chk⟩, i.rh, i.bt, i.outPos⟩
      · show c2.r.tableSizes = _; rw [hreg2]; exact d5
      · show c2.r.clenCode = _; rw [hreg2]; exact d6

theorem readLens_size_le (cl : Code) (data : Array UInt8) (total : Nat) : ∀ (fuel pos : Nat) (acc : Array Nat)
    (R : Nat × Array Nat), readLens cl data total fuel pos acc = .accept R → acc.size ≤ total := by
  intro fuel pos acc R h
  cases fuel with
  | zero => simp [readLens] at h
  | succ fuel =>
    rw [readLens] at h
    by_cases h1 : acc.size = total
    · omega
    · by_cases h2 : acc.size > total
      · simp [h1, h2] at h
      · omega

/-- THE CODE-LENGTH LOOP: the specification's `readLens` simulated by the model. -/
theorem sim_lens {cl : Code} {clens : Array Nat} (hmk : cl = mkCode clens) (h19 : clens.size = 19) (total : Nat)
    (htot : total ≤ 512) :
    ∀ (fuel pos : Nat) (acc : Array Nat) (c : Ctx) (R : Nat × Array Nat),
    readLens cl e.inp total fuel pos acc = .accept R →
    c.r.state = sReadLitlenDistTablesCodeSize → c.r.clenCode = cl →
    c.r.tableSizes.getD 0 0 + c.r.tableSizes.getD 1 0 = total →
    LensRep c acc → Rep e.inp c pos → c.r.numBits < 8 →
    ∃ c', Reaches e c outA c' outA ∧ c'.r.state = sReadLitlenDistTablesCodeSize ∧ LensRep c' R.2 ∧
      R.2.size = total ∧ Rep e.inp c' R.1 ∧ c'.r.numBits < 8 ∧ InvD c c' ∧ c'.r.tableSizes = c.r.tableSizes := by
  intro fuel
  induction fuel with
  | zero => intro pos acc c R h; simp [readLens] at h
  | succ fuel ih =>
    intro pos acc c R h hs hcl hts hrep hr h8
    rw [readLens] at h
    by_cases h1 : acc.size = total
    · simp only [h1, ↓reduceIte, Verdict.accept.injEq] at h
      rw [← h]
      exact ⟨c, Reaches.refl _ _ _, hs, hrep, h1, hr, h8, InvD.refl c, rfl⟩
    · simp only [h1, ↓reduceIte] at h
      by_cases h2 : acc.size > total
      · simp [h2] at h
      · simp only [h2, ↓reduceIte] at h
        cases hst : readLenStep cl e.inp pos acc with
        | more p' acc' =>
          rw [hst] at h
          have hle := readLens_size_le cl e.inp total _ _ _ _ h
          obtain ⟨c1, r1, hs1, hrep1, hr1, h81, i1, ht1, hcc1⟩ :=
            sim_lenStep (outA := outA) hs hcl hmk h19 (by rw [hts, hrep.cnt]; omega) hrep hr h8 hst (by omega)
          obtain ⟨c', r', hs', hrep', hsz', hr', h8', i', ht'⟩ :=
            ih p' acc' c1 R h hs1 (by rw [hcc1, hcl]) (by rw [ht1]; exact hts) hrep1 hr1 h81
          exact ⟨c', r1.trans r', hs', hrep', hsz', hr', h8', i1.trans i', by rw [ht', ht1]⟩
        | reject w => rw [hst] at h; simp at h
        | truncated => rw [hst] at h; simp at h

/-- The last `ReadLitlenDistTablesCodeSize` transition: build the two Huffman codes. -/
theorem micro_rld_done {litLens distLens : Array Nat} (hs : c.r.state = sReadLitlenDistTablesCodeSize)
    (hc : c.r.counter = c.r.tableSizes.getD 0 0 + c.r.tableSizes.getD 1 0) (hbt : c.r.blockType = 2)
    (hl : c.r.lenCodes.extract 0 (c.r.tableSizes.getD 0 0) = litLens)
    (hd : c.r.lenCodes.extract (c.r.tableSizes.getD 0 0) (c.r.tableSizes.getD 0 0 + c.r.tableSizes.getD 1 0) = distLens)
    (hvl : codeValid .litlen litLens = true) (hvd : codeValid .dist distLens = true) :
    ∃ c1, step e c outA = .cont c1 outA ∧ c1.r.state = sDecodeLitlen ∧
      c1.r.litCode = mkCode litLens ∧ c1.r.distCode = mkCode distLens ∧
      c1.inPos = c.inPos ∧ c1.r.numBits = c.r.numBits ∧ c1.r.bitBuf = c.r.bitBuf ∧ c1.outPos = c.outPos ∧
      c1.r.finish = c.r.finish ∧ InvZ c c1 ∧ c1.r.rawHeader = c.r.rawHeader ∧
      c1.r.tableSizes = c.r.tableSizes ∧ c1.r.lenCodes = c.r.lenCodes := by
  rw [step_ReadLitlenDistTablesCodeSize hs]
  unfold stReadLitlenDistTablesCodeSize
  have hlt : ¬ c.r.counter < c.r.tableSizes.getD 0 0 + c.r.tableSizes.getD 1 0 := by omega
  have hne : ¬ c.r.counter ≠ c.r.tableSizes.getD 0 0 + c.r.tableSizes.getD 1 0 := by omega
  simp only [hlt, ↓reduceIte, hne, hl, hd]
  unfold initTree
  simp only [hbt, Nat.add_one_sub_one, Nat.succ_ne_self, ↓reduceIte, hvl, hvd, Bool.not_true, Bool.false_eq_true,
    Nat.reduceSub, Nat.reduceEqDiff]
  exact ⟨_, rfl, rfl, rfl, rfl, rfl, rfl, rfl, rfl, rfl, ⟨rfl, rfl, rfl, rfl⟩, rfl, rfl, rfl⟩

theorem bitsAt_lt (data : Array UInt8) (n : Nat) : ∀ (pos v : Nat), bitsAt data pos n = some v → v < 2 ^ n := by
  induction n with
  | zero => intro pos v h; simp [bitsAt] at h; omega
  | succ n ih =>
    intro pos v h
    unfold bitsAt at h
    cases hb : bitAt data pos with
    | none => simp [hb] at h
    | some b =>
      cases hr : bitsAt data (pos + 1) n with
      | none => simp [hb, hr] at h
      | some r =>
        simp only [hb, hr, Option.some.injEq] at h
        have := ih _ _ hr
        have hb2 : b < 2 := by
          unfold bitAt at hb
          cases hx : data[pos / 8]? with
          | none => simp [hx] at hb
          | some x => simp only [hx, Option.some.injEq] at hb; omega
        rw [Nat.pow_succ]; omega

theorem readClens_size (data : Array UInt8) : ∀ (n pos : Nat) (order : List Nat) (acc : Array Nat) (pos' : Nat)
    (acc' : Array Nat), readClens data n pos order acc = some (pos', acc') → acc'.size = acc.size := by
  intro n
  induction n with
  | zero => intro pos order acc pos' acc' h; simp [readClens] at h; rw [← h.2]
  | succ n ih =>
    intro pos order acc pos' acc' h
    cases order with
    | nil => simp [readClens] at h; rw [← h.2]
    | cons o os =>
      unfold readClens at h
      cases hv : bitsAt data pos 3 with
      | none => simp [hv] at h
      | some v =>
        simp only [hv] at h
        have := ih _ _ _ _ _ h
        simpa using this

theorem extract_of_prefix {lc lens : Array Nat} (hpre : ∀ i, i < lens.size → lc[i]? = lens[i]?)
    (hsz : lens.size ≤ lc.size) (a b : Nat) (hb : b ≤ lens.size) : lc.extract a b = lens.extract a b := by
  apply Array.ext_getElem?
  intro i
  rw [Array.getElem?_extract, Array.getElem?_extract]
  have e1 : min b lc.size = b := by omega
  have e2 : min b lens.size = b := by omega
  rw [e1, e2]
  by_cases h : i < b - a
  · simp only [h, ↓reduceIte]; exact hpre (a + i) (by omega)
  · simp only [h, ↓reduceIte]

/-- THE DYNAMIC BLOCK HEADER: from `ReadTableSizes` (just behind the 3 header bits) to `DecodeLitlen`
    with the two Huffman codes the specification builds. -/
theorem sim_dynamic_header {pos hlit hdist hclen pos1 pos2 fuel : Nat} {clens lens : Array Nat}
    (hs : c.r.state = sReadTableSizes) (hc : c.r.counter = 0) (hbt : c.r.blockType = 2)
    (hts : c.r.tableSizes.size = 3) (hlc : c.r.lenCodes.size = 512)
    (hr : Rep e.inp c pos) (h8 : c.r.numBits < 8)
    (h1 : bitsAt e.inp pos 5 = some hlit) (h2 : bitsAt e.inp (pos + 5) 5 = some hdist)
    (h3 : bitsAt e.inp (pos + 10) 4 = some hclen) (hok : ¬ (hlit + 257 > 286 ∨ hdist + 1 > 30))
    (hcl : readClens e.inp (hclen + 4) (pos + 14) clenOrder (Array.replicate 19 0) = some (pos1, clens))
    (hclv : codeValid .clen clens = true)
    (hlens : readLens (mkCode clens) e.inp (hlit + 257 + (hdist + 1)) fuel pos1 #[] = .accept (pos2, lens))
    (hvl : codeValid .litlen (lens.extract 0 (hlit + 257)) = true)
    (hvd : codeValid .dist (lens.extract (hlit + 257) (hlit + 257 + (hdist + 1))) = true) :
    ∃ c', Reaches e c outA c' outA ∧ c'.r.state = sDecodeLitlen ∧
      c'.r.litCode = mkCode (lens.extract 0 (hlit + 257)) ∧
      c'.r.distCode = mkCode (lens.extract (hlit + 257) (hlit + 257 + (hdist + 1))) ∧
      Rep e.inp c' pos2 ∧ c'.r.numBits < 8 ∧ c'.outPos = c.outPos ∧ c'.r.finish = c.r.finish ∧ InvZ c c' ∧
      c'.r.rawHeader = c.r.rawHeader ∧ c'.r.tableSizes.size = 3 ∧ c'.r.lenCodes.size = 512 := by
  have hclen16 := bitsAt_lt _ _ _ _ h3
  obtain ⟨c4, r4, hs4, hc4, ht4, hcl4, hr4, h84, i4, l4⟩ := sim_tableSizes (outA := outA) hs hc hts hr h8 h1 h2 h3 hok
  have hd0 : clenOrder.drop 0 = clenOrder := rfl
  obtain ⟨c5, r5, hs5, hc5, hcl5, ht5, hr5, h85, i5, l5⟩ :=
    sim_clens (e := e) (outA := outA) (hclen + 4) 0 (pos + 14) (Array.replicate 19 0) c4 pos1 clens hs4 hc4
      (by rw [ht4]; simp) (by omega) hcl4 hr4 h84 (by rw [hd0]; exact hcl)
  have hsz19 : clens.size = 19 := by
    have := readClens_size _ _ _ _ _ _ _ hcl; simpa using this
  obtain ⟨c6, st6, hs6, hc6, hcc6, ht6, hi6, hn6, hb6, i6, l6⟩ :=
    micro_hufflen_done (e := e) (c := c5) (outA := outA) hs5 (by rw [hc5, ht5, ht4]; simp)
      (by rw [i5.bt, i4.bt]; exact hbt) (by rw [hcl5]; exact hclv)
  have hts6 : c6.r.tableSizes = #[hlit + 257, hdist + 1, 19] := by
    rw [ht6, ht5, ht4]; simp [Array.setIfInBounds]
  have hlc6 : c6.r.lenCodes = c.r.lenCodes := by rw [l6, l5, l4]
  obtain ⟨c7, r7, hs7, hrep7, hsz7, hr7, h87, i7, ht7⟩ :=
    sim_lens (e := e) (outA := outA) (cl := mkCode clens) (clens := clens) rfl hsz19 (hlit + 257 + (hdist + 1)) (by omega)
      fuel pos1 #[] c6 (pos2, lens) hlens hs6 (by rw [hcc6, hcl5]) (by rw [hts6]; simp)
      ⟨by rw [hc6]; rfl, by intro i hi; simp at hi, by rw [hlc6]; exact hlc⟩
      (hr5.of_eq hi6 hn6 hb6) (by rw [hn6]; exact h85)
  simp only at hrep7 hsz7 hr7
  have hts7 : c7.r.tableSizes = #[hlit + 257, hdist + 1, 19] := by rw [ht7]; exact hts6
  have g0 : c7.r.tableSizes.getD 0 0 = hlit + 257 := by rw [hts7]; simp
  have g1 : c7.r.tableSizes.getD 1 0 = hdist + 1 := by rw [hts7]; simp
  have hbt7 : c7.r.blockType = 2 := by rw [i7.bt, i6.bt, i5.bt, i4.bt]; exact hbt
  obtain ⟨c8, st8, hs8, hlit8, hdist8, hi8, hn8, hb8, ho8, hf8, z8, rh8, ts8, lc8⟩ :=
    micro_rld_done (e := e) (c := c7) (outA := outA)
      (litLens := lens.extract 0 (hlit + 257)) (distLens := lens.extract (hlit + 257) (hlit + 257 + (hdist + 1)))
      hs7 (by rw [g0, g1, hrep7.cnt, hsz7]) hbt7
      (by rw [g0]; exact extract_of_prefix hrep7.pre (by rw [hrep7.size]; omega) _ _ (by omega))
      (by rw [g0, g1]; exact extract_of_prefix hrep7.pre (by rw [hrep7.size]; omega) _ _ (by omega))
      hvl hvd
  have i47 : InvD c c7 := i4.trans (i5.trans (i6.trans i7))
  refine ⟨c8, r4.trans (r5.trans ((Reaches.of_step st6).trans (r7.trans (Reaches.of_step st8)))), hs8, hlit8, hdist8,
    hr7.of_eq hi8 hn8 hb8, by rw [hn8]; exact h87, by rw [ho8, i47.outPos], by rw [hf8, i47.finish],
    i47.z.trans z8, by rw [rh8, i47.rh], by rw [ts8, hts7]; rfl, by rw [lc8]; exact hrep7.size⟩

/-- ONE BLOCK: whenever the specification accepts a block, the model goes from `ReadBlockHeader`
    to `BlockDone` with the specification's output and position; its `finish` register holds the
    block's BFINAL bit. -/
theorem sim_block (hflat : e.ring = false) (hend : e.outEnd ≤ e.outLen) {pre : Array UInt8} {maxDist fuel pos : Nat}
    {o : Array UInt8} {pos' : Nat} {o' : Array UInt8} {info : BlockInfo}
    (h : inflateBlock pre maxDist e.inp fuel pos o = .accept (pos', o', info))
    (hs : c.r.state = sReadBlockHeader) (hsim : Sim e c outA pos (pre ++ o)) (hsh : Shape c)
    (hroom : pre.size + o'.size ≤ e.outEnd) :
    ∃ c' outA', Reaches e c outA c' outA' ∧ c'.r.state = sBlockDone ∧ Sim e c' outA' pos' (pre ++ o') ∧
      (c'.r.finish ≠ 0 ↔ info.final = true) ∧ InvZ c c' ∧ Shape c' := by
  unfold inflateBlock at h
  cases hv : bitsAt e.inp pos 3 with
  | none => simp [hv] at h
  | some hdr =>
    simp only [hv] at h
    have hdr8 : hdr < 8 := bitsAt_lt _ _ _ _ hv
    have hfin : ∀ f : Nat, f = hdr % 2 → (f ≠ 0 ↔ decide (hdr % 2 = 1) = true) := by
      intro f hf; rw [hf]; simp
    by_cases hb0 : hdr / 2 = 0
    · -- stored
      simp only [hb0, ↓reduceIte] at h
      obtain ⟨c1, st1, hs1, hf1, hr1, h81, ho1, z1, sh1⟩ := micro_header_stored (outA := outA) hs hsim.rep hv hb0
      cases hl : bitsAt e.inp (8 * ((pos + 3 + 7) / 8)) 16 with
      | none => simp [hl] at h
      | some len =>
        cases hn : bitsAt e.inp (8 * ((pos + 3 + 7) / 8) + 16) 16 with
        | none => simp [hl, hn] at h
        | some nlen =>
          simp only [hl, hn] at h
          by_cases hne : len + nlen ≠ 65535
          · simp [hne] at h
          · simp only [hne, ↓reduceIte] at h
            cases hcp : copyStored e.inp ((pos + 3 + 7) / 8 + 4) o len with
            | none => simp [hcp] at h
            | some o2 =>
              simp only [hcp, Verdict.accept.injEq, Prod.mk.injEq] at h
              obtain ⟨hp', ho', hinfo⟩ := h
              subst ho'
              have hsim1 : Sim e c1 outA (pos + 3) (pre ++ o) :=
                ⟨hr1, h81 hsim.nb8, by rw [ho1]; exact hsim.outPos, hsim.outEq, hsim.size⟩
              obtain ⟨c', outA', r', hs', hsim', hf', z', rh', ts', lc'⟩ :=
                sim_stored (e := e) (c := c1) (outA := outA) hend hs1 hsim1 (sh1 hsh).1 hl hn (by omega)
                  (copyStored_append e.inp pre len _ o o2 hcp) (by simp only [Array.size_append]; omega)
              refine ⟨c', outA', (Reaches.of_step st1).trans r', hs', by rw [← hp']; exact hsim', ?_, z1.trans z',
                ⟨rh', by rw [ts']; exact (sh1 hsh).2.1, by rw [lc']; exact (sh1 hsh).2.2⟩⟩
              rw [← hinfo, hf', hf1]
              exact hfin _ rfl
    · simp only [hb0, ↓reduceIte] at h
      by_cases hb1 : hdr / 2 = 1
      · -- fixed Huffman
        simp only [hb1, ↓reduceIte] at h
        obtain ⟨c1, st1, hs1, hf1, hl1, hd1, hr1, h81, ho1, z1, sh1⟩ := micro_header_fixed (outA := outA) hs hsim.rep hv hb1
        cases ht : decodeTokens pre maxDist fixedLitCode fixedDistCode e.inp fuel (pos + 3) o #[] with
        | accept R =>
          obtain ⟨p, o2, toks⟩ := R
          simp only [ht, Verdict.accept.injEq, Prod.mk.injEq] at h
          obtain ⟨hp', ho', hinfo⟩ := h
          subst ho'; subst hp'
          have hsim1 : Sim e c1 outA (pos + 3) (pre ++ o) :=
            ⟨hr1, h81 hsim.nb8, by rw [ho1]; exact hsim.outPos, hsim.outEq, hsim.size⟩
          obtain ⟨c', outA', r', hs', hsim', i'⟩ :=
            sim_tokens hflat hend pre maxDist fixedLitCode fixedDistCode fuel (pos + 3) o #[] (p, o2, toks) c1 outA
              ht hsim1 hs1 hl1 hd1 hroom
          refine ⟨c', outA', (Reaches.of_step st1).trans r', hs', hsim', ?_, z1.trans (InvZ.of_inv i'),
            ⟨by rw [i'.rh]; exact (sh1 hsh).1, by rw [i'.ts]; exact (sh1 hsh).2.1, by rw [i'.lc]; exact (sh1 hsh).2.2⟩⟩
          rw [← hinfo, i'.finish, hf1]
          exact hfin _ rfl
        | reject w => simp [ht] at h
        | truncated p => simp [ht] at h
        | fuel => simp [ht] at h
      · simp only [hb1, ↓reduceIte] at h
        by_cases hb2 : hdr / 2 = 2
        · -- dynamic Huffman
          simp only [hb2, ↓reduceIte] at h
          obtain ⟨c1, st1, hs1, hf1, hc1, hbt1, hr1, h81, ho1, z1, sh1⟩ := micro_header_dynamic (outA := outA) hs hsim.rep hv hb2
          cases h1 : bitsAt e.inp (pos + 3) 5 with
          | none => simp [h1] at h
          | some hlit =>
            cases h2 : bitsAt e.inp (pos + 3 + 5) 5 with
            | none => simp [h1, h2] at h
            | some hdist =>
              cases h3 : bitsAt e.inp (pos + 3 + 10) 4 with
              | none => simp [h1, h2, h3] at h
              | some hclen =>
                simp only [h1, h2, h3] at h
                by_cases hbig : (decide (hlit + 257 > 286) || decide (hdist + 1 > 30)) = true
                · simp [hbig] at h
                · simp only [hbig, Bool.false_eq_true, ↓reduceIte] at h
                  simp only [Bool.or_eq_true, decide_eq_true_eq] at hbig
                  cases hcl : readClens e.inp (hclen + 4) (pos + 3 + 14) clenOrder (Array.replicate 19 0) with
                  | none => simp [hcl] at h
                  | some pc =>
                    obtain ⟨pos1, clens⟩ := pc
                    simp only [hcl] at h
                    by_cases hclv : codeValid .clen clens = true
                    · simp only [hclv, Bool.not_true, Bool.false_eq_true, ↓reduceIte] at h
                      cases hlens : readLens (mkCode clens) e.inp (hlit + 257 + (hdist + 1)) fuel pos1 #[] with
                      | accept R2 =>
                        obtain ⟨pos2, lens⟩ := R2
                        simp only [hlens] at h
                        by_cases hvl : codeValid .litlen (lens.extract 0 (hlit + 257)) = true
                        · simp only [hvl, Bool.not_true, Bool.false_eq_true, ↓reduceIte] at h
                          by_cases hvd : codeValid .dist (lens.extract (hlit + 257) (hlit + 257 + (hdist + 1))) = true
                          · simp only [hvd, Bool.not_true, Bool.false_eq_true, ↓reduceIte] at h
                            cases ht : decodeTokens pre maxDist (mkCode (lens.extract 0 (hlit + 257)))
                                (mkCode (lens.extract (hlit + 257) (hlit + 257 + (hdist + 1)))) e.inp fuel pos2 o #[] with
                            | accept R =>
                              obtain ⟨p, o2, toks⟩ := R
                              simp only [ht, Verdict.accept.injEq, Prod.mk.injEq] at h
                              obtain ⟨hp', ho', hinfo⟩ := h
                              subst ho'; subst hp'
                              obtain ⟨c2, r2, hs2, hl2, hd2, hr2, h82, ho2, hf2, z2, rh2, ts2, lc2⟩ :=
                                sim_dynamic_header (e := e) (c := c1) (outA := outA) hs1 hc1 hbt1 (sh1 hsh).2.1 (sh1 hsh).2.2
                                  hr1 (h81 hsim.nb8) h1 h2 h3 hbig hcl hclv hlens hvl hvd
                              have hsim2 : Sim e c2 outA pos2 (pre ++ o) :=
                                ⟨hr2, h82, by rw [ho2, ho1]; exact hsim.outPos, hsim.outEq, hsim.size⟩
                              obtain ⟨c', outA', r', hs', hsim', i'⟩ :=
                                sim_tokens hflat hend pre maxDist _ _ fuel pos2 o #[] (p, o2, toks) c2 outA
                                  ht hsim2 hs2 hl2 hd2 hroom
                              refine ⟨c', outA', (Reaches.of_step st1).trans (r2.trans r'), hs', hsim', ?_,
                                z1.trans (z2.trans (InvZ.of_inv i')),
                                ⟨by rw [i'.rh, rh2]; exact (sh1 hsh).1, by rw [i'.ts]; exact ts2, by rw [i'.lc]; exact lc2⟩⟩
                              rw [← hinfo, i'.finish, hf2, hf1]
                              exact hfin _ rfl
                            | reject w => simp [ht] at h
                            | truncated p => simp [ht] at h
                            | fuel => simp [ht] at h
                          · simp [hvd] at h
                        · simp [hvl] at h
                      | reject w => simp [hlens] at h
                      | truncated p => simp [hlens] at h
                      | fuel => simp [hlens] at h
                    · simp [hclv] at h
        · simp [hb2] at h

end Model.Core
