/-
What follows a finished stream in the input does not matter: a call that reports `Done` (or any
status other than the starved ones) on a chunk reports the same result, field by field, on that chunk
followed by any further bytes. Helper lemmas for Props/C06.
-/
import MinizProof.Lemmas.CoreConverse
set_option linter.unusedVariables false
namespace Model.Core
open Spec

/-- One call on `a ++ b` is the call on `a` whenever the run over `a` did not end starved. -/
theorem decompress_ext_same (r : Regs) (a b out : Array UInt8) (outPos budget flags : Nat)
    (hne : (callRun r a out outPos budget flags).1 ≠ endOfInput flags) :
    decompress r (a ++ b) out outPos budget flags = decompress r a out outPos budget flags := by
  cases hg : badGeometry flags out.size outPos with
  | true => unfold decompress; rw [hg]; rfl
  | false =>
    rw [decompress_eq _ _ _ _ _ _ hg, decompress_eq _ _ _ _ _ _ hg]
    have hF := callFinal r a out outPos budget flags hg
    have hF2 := callFinal r (a ++ b) out outPos budget flags hg
    obtain ⟨f, hf, hnm⟩ := hF
    have hext := run_ext_same (callEnv a out outPos budget flags) b f { r := r, inPos := 0, outPos := outPos } out
      (callRun r a out outPos budget flags).1 (callRun r a out outPos budget flags).2.1 (callRun r a out outPos budget flags).2.2
      (callGeo hg) hf hne hnm
    have : callRun r (a ++ b) out outPos budget flags = callRun r a out outPos budget flags :=
      Final.unique hF2 hext
    rw [this]

/-- A call that reports `Done` on `a` reports the same on `a` followed by anything. -/
theorem done_ext_same (r : Regs) (a b out : Array UInt8) (outPos budget flags : Nat)
    (hdone : (decompress r a out outPos budget flags).status = stDone) :
    decompress r (a ++ b) out outPos budget flags = decompress r a out outPos budget flags := by
  cases hg : badGeometry flags out.size outPos with
  | true =>
    exfalso
    unfold decompress at hdone
    rw [hg] at hdone
    have : stBadParam = stDone := hdone
    exact absurd this (by decide)
  | false =>
    apply decompress_ext_same
    rw [decompress_eq _ _ _ _ _ _ hg] at hdone
    rw [epilogue_done hdone]
    exact fun h => done_ne_eoi (callEnv a out outPos budget flags) h

end Model.Core
