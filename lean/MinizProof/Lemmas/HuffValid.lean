/-
FROM THE LIMITED HISTOGRAM TO THE DECODER'S VALIDITY RULE: a set of code lengths whose histogram is a
complete prefix-code histogram within 15 bits (what `enforce_max_code_size` leaves behind,
`Lemmas/HuffLimit`) passes `Spec.codeValid` — the Kraft bookkeeping of RFC 1951 / `inftrees.c` that the
reference decoder applies to every transmitted code — as a COMPLETE code.
-/
import MinizProof.Spec.Huffman
import MinizProof.Lemmas.HuffLimit

namespace Model.HuffLimit
open Spec

theorem kraft_cons (a : Int) (r : List Int) : kraft (a :: r) = a * 2 ^ r.length + kraft r := by
  unfold kraft
  rw [List.reverse_cons, W_append, List.length_reverse]
  simp only [W]
  grind

theorem kraft_nonneg (l : List Int) (h : Nonneg l) : 0 ≤ kraft l :=
  W_nonneg _ (fun x hx => h x (List.mem_reverse.mp hx))

/-- the decoder's Kraft bookkeeping over the lengths `len, len+1, …` whose counts are the list `l`:
    with enough left it never reports over-subscription and ends with exactly what is left -/
theorem kraftLeftAux_spec (count : Array Nat) : ∀ (l : List Int) (len left : Nat), Nonneg l →
    (∀ i, i < l.length → count.getD (len + i) 0 = (l.getD i 0).toNat) →
    kraft l ≤ (left : Int) * 2 ^ l.length →
    kraftLeftAux count l.length len left = some ((left : Int) * 2 ^ l.length - kraft l).toNat := by
  intro l
  induction l with
  | nil => intro len left _ _ _; simp [kraftLeftAux, kraft, W]
  | cons a r ih =>
    intro len left hnn hc hk
    have ha := hnn a (by simp)
    have hnr : Nonneg r := fun x hx => hnn x (by simp [hx])
    have hkr := kraft_nonneg r hnr
    have hp : (0 : Int) < 2 ^ r.length := Int.pow_pos (by decide)
    rw [kraft_cons] at hk ⊢
    simp only [List.length_cons, Int.pow_succ] at hk ⊢
    -- a ≤ 2 * left
    have h2 : a * 2 ^ r.length ≤ (2 * (left : Int)) * 2 ^ r.length := by
      have e : (left : Int) * (2 ^ r.length * 2) = (2 * (left : Int)) * 2 ^ r.length := by grind
      omega
    have hale : a ≤ 2 * (left : Int) := Int.le_of_mul_le_mul_right h2 hp
    have hc0 : count.getD len 0 = a.toNat := by have := hc 0 (by simp); simpa using this
    unfold kraftLeftAux
    simp only [hc0]
    rw [if_neg (by omega)]
    have hrec := ih (len + 1) (2 * left - a.toNat) hnr
      (fun i hi => by have := hc (i + 1) (by simp; omega); simpa [Nat.add_assoc, Nat.add_comm 1 i] using this)
      (by
        have e1 : ((2 * left - a.toNat : Nat) : Int) = 2 * (left : Int) - a := by omega
        rw [e1, Int.sub_mul]
        have e : (left : Int) * (2 ^ r.length * 2) = (2 * (left : Int)) * 2 ^ r.length := by grind
        omega)
    rw [hrec]
    congr 2
    have e1 : ((2 * left - a.toNat : Nat) : Int) = 2 * (left : Int) - a := by omega
    rw [e1, Int.sub_mul]
    have e : (left : Int) * (2 ^ r.length * 2) = (2 * (left : Int)) * 2 ^ r.length := by grind
    omega

/-- A COMPLETE HISTOGRAM WITHIN 15 BITS IS A VALID (COMPLETE) CODE FOR THE DECODER: if the lengths
    `lens` (all ≤ 15) have `lv[i]` symbols of length `i + 1` and `lv` is a complete prefix-code
    histogram, the reference decoder's validity rule accepts them, for every alphabet. -/
theorem complete_histogram_is_valid (k : CodeKind) (lens : Array Nat) (lv : List Int) (h15 : lens.all (· ≤ 15) = true)
    (hlen : lv.length = 15) (hnn : Nonneg lv)
    (hc : ∀ i, i < 15 → (countLens lens).getD (1 + i) 0 = (lv.getD i 0).toNat)
    (hk : kraft lv = 2 ^ 15) : codeValid k lens = true := by
  have h := kraftLeftAux_spec (countLens lens) lv 1 1 hnn (by rw [hlen]; exact hc) (by rw [hlen, hk]; decide)
  rw [hlen, hk] at h
  unfold codeValid kraftLeft
  rw [h15, h]
  rfl

theorem kraft_append (x y : List Int) : kraft (x ++ y) = kraft y + 2 ^ y.length * kraft x := by
  unfold kraft
  rw [List.reverse_append, W_append, List.length_reverse]

theorem kraft_zeros (k : Nat) : kraft (List.replicate k (0 : Int)) = 0 := by
  unfold kraft
  rw [List.reverse_replicate]
  exact (W_zero_tail _ (fun x hx => (List.mem_replicate.mp hx).2)).1

/-- … the same for a histogram over the lengths `1..max` with `max ≤ 15` (the code-length alphabet is
    limited to 7 bits): no symbol has a longer code, and the histogram is complete. -/
theorem complete_histogram_is_valid_upto (k : CodeKind) (lens : Array Nat) (lv : List Int) (max : Nat) (hmax : max ≤ 15)
    (h15 : lens.all (· ≤ 15) = true) (hlen : lv.length = max) (hnn : Nonneg lv)
    (hc : ∀ i, i < 15 → (countLens lens).getD (1 + i) 0 = (lv.getD i 0).toNat)
    (hk : kraft lv = 2 ^ max) : codeValid k lens = true := by
  apply complete_histogram_is_valid k lens (lv ++ List.replicate (15 - max) 0) h15
  · rw [List.length_append, List.length_replicate, hlen]; omega
  · intro x hx
    rcases List.mem_append.mp hx with h | h
    · exact hnn x h
    · rw [(List.mem_replicate.mp h).2]; exact Int.le_refl _
  · intro i hi
    rw [hc i hi]
    congr 1
    by_cases hlt : i < lv.length
    · simp [List.getD_eq_getElem?_getD, List.getElem?_append_left hlt]
    · have hge : lv.length ≤ i := Nat.le_of_not_lt hlt
      simp only [List.getD_eq_getElem?_getD]
      rw [List.getElem?_append_right hge, List.getElem?_eq_none hge]
      cases hr : (List.replicate (15 - max) (0 : Int))[i - lv.length]? with
      | none => rfl
      | some v =>
        have := List.mem_of_getElem? hr
        rw [(List.mem_replicate.mp this).2]; rfl
  · rw [kraft_append, kraft_zeros, hk, List.length_replicate, Int.zero_add, ← Int.pow_add]
    congr 1; omega

end Model.HuffLimit
