/-
Encoder specification, zlib framing (RFC 1950): CMF, FLG, the DEFLATE blocks from bit 16, zero padding
to the byte boundary, the Adler-32 of the plaintext most significant byte first. The reference zlib
decoder reads it back: accepted, plaintext = the blocks' expansion, bytes used = header + body +
trailer. Helper lemmas for Props/C09 / C10.
-/
import MinizProof.Lemmas.EncStored
import MinizProof.Props.C16
set_option maxRecDepth 100000
namespace Model.Core
open Spec

/-- the encoder-specification round trip from any start bit -/
theorem inflateSpec_enc_at (maxDist : Nat) (data : Array UInt8) (start : Nat) (bs : List EncBlock)
    (hok : BlocksOk #[] maxDist #[] bs) (h : HasBits data start (blocksBits start bs)) :
    ∃ res, inflateSpec #[] maxDist data start = .accept res ∧ res.out = expandBlocks #[] #[] bs ∧
      res.bitsUsed = start + (blocksBits start bs).length := by
  obtain ⟨infos, hi⟩ := inflateBlocks_enc #[] maxDist data bs (fuelFor data) start #[] #[] (by unfold fuelFor; omega) hok h
  unfold inflateSpec
  rw [hi]
  exact ⟨_, rfl, rfl, rfl⟩

/-- bits of a zlib stream around a DEFLATE body given as blocks: header bytes, body from bit 16, zero
    padding to the byte boundary, the four trailer bytes (Adler-32 of the plaintext, big-endian) -/
def zlibBits (cmf flg : Nat) (bs : List EncBlock) : List Nat :=
  let body := blocksBits 16 bs
  let adler := adler32 1 (expandBlocks #[] #[] bs).toList
  bitsLE cmf 8 ++ (bitsLE flg 8 ++ (body ++ (List.replicate ((8 - (16 + body.length) % 8) % 8) 0 ++
    (bitsLE (adler / 16777216 % 256) 8 ++ (bitsLE (adler / 65536 % 256) 8 ++ (bitsLE (adler / 256 % 256) 8 ++ bitsLE (adler % 256) 8))))))

theorem ofNat_toNat_lt {v : Nat} (h : v < 256) : (UInt8.ofNat v).toNat = v := by
  simp [UInt8.toNat_ofNat, Nat.mod_eq_of_lt h]

/-- THE ZLIB FRAMING IS READ BACK: a byte string holding `zlibBits cmf flg bs` for a valid header pair
    and a well-formed block sequence is accepted by `Spec.zlibSpec` (checksum verified), its plaintext
    is the expansion of the blocks, and exactly header + body + trailer bytes are used. -/
theorem zlibSpec_enc (cmf flg : Nat) (hc : cmf < 256) (hf : flg < 256) (hv : zlibHeaderValid cmf flg = true)
    (maxDist : Nat) (data : Array UInt8) (bs : List EncBlock) (hok : BlocksOk #[] maxDist #[] bs)
    (h : HasBits data 0 (zlibBits cmf flg bs)) :
    ∃ zr, zlibSpec #[] maxDist data true = .accept zr ∧ zr.inner.out = expandBlocks #[] #[] bs ∧
      zr.bytesUsed = (16 + (blocksBits 16 bs).length + 7) / 8 + 4 := by
  unfold zlibBits at h
  dsimp only at h
  obtain ⟨h0, h⟩ := HasBits.append (a := bitsLE cmf 8) h
  obtain ⟨h1, h⟩ := h.append
  obtain ⟨hbody, h⟩ := h.append
  obtain ⟨_, h⟩ := h.append
  obtain ⟨ta, h⟩ := h.append
  obtain ⟨tb, h⟩ := h.append
  obtain ⟨tc, td⟩ := h.append
  simp only [bitsLE_length, List.length_replicate, Nat.zero_add] at h1 hbody ta tb tc td
  generalize hL : (blocksBits 16 bs).length = L at ta tb tc td
  generalize hA : adler32 1 (expandBlocks #[] #[] bs).toList = A at ta tb tc td
  have hAlt : A < 4294967296 := by rw [← hA]; exact C16.adler32_lt _ _
  have d0 := byte_of_hasBits data 0 cmf hc (by simpa using h0)
  have d1 := byte_of_hasBits data 1 flg hf (by simpa using h1)
  obtain ⟨res, hacc, hout, hbits⟩ := inflateSpec_enc_at maxDist data 16 bs hok (by simpa using hbody)
  rw [hL] at hbits
  have he : 8 + 8 + L + (8 - (16 + L) % 8) % 8 = 8 * ((16 + L + 7) / 8) := by omega
  rw [he] at ta tb tc td
  have ea : data[(16 + L + 7) / 8]? = some (UInt8.ofNat (A / 16777216 % 256)) :=
    byte_of_hasBits data _ _ (Nat.mod_lt _ (by decide)) ta
  have eb : data[(16 + L + 7) / 8 + 1]? = some (UInt8.ofNat (A / 65536 % 256)) :=
    byte_of_hasBits data _ _ (Nat.mod_lt _ (by decide)) (by rw [show 8 * ((16 + L + 7) / 8 + 1) = 8 * ((16 + L + 7) / 8) + 8 by omega]; exact tb)
  have ec : data[(16 + L + 7) / 8 + 2]? = some (UInt8.ofNat (A / 256 % 256)) :=
    byte_of_hasBits data _ _ (Nat.mod_lt _ (by decide)) (by rw [show 8 * ((16 + L + 7) / 8 + 2) = 8 * ((16 + L + 7) / 8) + 8 + 8 by omega]; exact tc)
  have ed : data[(16 + L + 7) / 8 + 3]? = some (UInt8.ofNat (A % 256)) :=
    byte_of_hasBits data _ _ (Nat.mod_lt _ (by decide)) (by rw [show 8 * ((16 + L + 7) / 8 + 3) = 8 * ((16 + L + 7) / 8) + 8 + 8 + 8 by omega]; exact td)
  unfold zlibSpec
  rw [d0, d1]
  dsimp only
  rw [ofNat_toNat_lt hc, ofNat_toNat_lt hf, hv]
  simp only [Bool.not_true, Bool.false_eq_true, ↓reduceIte]
  rw [hacc]
  dsimp only
  rw [hbits, ea, eb, ec, ed]
  dsimp only
  rw [ofNat_toNat_lt (Nat.mod_lt _ (by decide)), ofNat_toNat_lt (Nat.mod_lt _ (by decide)),
    ofNat_toNat_lt (Nat.mod_lt _ (by decide)), ofNat_toNat_lt (Nat.mod_lt _ (by decide)), hout, hA]
  have hst : ((A / 16777216 % 256 * 256 + A / 65536 % 256) * 256 + A / 256 % 256) * 256 + A % 256 = A := by omega
  rw [hst]
  simp only [Bool.true_and, ne_eq, not_true_eq_false, decide_false, Bool.false_eq_true, ↓reduceIte]
  exact ⟨_, rfl, hout, rfl⟩

end Model.Core
