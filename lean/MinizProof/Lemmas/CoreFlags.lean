/-
The more-input flag between calls. `TINFL_FLAG_HAS_MORE_INPUT` is read in exactly one place: when
the input runs dry, it chooses between "needs more input" and "cannot make progress". Two calls that
differ only in that flag therefore run through the same transitions, and end the same way unless the
input ran dry. This is what lets a driver drop the flag on its last call (as `inflate()` does on
`Finish`) without changing anything for a stream that is complete.
No property statements here (see Props/C07).
-/
import MinizProof.Lemmas.CoreSession
set_option maxRecDepth 100000
set_option linter.unusedSectionVars false
namespace Model.Core
open Spec

/-- Two flag words that agree on everything the automaton and the epilogue read, except possibly
    the more-input flag. -/
structure FlagsBut (fl fl' : Nat) : Prop where
  zlib : hasFlag fl' fParseZlib = hasFlag fl fParseZlib
  flat : hasFlag fl' fNonWrapping = hasFlag fl fNonWrapping
  comp : hasFlag fl' fComputeAdler = hasFlag fl fComputeAdler
  ign  : hasFlag fl' fIgnoreAdler = hasFlag fl fIgnoreAdler
  stop : hasFlag fl' fStopOnBlockBoundary = hasFlag fl fStopOnBlockBoundary

theorem FlagsBut.symm {fl fl' : Nat} (h : FlagsBut fl fl') : FlagsBut fl' fl :=
  ⟨h.zlib.symm, h.flat.symm, h.comp.symm, h.ign.symm, h.stop.symm⟩

/-- The same call parameters under another flag word. -/
@[reducible] def Env.withFlags (e : Env) (fl : Nat) : Env := { e with flags := fl }

/-- A starved exit: one of the two statuses the more-input flag chooses between. -/
def isEoi (st : Int) : Bool := st == stNeedsMoreInput || st == stFailedCannotMakeProgress

/-- Replace the status of a starved exit. -/
def Step.mapE (s' : Int) : Step → Step
  | .cont c o => .cont c o
  | .fin st c o => .fin (if isEoi st then s' else st) c o

theorem eoi_isEoi (fl : Nat) : isEoi (endOfInput fl) = true := by
  unfold endOfInput; split <;> rfl

@[simp] theorem mapE_cont (s' : Int) (c : Ctx) (o : Array UInt8) : (Step.cont c o).mapE s' = .cont c o := rfl
theorem mapE_eoi (e : Env) (s' : Int) (c : Ctx) (o : Array UInt8) : (Step.fin e.eoi c o).mapE s' = .fin s' c o := by
  show Step.fin (if isEoi (endOfInput e.flags) then s' else _) c o = _
  rw [eoi_isEoi]; rfl
@[simp] theorem mapE_more (s' : Int) (c : Ctx) (o : Array UInt8) : (Step.fin stHasMoreOutput c o).mapE s' = .fin stHasMoreOutput c o := rfl
@[simp] theorem mapE_failed (s' : Int) (c : Ctx) (o : Array UInt8) : (Step.fin stFailed c o).mapE s' = .fin stFailed c o := rfl
@[simp] theorem mapE_done (s' : Int) (c : Ctx) (o : Array UInt8) : (Step.fin stDone c o).mapE s' = .fin stDone c o := rfl
@[simp] theorem mapE_bb (s' : Int) (c : Ctx) (o : Array UInt8) : (Step.fin stBlockBoundary c o).mapE s' = .fin stBlockBoundary c o := rfl

variable {e : Env} {fl' : Nat} {c : Ctx} {out : Array UInt8}

theorem flag_readBits (amount : Nat) (k k' : Ctx → Nat → Step) (s' : Int)
    (hk : ∀ c1 v, k' c1 v = (k c1 v).mapE s') :
    (match readBits e.inp amount c with
      | (c1, none) => Step.fin s' c1 out
      | (c1, some v) => k' c1 v) =
    (match readBits e.inp amount c with
      | (c1, none) => Step.fin e.eoi c1 out
      | (c1, some v) => k c1 v).mapE s' := by
  generalize readBits e.inp amount c = p
  obtain ⟨c1, o⟩ := p
  cases o with
  | none => exact (mapE_eoi e s' c1 out).symm
  | some v => exact hk c1 v

theorem flag_decodeHuff (code : Code) (k k' : Ctx → Nat → Step) (s' : Int)
    (hk : ∀ c1 v, k' c1 v = (k c1 v).mapE s') :
    (match decodeHuff e.inp code c with
      | (c1, none) => Step.fin s' c1 out
      | (c1, some v) => k' c1 v) =
    (match decodeHuff e.inp code c with
      | (c1, none) => Step.fin e.eoi c1 out
      | (c1, some v) => k c1 v).mapE s' := by
  generalize decodeHuff e.inp code c = p
  obtain ⟨c1, o⟩ := p
  cases o with
  | none => exact (mapE_eoi e s' c1 out).symm
  | some v => exact hk c1 v

theorem flag_readByte (k k' : UInt8 → Step) (s' : Int) (hk : ∀ b, k' b = (k b).mapE s') :
    (match e.inp[c.inPos]? with
      | none => Step.fin s' c out
      | some b => k' b) =
    (match e.inp[c.inPos]? with
      | none => Step.fin e.eoi c out
      | some b => k b).mapE s' := by
  cases e.inp[c.inPos]? with
  | none => exact (mapE_eoi e s' c out).symm
  | some b => exact hk b

macro "e_ite" : tactic => `(tactic| (simp only [apply_ite (Step.mapE _)]; rfl))

section states
variable (h : FlagsBut e.flags fl')
include h

theorem flag_Start : stStart (e.withFlags fl') c out = (stStart e c out).mapE (endOfInput fl') := by
  unfold stStart
  show Step.cont (setState _ (if hasFlag fl' fParseZlib = true then _ else _)) out = _
  rw [h.zlib]; rfl

theorem flag_ReadZlibCmf : stReadZlibCmf (e.withFlags fl') c out = (stReadZlibCmf e c out).mapE (endOfInput fl') := by
  unfold stReadZlibCmf
  exact flag_readByte (e := e) _ _ _ fun b => rfl

theorem flag_ReadZlibFlg : stReadZlibFlg (e.withFlags fl') c out = (stReadZlibFlg e c out).mapE (endOfInput fl') := by
  unfold stReadZlibFlg
  have hr : (e.withFlags fl').ring = e.ring := by show (!hasFlag fl' fNonWrapping) = !hasFlag e.flags fNonWrapping; rw [h.flat]
  rw [hr]
  exact flag_readByte (e := e) _ _ _ fun b => rfl

theorem flag_ReadBlockHeader : stReadBlockHeader (e.withFlags fl') c out = (stReadBlockHeader e c out).mapE (endOfInput fl') := by
  unfold stReadBlockHeader
  refine flag_readBits (e := e) 3 _ _ _ fun c1 v => ?_
  dsimp only
  e_ite

theorem flag_BlockTypeNoCompression : stBlockTypeNoCompression (e.withFlags fl') c out = (stBlockTypeNoCompression e c out).mapE (endOfInput fl') := by
  unfold stBlockTypeNoCompression
  exact flag_readBits (e := e) _ _ _ _ fun c1 v => rfl

theorem flag_RawHeader : stRawHeader (e.withFlags fl') c out = (stRawHeader e c out).mapE (endOfInput fl') := by
  unfold stRawHeader
  dsimp only
  by_cases h1 : c.r.counter < 4
  · rw [if_pos h1, if_pos h1]
    by_cases h2 : c.r.numBits ≠ 0
    · rw [if_pos h2, if_pos h2]
      exact flag_readBits (e := e) 8 _ _ _ fun c1 v => rfl
    · rw [if_neg h2, if_neg h2]
      exact flag_readByte (e := e) _ _ _ fun b => rfl
  · rw [if_neg h1, if_neg h1]
    e_ite

theorem flag_RawReadFirstByte : stRawReadFirstByte (e.withFlags fl') c out = (stRawReadFirstByte e c out).mapE (endOfInput fl') := by
  unfold stRawReadFirstByte
  exact flag_readBits (e := e) 8 _ _ _ fun c1 v => rfl

theorem flag_RawStoreFirstByte : stRawStoreFirstByte (e.withFlags fl') c out = (stRawStoreFirstByte e c out).mapE (endOfInput fl') := by
  unfold stRawStoreFirstByte
  dsimp only
  e_ite

theorem flag_RawMemcpy1 : stRawMemcpy1 (e.withFlags fl') c out = (stRawMemcpy1 e c out).mapE (endOfInput fl') := by
  unfold stRawMemcpy1
  e_ite

theorem flag_RawMemcpy2 : stRawMemcpy2 (e.withFlags fl') c out = (stRawMemcpy2 e c out).mapE (endOfInput fl') := by
  unfold stRawMemcpy2
  dsimp only
  by_cases h1 : c.inPos < e.inp.size
  · rw [if_pos h1, if_pos h1]; rfl
  · rw [if_neg h1, if_neg h1]; exact (mapE_eoi e _ c out).symm

theorem flag_ReadTableSizes : stReadTableSizes (e.withFlags fl') c out = (stReadTableSizes e c out).mapE (endOfInput fl') := by
  unfold stReadTableSizes
  dsimp only
  by_cases h1 : c.r.counter < 3
  · rw [if_pos h1, if_pos h1]
    exact flag_readBits (e := e) _ _ _ _ fun c1 v => rfl
  · rw [if_neg h1, if_neg h1]
    e_ite

theorem flag_ReadHufflenTableCodeSize : stReadHufflenTableCodeSize (e.withFlags fl') c out = (stReadHufflenTableCodeSize e c out).mapE (endOfInput fl') := by
  unfold stReadHufflenTableCodeSize
  dsimp only
  by_cases h1 : c.r.counter < c.r.tableSizes.getD 2 0
  · rw [if_pos h1, if_pos h1]
    exact flag_readBits (e := e) _ _ _ _ fun c1 v => rfl
  · rw [if_neg h1, if_neg h1]; rfl

theorem flag_ReadLitlenDistTablesCodeSize : stReadLitlenDistTablesCodeSize (e.withFlags fl') c out = (stReadLitlenDistTablesCodeSize e c out).mapE (endOfInput fl') := by
  unfold stReadLitlenDistTablesCodeSize
  dsimp only
  by_cases h1 : c.r.counter < c.r.tableSizes.getD 0 0 + c.r.tableSizes.getD 1 0
  · rw [if_pos h1, if_pos h1]
    refine flag_decodeHuff (e := e) _ _ _ _ fun c1 v => ?_
    e_ite
  · rw [if_neg h1, if_neg h1]
    e_ite

theorem flag_ReadExtraBitsCodeSize : stReadExtraBitsCodeSize (e.withFlags fl') c out = (stReadExtraBitsCodeSize e c out).mapE (endOfInput fl') := by
  unfold stReadExtraBitsCodeSize
  exact flag_readBits (e := e) _ _ _ _ fun c1 v => rfl

theorem flag_DecodeLitlen : stDecodeLitlen (e.withFlags fl') c out = (stDecodeLitlen e c out).mapE (endOfInput fl') := by
  unfold stDecodeLitlen
  exact flag_decodeHuff (e := e) _ _ _ _ fun c1 v => rfl

theorem flag_WriteSymbol : stWriteSymbol (e.withFlags fl') c out = (stWriteSymbol e c out).mapE (endOfInput fl') := by
  unfold stWriteSymbol
  e_ite

theorem flag_HuffDecodeOuterLoop1 : stHuffDecodeOuterLoop1 (e.withFlags fl') c out = (stHuffDecodeOuterLoop1 e c out).mapE (endOfInput fl') := by
  unfold stHuffDecodeOuterLoop1
  dsimp only
  e_ite

theorem flag_ReadExtraBitsLitlen : stReadExtraBitsLitlen (e.withFlags fl') c out = (stReadExtraBitsLitlen e c out).mapE (endOfInput fl') := by
  unfold stReadExtraBitsLitlen
  exact flag_readBits (e := e) _ _ _ _ fun c1 v => rfl

theorem flag_DecodeDistance : stDecodeDistance (e.withFlags fl') c out = (stDecodeDistance e c out).mapE (endOfInput fl') := by
  unfold stDecodeDistance
  refine flag_decodeHuff (e := e) _ _ _ _ fun c1 v => ?_
  dsimp only
  e_ite

theorem flag_ReadExtraBitsDistance : stReadExtraBitsDistance (e.withFlags fl') c out = (stReadExtraBitsDistance e c out).mapE (endOfInput fl') := by
  unfold stReadExtraBitsDistance
  exact flag_readBits (e := e) _ _ _ _ fun c1 v => rfl

theorem flag_Match : stMatch (e.withFlags fl') c out = (stMatch e c out).mapE (endOfInput fl') := by
  unfold stMatch
  have hr : (e.withFlags fl').ring = e.ring := by show (!hasFlag fl' fNonWrapping) = !hasFlag e.flags fNonWrapping; rw [h.flat]
  rw [hr]
  dsimp only
  e_ite

theorem flag_BlockDone : stBlockDone (e.withFlags fl') c out = (stBlockDone e c out).mapE (endOfInput fl') := by
  unfold stBlockDone
  show (if c.r.finish ≠ 0 then (if hasFlag fl' fParseZlib = true then _ else _) else if hasFlag fl' fStopOnBlockBoundary = true then _ else _) = _
  rw [h.zlib, h.stop]
  e_ite

theorem flag_ReadAdler32 : stReadAdler32 (e.withFlags fl') c out = (stReadAdler32 e c out).mapE (endOfInput fl') := by
  unfold stReadAdler32
  dsimp only
  by_cases h1 : c.r.counter < 4
  · rw [if_pos h1, if_pos h1]
    by_cases h2 : c.r.numBits ≠ 0
    · rw [if_pos h2, if_pos h2]
      exact flag_readBits (e := e) 8 _ _ _ fun c1 v => rfl
    · rw [if_neg h2, if_neg h2]
      exact flag_readByte (e := e) _ _ _ fun b => rfl
  · rw [if_neg h1, if_neg h1]; rfl

/-- One transition under the other flag word. -/
theorem step_flag : step (e.withFlags fl') c out = (step e c out).mapE (endOfInput fl') := by
  by_cases hStart : c.r.state = sStart
  · rw [step_Start hStart, step_Start (e := e) hStart]; exact flag_Start h
  by_cases hReadZlibCmf : c.r.state = sReadZlibCmf
  · rw [step_ReadZlibCmf hReadZlibCmf, step_ReadZlibCmf (e := e) hReadZlibCmf]; exact flag_ReadZlibCmf h
  by_cases hReadZlibFlg : c.r.state = sReadZlibFlg
  · rw [step_ReadZlibFlg hReadZlibFlg, step_ReadZlibFlg (e := e) hReadZlibFlg]; exact flag_ReadZlibFlg h
  by_cases hReadBlockHeader : c.r.state = sReadBlockHeader
  · rw [step_ReadBlockHeader hReadBlockHeader, step_ReadBlockHeader (e := e) hReadBlockHeader]; exact flag_ReadBlockHeader h
  by_cases hBlockTypeNoCompression : c.r.state = sBlockTypeNoCompression
  · rw [step_BlockTypeNoCompression hBlockTypeNoCompression, step_BlockTypeNoCompression (e := e) hBlockTypeNoCompression]; exact flag_BlockTypeNoCompression h
  by_cases hRawHeader : c.r.state = sRawHeader
  · rw [step_RawHeader hRawHeader, step_RawHeader (e := e) hRawHeader]; exact flag_RawHeader h
  by_cases hRawReadFirstByte : c.r.state = sRawReadFirstByte
  · rw [step_RawReadFirstByte hRawReadFirstByte, step_RawReadFirstByte (e := e) hRawReadFirstByte]; exact flag_RawReadFirstByte h
  by_cases hRawStoreFirstByte : c.r.state = sRawStoreFirstByte
  · rw [step_RawStoreFirstByte hRawStoreFirstByte, step_RawStoreFirstByte (e := e) hRawStoreFirstByte]; exact flag_RawStoreFirstByte h
  by_cases hRawMemcpy1 : c.r.state = sRawMemcpy1
  · rw [step_RawMemcpy1 hRawMemcpy1, step_RawMemcpy1 (e := e) hRawMemcpy1]; exact flag_RawMemcpy1 h
  by_cases hRawMemcpy2 : c.r.state = sRawMemcpy2
  · rw [step_RawMemcpy2 hRawMemcpy2, step_RawMemcpy2 (e := e) hRawMemcpy2]; exact flag_RawMemcpy2 h
  by_cases hReadTableSizes : c.r.state = sReadTableSizes
  · rw [step_ReadTableSizes hReadTableSizes, step_ReadTableSizes (e := e) hReadTableSizes]; exact flag_ReadTableSizes h
  by_cases hReadHufflenTableCodeSize : c.r.state = sReadHufflenTableCodeSize
  · rw [step_ReadHufflenTableCodeSize hReadHufflenTableCodeSize, step_ReadHufflenTableCodeSize (e := e) hReadHufflenTableCodeSize]; exact flag_ReadHufflenTableCodeSize h
  by_cases hReadLitlenDistTablesCodeSize : c.r.state = sReadLitlenDistTablesCodeSize
  · rw [step_ReadLitlenDistTablesCodeSize hReadLitlenDistTablesCodeSize, step_ReadLitlenDistTablesCodeSize (e := e) hReadLitlenDistTablesCodeSize]; exact flag_ReadLitlenDistTablesCodeSize h
  by_cases hReadExtraBitsCodeSize : c.r.state = sReadExtraBitsCodeSize
  · rw [step_ReadExtraBitsCodeSize hReadExtraBitsCodeSize, step_ReadExtraBitsCodeSize (e := e) hReadExtraBitsCodeSize]; exact flag_ReadExtraBitsCodeSize h
  by_cases hDecodeLitlen : c.r.state = sDecodeLitlen
  · rw [step_DecodeLitlen hDecodeLitlen, step_DecodeLitlen (e := e) hDecodeLitlen]; exact flag_DecodeLitlen h
  by_cases hWriteSymbol : c.r.state = sWriteSymbol
  · rw [step_WriteSymbol hWriteSymbol, step_WriteSymbol (e := e) hWriteSymbol]; exact flag_WriteSymbol h
  by_cases hHuffDecodeOuterLoop1 : c.r.state = sHuffDecodeOuterLoop1
  · rw [step_HuffDecodeOuterLoop1 hHuffDecodeOuterLoop1, step_HuffDecodeOuterLoop1 (e := e) hHuffDecodeOuterLoop1]; exact flag_HuffDecodeOuterLoop1 h
  by_cases hReadExtraBitsLitlen : c.r.state = sReadExtraBitsLitlen
  · rw [step_ReadExtraBitsLitlen hReadExtraBitsLitlen, step_ReadExtraBitsLitlen (e := e) hReadExtraBitsLitlen]; exact flag_ReadExtraBitsLitlen h
  by_cases hDecodeDistance : c.r.state = sDecodeDistance
  · rw [step_DecodeDistance hDecodeDistance, step_DecodeDistance (e := e) hDecodeDistance]; exact flag_DecodeDistance h
  by_cases hReadExtraBitsDistance : c.r.state = sReadExtraBitsDistance
  · rw [step_ReadExtraBitsDistance hReadExtraBitsDistance, step_ReadExtraBitsDistance (e := e) hReadExtraBitsDistance]; exact flag_ReadExtraBitsDistance h
  by_cases hReadAdler32 : c.r.state = sReadAdler32
  · rw [step_ReadAdler32 hReadAdler32, step_ReadAdler32 (e := e) hReadAdler32]; exact flag_ReadAdler32 h
  by_cases hBlockDone : c.r.state = sBlockDone
  · rw [step_BlockDone hBlockDone, step_BlockDone (e := e) hBlockDone]; exact flag_BlockDone h
  by_cases hM1 : c.r.state = sHuffDecodeOuterLoop2
  · rw [step_Match1 hM1, step_Match1 (e := e) hM1]; exact flag_Match h
  by_cases hM2 : c.r.state = sWriteLenBytesToEnd
  · rw [step_Match2 hM2, step_Match2 (e := e) hM2]; exact flag_Match h
  by_cases hD : c.r.state = sDoneForever
  · rw [step_DoneForever hD, step_DoneForever (e := e) hD]; rfl
  · have hF : sDoneForever < c.r.state := by
      simp only [sStart, sReadZlibCmf, sReadZlibFlg, sReadBlockHeader, sBlockTypeNoCompression, sRawHeader,
        sRawMemcpy1, sRawMemcpy2, sReadTableSizes, sReadHufflenTableCodeSize, sReadLitlenDistTablesCodeSize,
        sReadExtraBitsCodeSize, sDecodeLitlen, sWriteSymbol, sReadExtraBitsLitlen, sDecodeDistance,
        sReadExtraBitsDistance, sRawReadFirstByte, sRawStoreFirstByte, sWriteLenBytesToEnd, sBlockDone,
        sHuffDecodeOuterLoop1, sHuffDecodeOuterLoop2, sReadAdler32, sDoneForever] at *
      omega
    have h1 : step e c out = .fin stFailed c out := by unfold step; exact stepAt_failed _ hF e c out
    have h2 : step (e.withFlags fl') c out = .fin stFailed c out := by unfold step; exact stepAt_failed _ hF _ _ out
    rw [h1, h2]; rfl

/-- The run under the other flag word: same transitions, same end, a starved end re-labelled. -/
theorem run_flag : ∀ (fuel : Nat) (c : Ctx) (out : Array UInt8),
    run (e.withFlags fl') fuel c out =
      ((if isEoi (run e fuel c out).1 then endOfInput fl' else (run e fuel c out).1), (run e fuel c out).2) := by
  intro fuel
  induction fuel with
  | zero => intro c out; rfl
  | succ n ih =>
    intro c out
    unfold run
    rw [step_flag h]
    cases hs : step e c out with
    | cont c1 o1 => exact ih c1 o1
    | fin st c1 o1 => rfl

end states

/-! ### One call under the two flag words -/

theorem callRun_flag {fl fl' : Nat} (h : FlagsBut fl fl') (r : Regs) (inp out : Array UInt8) (outPos budget : Nat) :
    callRun r inp out outPos budget fl' =
      ((if isEoi (callRun r inp out outPos budget fl).1 then endOfInput fl' else (callRun r inp out outPos budget fl).1),
        (callRun r inp out outPos budget fl).2) :=
  run_flag (e := callEnv inp out outPos budget fl) (fl' := fl') h _ _ _

theorem badGeometry_flag {fl fl' : Nat} (h : FlagsBut fl fl') (n p : Nat) : badGeometry fl' n p = badGeometry fl n p := by
  unfold badGeometry; rw [h.flat]

theorem needAdler_flag {fl fl' : Nat} (h : FlagsBut fl fl') : needAdler fl' = needAdler fl := by
  unfold needAdler; rw [h.ign, h.zlib, h.comp]

theorem epilogue_flag {fl fl' : Nat} (h : FlagsBut fl fl') (p E : Nat) (st : Int) (c : Ctx) (o : Array UInt8) :
    epilogue fl' p E st c o = epilogue fl p E st c o := by
  unfold epilogue
  rw [needAdler_flag h, h.zlib]

/-- A starved exit is reported as one of three statuses, whatever the checksum flags. -/
theorem epilogue_eoi (fl p E : Nat) (st : Int) (c : Ctx) (o : Array UInt8) (hst : isEoi st = true) :
    ((epilogue fl p E st c o).status = stNeedsMoreInput ∨ (epilogue fl p E st c o).status = stHasMoreOutput ∨
      (epilogue fl p E st c o).status = stFailedCannotMakeProgress) ∧
    ((epilogue fl p E st c o).status = stFailedCannotMakeProgress ↔ st = stFailedCannotMakeProgress) ∧
    (epilogue fl p E st c o).out = o ∧ (epilogue fl p E st c o).consumed = c.inPos ∧
    (epilogue fl p E st c o).written = c.outPos - p := by
  have hu : exitUndo st c = 0 := by
    unfold exitUndo
    unfold isEoi at hst
    rw [if_pos hst]
  have h3 : exitStatus st c E = stNeedsMoreInput ∨ exitStatus st c E = stHasMoreOutput ∨
      exitStatus st c E = stFailedCannotMakeProgress := by
    unfold exitStatus
    split
    · exact .inr (.inl rfl)
    · unfold isEoi at hst
      simp only [Bool.or_eq_true, beq_iff_eq] at hst
      rcases hst with h | h
      · exact .inl h
      · exact .inr (.inr h)
  have h4 : exitStatus st c E = stFailedCannotMakeProgress ↔ st = stFailedCannotMakeProgress := by
    unfold exitStatus
    split
    · rename_i hc
      simp only [Bool.and_eq_true, beq_iff_eq] at hc
      rw [hc.1.1]; decide
    · exact Iff.rfl
  have hnd : (exitStatus st c E == stDone) = false := by
    rcases h3 with h | h | h <;> rw [h] <;> decide
  unfold epilogue
  dsimp only
  split
  · simp only [hnd, Bool.false_and, Bool.false_eq_true, if_false, hu, Nat.sub_zero]
    exact ⟨h3, h4, by trivial, by trivial, by trivial⟩
  · simp only [hu, Nat.sub_zero]
    exact ⟨h3, h4, by trivial, by trivial, by trivial⟩

/-- THE MORE-INPUT FLAG IS ONLY READ WHEN THE INPUT RUNS DRY. If a call under `fl` ends in any
    status other than the three a starved exit can be reported as, the call under `fl'` is the same
    call: status, counts, buffer and saved registers. -/
theorem decompress_flag_same {fl fl' : Nat} (h : FlagsBut fl fl') (r : Regs) (inp out : Array UInt8) (outPos budget : Nat)
    (h1 : (decompress r inp out outPos budget fl).status ≠ stNeedsMoreInput)
    (h2 : (decompress r inp out outPos budget fl).status ≠ stHasMoreOutput)
    (h3 : (decompress r inp out outPos budget fl).status ≠ stFailedCannotMakeProgress) :
    decompress r inp out outPos budget fl' = decompress r inp out outPos budget fl := by
  cases hg : badGeometry fl out.size outPos with
  | true =>
    unfold decompress
    rw [badGeometry_flag h, hg]; rfl
  | false =>
    have hg' : badGeometry fl' out.size outPos = false := by rw [badGeometry_flag h]; exact hg
    rw [decompress_eq _ _ _ _ _ _ hg] at h1 h2 h3 ⊢
    rw [decompress_eq _ _ _ _ _ _ hg', callRun_flag h]
    by_cases he : isEoi (callRun r inp out outPos budget fl).1 = true
    · obtain ⟨h0, _⟩ := epilogue_eoi fl outPos (min (outPos + budget) out.size) _ (callRun r inp out outPos budget fl).2.1
        (callRun r inp out outPos budget fl).2.2 he
      rcases h0 with h0 | h0 | h0
      · exact absurd h0 h1
      · exact absurd h0 h2
      · exact absurd h0 h3
    · rw [if_neg he]
      exact epilogue_flag h _ _ _ _ _

/-- Dropping the flag on a call that does not then starve changes nothing. -/
theorem decompress_drop_more {fl fl' : Nat} (h : FlagsBut fl fl') (hno : hasFlag fl' fHasMoreInput = false)
    (r : Regs) (inp out : Array UInt8) (outPos budget : Nat)
    (hs : (decompress r inp out outPos budget fl').status ≠ stFailedCannotMakeProgress) :
    decompress r inp out outPos budget fl = decompress r inp out outPos budget fl' := by
  cases hg : badGeometry fl out.size outPos with
  | true =>
    unfold decompress
    rw [badGeometry_flag h, hg]; rfl
  | false =>
    have hg' : badGeometry fl' out.size outPos = false := by rw [badGeometry_flag h]; exact hg
    rw [decompress_eq _ _ _ _ _ _ hg'] at hs ⊢
    rw [decompress_eq _ _ _ _ _ _ hg]
    rw [callRun_flag h] at hs ⊢
    by_cases he : isEoi (callRun r inp out outPos budget fl).1 = true
    · exfalso
      rw [if_pos he] at hs
      have he' : endOfInput fl' = stFailedCannotMakeProgress := by unfold endOfInput; rw [hno]; rfl
      rw [he'] at hs
      exact hs ((epilogue_eoi fl' outPos (min (outPos + budget) out.size) stFailedCannotMakeProgress _ _ rfl).2.1.mpr rfl)
    · rw [if_neg he]
      exact (epilogue_flag h _ _ _ _ _).symm

/-- … and when it does starve, the two calls stopped at the same place with the same bytes. -/
theorem decompress_starved {fl fl' : Nat} (h : FlagsBut fl fl')
    (r : Regs) (inp out : Array UInt8) (outPos budget : Nat)
    (hs : (decompress r inp out outPos budget fl').status = stFailedCannotMakeProgress) :
    ((decompress r inp out outPos budget fl).status = stNeedsMoreInput ∨
      (decompress r inp out outPos budget fl).status = stHasMoreOutput ∨
      (decompress r inp out outPos budget fl).status = stFailedCannotMakeProgress) ∧
    (decompress r inp out outPos budget fl).out = (decompress r inp out outPos budget fl').out ∧
    (decompress r inp out outPos budget fl).consumed = (decompress r inp out outPos budget fl').consumed ∧
    (decompress r inp out outPos budget fl).written = (decompress r inp out outPos budget fl').written := by
  cases hg : badGeometry fl out.size outPos with
  | true =>
    exfalso
    unfold decompress at hs
    rw [badGeometry_flag h, hg] at hs
    have hs' : stBadParam = stFailedCannotMakeProgress := hs
    exact absurd hs' (by decide)
  | false =>
    have hg' : badGeometry fl' out.size outPos = false := by rw [badGeometry_flag h]; exact hg
    rw [decompress_eq _ _ _ _ _ _ hg'] at hs ⊢
    rw [decompress_eq _ _ _ _ _ _ hg]
    rw [callRun_flag h] at hs ⊢
    by_cases he : isEoi (callRun r inp out outPos budget fl).1 = true
    · rw [if_pos he] at hs ⊢
      obtain ⟨a1, _, a3, a4, a5⟩ := epilogue_eoi fl outPos (min (outPos + budget) out.size) _
        (callRun r inp out outPos budget fl).2.1 (callRun r inp out outPos budget fl).2.2 he
      obtain ⟨_, _, b3, b4, b5⟩ := epilogue_eoi fl' outPos (min (outPos + budget) out.size) (endOfInput fl')
        (callRun r inp out outPos budget fl).2.1 (callRun r inp out outPos budget fl).2.2 (eoi_isEoi fl')
      exact ⟨a1, by rw [a3, b3], by rw [a4, b4], by rw [a5, b5]⟩
    · rw [if_neg he] at hs ⊢
      rw [epilogue_flag h] at hs ⊢
      exact ⟨.inr (.inr hs), rfl, rfl, rfl⟩

/-! ### A driver that drops the flag on its last call -/

/-- `runCalls` with the last call made under `fl'` (as `inflate()` does for `Finish`: every call but
    the last announces more input). -/
def runCallsFin (fl fl' pos0 : Nat) : Regs → Array UInt8 → Nat → Array UInt8 → List (Array UInt8 × Nat) → List Res
  | _, _, _, _, [] => []
  | r, out, pos, carry, [(chunk, g)] => [decompress r (carry ++ chunk) out pos (pos0 + g - pos) fl']
  | r, out, pos, carry, (chunk, g) :: c2 :: rest =>
    let res := decompress r (carry ++ chunk) out pos (pos0 + g - pos) fl
    res :: runCallsFin fl fl' pos0 res.r res.out (pos + res.written)
      ((carry ++ chunk).extract res.consumed (carry ++ chunk).size) (c2 :: rest)

/-- All calls but the last are the same calls. -/
theorem runCallsFin_dropLast (fl fl' pos0 : Nat) : ∀ (calls : List (Array UInt8 × Nat)) (r : Regs) (out : Array UInt8)
    (pos : Nat) (carry : Array UInt8),
    (runCallsFin fl fl' pos0 r out pos carry calls).dropLast = (runCalls fl pos0 r out pos carry calls).dropLast := by
  intro calls
  induction calls with
  | nil => intro r out pos carry; rfl
  | cons c rest ih =>
    intro r out pos carry
    obtain ⟨chunk, g⟩ := c
    cases rest with
    | nil => rfl
    | cons c2 rest =>
      have := ih (decompress r (carry ++ chunk) out pos (pos0 + g - pos) fl).r
        (decompress r (carry ++ chunk) out pos (pos0 + g - pos) fl).out
        (pos + (decompress r (carry ++ chunk) out pos (pos0 + g - pos) fl).written)
        ((carry ++ chunk).extract (decompress r (carry ++ chunk) out pos (pos0 + g - pos) fl).consumed (carry ++ chunk).size)
      obtain ⟨chunk2, g2⟩ := c2
      show (_ :: runCallsFin fl fl' pos0 _ _ _ _ ((chunk2, g2) :: rest)).dropLast =
        (_ :: runCalls fl pos0 _ _ _ _ ((chunk2, g2) :: rest)).dropLast
      have hne1 : runCallsFin fl fl' pos0 (decompress r (carry ++ chunk) out pos (pos0 + g - pos) fl).r
          (decompress r (carry ++ chunk) out pos (pos0 + g - pos) fl).out
          (pos + (decompress r (carry ++ chunk) out pos (pos0 + g - pos) fl).written)
          ((carry ++ chunk).extract (decompress r (carry ++ chunk) out pos (pos0 + g - pos) fl).consumed (carry ++ chunk).size)
          ((chunk2, g2) :: rest) ≠ [] := by
        cases rest <;> exact List.cons_ne_nil _ _
      have hne2 : runCalls fl pos0 (decompress r (carry ++ chunk) out pos (pos0 + g - pos) fl).r
          (decompress r (carry ++ chunk) out pos (pos0 + g - pos) fl).out
          (pos + (decompress r (carry ++ chunk) out pos (pos0 + g - pos) fl).written)
          ((carry ++ chunk).extract (decompress r (carry ++ chunk) out pos (pos0 + g - pos) fl).consumed (carry ++ chunk).size)
          ((chunk2, g2) :: rest) ≠ [] := List.cons_ne_nil _ _
      rw [List.dropLast_cons_of_ne_nil hne1, List.dropLast_cons_of_ne_nil hne2, this]

/-- If the last call of the all-`fl` driver ends in a status no starved exit is reported as, the
    driver that drops the flag on its last call makes exactly the same calls with the same results. -/
theorem runCallsFin_eq {fl fl' : Nat} (h : FlagsBut fl fl') (pos0 : Nat) : ∀ (calls : List (Array UInt8 × Nat)) (r : Regs)
    (out : Array UInt8) (pos : Nat) (carry : Array UInt8) (last : Res)
    (_ : (runCalls fl pos0 r out pos carry calls).getLast? = some last)
    (_ : last.status ≠ stNeedsMoreInput) (_ : last.status ≠ stHasMoreOutput)
    (_ : last.status ≠ stFailedCannotMakeProgress),
    runCallsFin fl fl' pos0 r out pos carry calls = runCalls fl pos0 r out pos carry calls := by
  intro calls
  induction calls with
  | nil => intro r out pos carry last _ _ _ _; rfl
  | cons c rest ih =>
    intro r out pos carry last hl h1 h2 h3
    obtain ⟨chunk, g⟩ := c
    cases rest with
    | nil =>
      have hl' : last = decompress r (carry ++ chunk) out pos (pos0 + g - pos) fl := by
        have : (runCalls fl pos0 r out pos carry [(chunk, g)]).getLast? =
            some (decompress r (carry ++ chunk) out pos (pos0 + g - pos) fl) := rfl
        rw [this] at hl; exact (Option.some.inj hl).symm
      subst hl'
      show [decompress r (carry ++ chunk) out pos (pos0 + g - pos) fl'] = [decompress r (carry ++ chunk) out pos (pos0 + g - pos) fl]
      rw [decompress_flag_same h _ _ _ _ _ h1 h2 h3]
    | cons c2 rest =>
      obtain ⟨chunk2, g2⟩ := c2
      show (_ :: runCallsFin fl fl' pos0 _ _ _ _ ((chunk2, g2) :: rest)) = (_ :: runCalls fl pos0 _ _ _ _ ((chunk2, g2) :: rest))
      congr 1
      refine ih _ _ _ _ last ?_ h1 h2 h3
      have : runCalls fl pos0 r out pos carry ((chunk, g) :: (chunk2, g2) :: rest) =
          decompress r (carry ++ chunk) out pos (pos0 + g - pos) fl ::
            runCalls fl pos0 (decompress r (carry ++ chunk) out pos (pos0 + g - pos) fl).r
              (decompress r (carry ++ chunk) out pos (pos0 + g - pos) fl).out
              (pos + (decompress r (carry ++ chunk) out pos (pos0 + g - pos) fl).written)
              ((carry ++ chunk).extract (decompress r (carry ++ chunk) out pos (pos0 + g - pos) fl).consumed (carry ++ chunk).size)
              ((chunk2, g2) :: rest) := rfl
      rw [this] at hl
      change ((_ : Res) :: (_ :: _)).getLast? = some last at hl
      rw [List.getLast?_cons_cons] at hl
      exact hl

end Model.Core
