/-
`enforce_max_code_size` is correct for every histogram a Huffman tree can produce: see
`Props/C10.length_limiting_restores_a_complete_code`.
-/
import MinizProof.Model.HuffLimit
namespace Model.HuffLimit

def Nonneg (l : List Int) : Prop := ∀ x ∈ l, 0 ≤ x

theorem split_spec : ∀ (l l' : List Int), split l = some l' →
    W l' = W l ∧ l'.sum = l.sum + 1 ∧ l'.length = l.length ∧ W l'.tail ≤ W l.tail ∧ (Nonneg l → Nonneg l') := by
  intro l
  induction l with
  | nil => intro l' h; simp [split] at h
  | cons a r ih =>
    intro l' h
    cases r with
    | nil => simp [split] at h
    | cons b rest =>
      unfold split at h
      split at h
      · rename_i hb
        simp only [Option.some.injEq] at h
        subst h
        refine ⟨by simp only [W]; omega, by simp only [List.sum_cons]; omega, rfl, by simp only [List.tail_cons, W]; omega, ?_⟩
        intro hn x hx
        simp only [List.mem_cons] at hx
        have ha := hn a (by simp)
        have hb0 := hn b (by simp)
        rcases hx with rfl | rfl | hx
        · omega
        · omega
        · exact hn x (by simp [hx])
      · rename_i hb
        cases hs : split (b :: rest) with
        | none => rw [hs] at h; simp at h
        | some m =>
          rw [hs] at h
          simp only [Option.map_some, Option.some.injEq] at h
          subst h
          obtain ⟨h1, h2, h3, _, h5⟩ := ih m hs
          refine ⟨by simp only [W] at h1 ⊢; omega, by simp only [List.sum_cons] at h2 ⊢; omega, by simp [h3], by simp only [List.tail_cons]; omega, ?_⟩
          intro hn x hx
          simp only [List.mem_cons] at hx
          rcases hx with rfl | hx
          · exact hn _ (by simp)
          · exact h5 (fun y hy => hn y (by simp only [List.mem_cons] at hy ⊢; exact .inr hy)) x hx

theorem split_none : ∀ (l : List Int), split l = none → ∀ x ∈ l.tail, x = 0 := by
  intro l
  induction l with
  | nil => intro _ x hx; simp at hx
  | cons a r ih =>
    intro h x hx
    cases r with
    | nil => simp at hx
    | cons b rest =>
      unfold split at h
      split at h
      · simp at h
      · rename_i hb
        have hb0 : b = 0 := by simpa using hb
        simp only [Option.map_eq_none_iff] at h
        simp only [List.tail_cons, List.mem_cons] at hx
        rcases hx with rfl | hx
        · exact hb0
        · exact ih h x (by simpa using hx)

theorem W_zero_tail : ∀ (l : List Int), (∀ x ∈ l, x = 0) → W l = 0 ∧ l.sum = 0 := by
  intro l
  induction l with
  | nil => intro _; exact ⟨rfl, rfl⟩
  | cons a r ih =>
    intro h
    have ha := h a (by simp)
    obtain ⟨h1, h2⟩ := ih (fun x hx => h x (by simp [hx]))
    exact ⟨by simp only [W]; omega, by simp only [List.sum_cons]; omega⟩

/-- the loop invariant: counts are non-negative, the levels above the deepest weigh at most a full
    tree (`M = 2^max`), and there are at most `M` codes -/
structure Inv (M : Int) (l : List Int) : Prop where
  nn   : Nonneg l
  tl   : 2 * W l.tail ≤ M
  cnt  : l.sum ≤ M
  ne   : l ≠ []

theorem bump_spec (M : Int) (l : List Int) (h : Inv M l) (hbig : M < W l) :
    Inv M (bump l) ∧ W (bump l) = W l - 1 ∧ (bump l).sum = l.sum ∧ (bump l).length = l.length := by
  obtain ⟨hnn, htl, hcnt, hne⟩ := h
  cases l with
  | nil => exact absurd rfl hne
  | cons a rest =>
    simp only [List.tail_cons] at htl
    have hW : W (a :: rest) = a + 2 * W rest := rfl
    have ha1 : 1 ≤ a := by omega
    have hb : bump (a :: rest) = (split ((a - 1) :: rest)).getD ((a - 1) :: rest) := rfl
    rw [hb]
    cases hs : split ((a - 1) :: rest) with
    | none =>
      exfalso
      have hz := split_none _ hs
      simp only [List.tail_cons] at hz
      obtain ⟨hw0, hs0⟩ := W_zero_tail rest hz
      simp only [List.sum_cons] at hcnt
      omega
    | some l' =>
      simp only [Option.getD_some]
      have hnn' : Nonneg ((a - 1) :: rest) := by
        intro x hx
        simp only [List.mem_cons] at hx
        rcases hx with rfl | hx
        · omega
        · exact hnn x (by simp [hx])
      obtain ⟨h1, h2, h3, h4, h5⟩ := split_spec _ l' hs
      have hW1 : W ((a - 1) :: rest) = a - 1 + 2 * W rest := rfl
      simp only [List.tail_cons] at h4
      simp only [List.sum_cons] at h2 hcnt ⊢
      refine ⟨⟨h5 hnn', by omega, by omega, ?_⟩, by omega, by omega, by simpa using h3⟩
      intro he; rw [he] at h3; simp at h3

theorem iter_spec (M : Int) : ∀ (k : Nat) (l : List Int), Inv M l → M + k ≤ W l →
    Inv M (iter k l) ∧ W (iter k l) = W l - k ∧ (iter k l).sum = l.sum ∧ (iter k l).length = l.length := by
  intro k
  induction k with
  | zero => intro l h _; exact ⟨h, by simp [iter], rfl, rfl⟩
  | succ k ih =>
    intro l h hk
    obtain ⟨b1, b2, b3, b4⟩ := bump_spec M l h (by omega)
    obtain ⟨i1, i2, i3, i4⟩ := ih (bump l) b1 (by omega)
    unfold iter
    exact ⟨i1, by omega, by omega, by omega⟩

/-- THE LOOP, for every histogram satisfying the invariant: afterwards the weight is exactly a full
    tree when it was at least that before (and nothing changes when it was less), the number of codes
    is what it was, the counts are non-negative. -/
theorem limit_spec (M : Int) (l : List Int) (h : Inv M l) :
    let r := iter (W l - M).toNat l
    Nonneg r ∧ r.sum = l.sum ∧ r.length = l.length ∧ (M ≤ W l → W r = M) ∧ (W l < M → r = l) := by
  intro r
  by_cases hge : M ≤ W l
  · obtain ⟨i1, i2, i3, i4⟩ := iter_spec M (W l - M).toNat l h (by omega)
    exact ⟨i1.nn, i3, i4, fun _ => by show W (iter _ l) = M; omega, fun hlt => by omega⟩
  · have hz : (W l - M).toNat = 0 := by omega
    have hr : r = l := by show iter (W l - M).toNat l = l; rw [hz]; rfl
    rw [hr]
    exact ⟨h.nn, rfl, rfl, fun h' => absurd h' hge, fun _ => rfl⟩

theorem W_nonneg : ∀ (l : List Int), Nonneg l → 0 ≤ W l := by
  intro l
  induction l with
  | nil => intro _; exact Int.le_refl _
  | cons a r ih =>
    intro h
    have := ih (fun x hx => h x (by simp [hx]))
    have := h a (by simp)
    simp only [W]; omega

theorem W_append : ∀ (x y : List Int), W (x ++ y) = W x + 2 ^ x.length * W y := by
  intro x y
  induction x with
  | nil => simp [W]
  | cons a r ih =>
    simp only [List.cons_append, W, ih, List.length_cons, Int.pow_succ]
    grind

theorem W_le_sum : ∀ (l : List Int), Nonneg l → W l ≤ 2 ^ l.length * l.sum := by
  intro l
  induction l with
  | nil => intro _; simp [W]
  | cons a r ih =>
    intro h
    have h1 := ih (fun x hx => h x (by simp [hx]))
    have ha := h a (by simp)
    have hp : (0 : Int) < 2 ^ r.length := Int.pow_pos (by decide)
    have h2 : 0 ≤ (2 ^ r.length - 1) * a := Int.mul_nonneg (by omega) ha
    rw [Int.sub_mul] at h2
    simp only [W, List.length_cons, Int.pow_succ, List.sum_cons]
    have e : (2 : Int) ^ r.length * 2 * (a + r.sum) = 2 * (2 ^ r.length * a) + 2 * (2 ^ r.length * r.sum) := by grind
    rw [e]
    generalize (2 : Int) ^ r.length * a = pa at h2
    generalize (2 : Int) ^ r.length * r.sum = ps at h1
    omega

/-- `enforce_max_code_size` on a histogram split as `A` (lengths `1..max`) and `B` (longer lengths):
    for EVERY histogram of a prefix code (Kraft sum at most 1) with between 1 and `2^max` codes. -/
theorem enforceLv_spec (max : Nat) (A B : List Int) (hA : A.length = max) (h1 : 1 ≤ max)
    (hnA : Nonneg A) (hnB : Nonneg B) (hfit : A.sum + B.sum ≤ 2 ^ max)
    (hk : kraft (A ++ B) ≤ 2 ^ (A ++ B).length) :
    (enforceLv max A B).length = max ∧ Nonneg (enforceLv max A B) ∧
    (enforceLv max A B).sum = A.sum + B.sum ∧
    kraft (enforceLv max A B) ≤ 2 ^ max ∧
    (kraft (A ++ B) = 2 ^ (A ++ B).length → kraft (enforceLv max A B) = 2 ^ max) ∧
    (B = [] → kraft A < 2 ^ max → enforceLv max A B = A) := by
  -- the deep-first list
  have hrl : A.reverse.length = max := by rw [List.length_reverse]; exact hA
  cases hrev : A.reverse with
  | nil => rw [hrev] at hrl; simp at hrl; omega
  | cons a r =>
    have hnr : Nonneg (a :: r) := by
      intro x hx; rw [← hrev] at hx; exact hnA x (List.mem_reverse.mp hx)
    have hsumA : a + r.sum = A.sum := by
      have := List.sum_reverse A
      rw [hrev, List.sum_cons] at this; exact this
    have hBs : 0 ≤ B.sum := by
      have h0 := W_nonneg B.reverse (fun x hx => hnB x (List.mem_reverse.mp hx))
      have h1' := W_le_sum B.reverse (fun x hx => hnB x (List.mem_reverse.mp hx))
      rw [List.sum_reverse] at h1'
      have hp : (0 : Int) < 2 ^ B.reverse.length := Int.pow_pos (by decide)
      by_cases hneg : B.sum < 0
      · exfalso
        have : 2 ^ B.reverse.length * B.sum < 0 := Int.mul_neg_of_pos_of_neg hp hneg
        omega
      · omega
    -- Kraft of the whole histogram, split
    have hkr : kraft (A ++ B) = W B.reverse + 2 ^ B.length * W (a :: r) := by
      unfold kraft
      rw [List.reverse_append, W_append, List.length_reverse, hrev]
    have hWB0 := W_nonneg B.reverse (fun x hx => hnB x (List.mem_reverse.mp hx))
    have hWBs : W B.reverse ≤ 2 ^ B.length * B.sum := by
      have := W_le_sum B.reverse (fun x hx => hnB x (List.mem_reverse.mp hx))
      rwa [List.length_reverse, List.sum_reverse] at this
    have hpow : (2 : Int) ^ (A ++ B).length = 2 ^ B.length * 2 ^ max := by
      rw [List.length_append, hA, Nat.add_comm, Int.pow_add]
    have hpB : (0 : Int) < 2 ^ B.length := Int.pow_pos (by decide)
    -- the levels 1..max weigh at most a full tree
    have hWA : W (a :: r) ≤ 2 ^ max := by
      rw [hkr, hpow] at hk
      have : 2 ^ B.length * W (a :: r) ≤ 2 ^ B.length * 2 ^ max := by omega
      exact Int.le_of_mul_le_mul_left this hpB
    have ha0 := hnr a (by simp)
    have hWr0 := W_nonneg r (fun x hx => hnr x (by simp [hx]))
    have hWar : W (a :: r) = a + 2 * W r := rfl
    have hinv : Inv (2 ^ max) ((a + B.sum) :: r) :=
      ⟨by intro x hx
          simp only [List.mem_cons] at hx
          rcases hx with rfl | hx
          · omega
          · exact hnr x (by simp [hx]),
       by simp only [List.tail_cons]; omega,
       by simp only [List.sum_cons]; omega,
       by simp⟩
    obtain ⟨l1, l2, l3, l4, l5⟩ := limit_spec (2 ^ max) _ hinv
    have hWlv : W ((a + B.sum) :: r) = W (a :: r) + B.sum := by simp only [W]; omega
    have hE : enforceLv max A B = (iter (W ((a + B.sum) :: r) - 2 ^ max).toNat ((a + B.sum) :: r)).reverse := by
      unfold enforceLv; rw [hrev]
    rw [hE]
    refine ⟨by rw [List.length_reverse, l3, ← hrl, hrev]; rfl, fun x hx => l1 x (List.mem_reverse.mp hx),
      by rw [List.sum_reverse, l2, List.sum_cons]; omega, ?_, ?_, ?_⟩
    · unfold kraft
      rw [List.reverse_reverse]
      by_cases hge : 2 ^ max ≤ W ((a + B.sum) :: r)
      · rw [l4 hge]; exact Int.le_refl _
      · rw [l5 (by omega)]; omega
    · intro hfull
      unfold kraft
      rw [List.reverse_reverse]
      apply l4
      -- complete before ⇒ at least a full tree after folding
      rw [hkr, hpow] at hfull
      rw [hWlv]
      have : 2 ^ B.length * 2 ^ max ≤ 2 ^ B.length * (W (a :: r) + B.sum) := by
        rw [Int.mul_add]; omega
      exact Int.le_of_mul_le_mul_left this hpB
    · intro hB hlt
      subst hB
      unfold kraft at hlt
      rw [hrev] at hlt
      have hz : (a + ([] : List Int).sum) = a := by simp
      rw [hz] at l5 ⊢
      rw [l5 hlt, ← hrev, List.reverse_reverse]

theorem sum_nonneg : ∀ (l : List Int), Nonneg l → 0 ≤ l.sum := by
  intro l
  induction l with
  | nil => intro _; simp
  | cons a r ih =>
    intro h
    have ha := h a (by simp)
    have := ih (fun y hy => h y (by simp [hy]))
    simp only [List.sum_cons]; omega

theorem le_sum_of_mem : ∀ (l : List Int), Nonneg l → ∀ x ∈ l, x ≤ l.sum := by
  intro l
  induction l with
  | nil => intro _ x hx; simp at hx
  | cons a r ih =>
    intro h x hx
    have ha := h a (by simp)
    have hr : Nonneg r := fun y hy => h y (by simp [hy])
    have hs := sum_nonneg r hr
    simp only [List.mem_cons] at hx
    simp only [List.sum_cons]
    rcases hx with rfl | hx
    · omega
    · have := ih hr x hx; omega

/-- BETWEEN THE ROUNDS of the loop every count stays between 0 and the number of codes: no count goes
    negative, none exceeds what an `i32` (or a `u16`) holds, for every histogram within the hypotheses -/
theorem rounds_stay_in_range (M : Int) (l : List Int) (h : Inv M l) (k : Nat) (hk : M + k ≤ W l) :
    ∀ x ∈ iter k l, 0 ≤ x ∧ x ≤ l.sum := by
  obtain ⟨i1, _, i3, _⟩ := iter_spec M k l h hk
  intro x hx
  exact ⟨i1.nn x hx, by rw [← i3]; exact le_sum_of_mem _ i1.nn x hx⟩

end Model.HuffLimit
