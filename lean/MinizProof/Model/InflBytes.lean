/-
L2 model of the streaming wrapper `inflate()` WITH its bytes (miniz_oxide/src/inflate/stream.rs):
`Model/InflStream` mirrors the wrapper at the level of counts and statuses over a scripted core;
here the core is `Model.Core.decompress` itself, the 32 KiB window is an array, and what is handed to
the caller are bytes. Only the path a streaming caller uses is modelled: calls that do not ask to
finish (`flush` ≠ Finish, ≠ Full) on a state that was never asked to finish — `inflate_loop` with the
more-input flag, the window drain in front of it, the sticky error checks.
Correspondence: op `IFB` of the driver replays real `inflate()` call sequences through `inflateNone`
(bytes delivered, counts, status per call).
-/
import MinizProof.Model.Core
namespace Model.InflB
open Model.Core

def dictSize : Nat := 32768

-- MZStatus / MZError as integers
def rOk : Int := 0
def rStreamEnd : Int := 1
def rBuf : Int := -5
def rData : Int := -3
/-- the model's own "out of fuel" answer (never produced with the fuel `inflateNone` hands out) -/
def rFuel : Int := -99

/-- Wrapper state: the core's registers, the window, the hand-over cursor, the last core status. -/
structure WB where
  r     : Regs
  dict  : Array UInt8
  ofs   : Nat
  avail : Nat
  last  : Int

def WB.fresh : WB := { r := {}, dict := Array.replicate dictSize 0, ofs := 0, avail := 0, last := stNeedsMoreInput }

structure CallRes where
  consumed : Nat
  out      : Array UInt8
  status   : Int

/-- `push_dict_out`: hand over `min(dict_avail, room)` bytes from the window. -/
def push (w : WB) (room : Nat) : Array UInt8 × WB :=
  let n := min w.avail room
  (w.dict.extract w.ofs (w.ofs + n), { w with avail := w.avail - n, ofs := (w.ofs + n) % dictSize })

/-- `inflate_loop` for a call that does not ask to finish. `inp`: the input not yet consumed by this
    call, `room`: output space left, `acc`: bytes handed over so far in this call. -/
def loopNone (flags origIn : Nat) : Nat → WB → Array UInt8 → Nat → Nat → Array UInt8 → WB × CallRes
  | 0, w, _, _, c, acc => (w, ⟨c, acc, rFuel⟩)
  | fuel + 1, w, inp, room, c, acc =>
    let res := decompress w.r inp w.dict w.ofs (dictSize - w.ofs) flags
    let w1 : WB := { w with r := res.r, dict := res.out, last := res.status, avail := res.written }
    let inp' := inp.extract res.consumed inp.size
    let c' := c + res.consumed
    let (bytes, w2) := push w1 room
    let acc' := acc ++ bytes
    let room' := room - bytes.size
    if res.status = stFailedCannotMakeProgress then (w2, ⟨c', acc', rBuf⟩)
    else if res.status < 0 then (w2, ⟨c', acc', rData⟩)
    else if res.status = stNeedsMoreInput ∧ origIn = 0 then (w2, ⟨c', acc', rBuf⟩)
    else if res.status = stDone ∨ inp'.size = 0 ∨ room' = 0 ∨ w2.avail ≠ 0 then
      (if res.status = stDone ∧ w2.avail = 0 then (w2, ⟨c', acc', rStreamEnd⟩) else (w2, ⟨c', acc', rOk⟩))
    else loopNone flags origIn fuel w2 inp' room' c' acc'

/-- `inflate(state, input, output, flush)` for `flush` ∉ {Finish, Full} on a state that was never
    asked to finish; `flags` = the format's flags plus the more-input flag. -/
def inflateNone (flags : Nat) (w : WB) (inp : Array UInt8) (room : Nat) : WB × CallRes :=
  if w.last = stFailedCannotMakeProgress then (w, ⟨0, #[], rBuf⟩)
  else if w.last < 0 then (w, ⟨0, #[], rData⟩)
  else if w.avail ≠ 0 then
    let (bytes, w2) := push w room
    (w2, ⟨0, bytes, if w2.last = stDone ∧ w2.avail = 0 then rStreamEnd else rOk⟩)
  else loopNone flags inp.size (inp.size + room + 2) w inp room 0 #[]

/-- A caller's sequence of calls: each call is offered what the previous one left unconsumed followed
    by a new chunk, with `room` bytes of output space. Recorded per call: the number of input bytes
    offered, the room, the result. -/
def runInfl (flags : Nat) : WB → Array UInt8 → List (Array UInt8 × Nat) → List (Nat × Nat × CallRes)
  | _, _, [] => []
  | w, carry, (chunk, room) :: rest =>
    let (w', res) := inflateNone flags w (carry ++ chunk) room
    ((carry ++ chunk).size, room, res) :: runInfl flags w' ((carry ++ chunk).extract res.consumed (carry ++ chunk).size) rest

/-- `inflate(state, input, output, Finish)` as the FIRST call on a fresh state: the shortcut that decodes
    straight into the caller's buffer (`out`, any contents) with the non-wrapping flag and without the
    more-input flag. Returns the call's result and the status the state remembers (a call that
    neither finishes nor fails poisons the state with `Failed`). `fmtFlags` = the format's flags. -/
def inflateFinishFirst (fmtFlags : Nat) (inp out : Array UInt8) : CallRes × Int :=
  let res := decompress {} inp out 0 out.size (fmtFlags + fNonWrapping)
  let bytes := res.out.extract 0 res.written
  if res.status = stFailedCannotMakeProgress then (⟨res.consumed, bytes, rBuf⟩, res.status)
  else if res.status < 0 then (⟨res.consumed, bytes, rData⟩, res.status)
  else if res.status = stDone then (⟨res.consumed, bytes, rStreamEnd⟩, res.status)
  else (⟨res.consumed, bytes, rBuf⟩, stFailed)

/-- everything handed to the caller, in order -/
def delivered (rs : List (Nat × Nat × CallRes)) : Array UInt8 := rs.foldl (fun a r => a ++ r.2.2.out) #[]

end Model.InflB
