/-
L2 model of `HuffmanOxide::enforce_max_code_size` (miniz_oxide/src/deflate/core.rs): the step of the
compressor's Huffman builder that turns the histogram of optimal code lengths (which may exceed the
limit of 15, or 7 for the code-length alphabet) into a histogram within the limit that is still the
histogram of a complete prefix code.

`num_codes[i]` = number of codes of length `i`. The source folds everything longer than the limit into
the limit, computes `total = Σ num_codes[i] · 2^(max-i)` and, `total - 2^max` times, takes one code
away from the deepest level and splits the deepest non-empty shallower level (`num_codes[i] -= 1;
num_codes[i+1] += 2`).

The model works on the levels `max, max-1, …, 1` as a list, deepest first (`enforce` converts from and
to the source's order). Entries are integers as in the source (`i32`; wrap-around is not modelled, the
counts are at most 288). Correspondence: op `HLIM` of the driver replays every call the real
`optimize_table` made during the run (hook trace) and calls on generated histograms.
-/
namespace Model.HuffLimit

/-- weight of a deep-first histogram in units of the deepest level: entry `j` counts `2^j` -/
def W : List Int → Int
  | [] => 0
  | a :: r => a + 2 * W r

/-- `for i in (1..max).rev() { if num_codes[i] != 0 { num_codes[i] -= 1; num_codes[i+1] += 2; break } }`
    on the deep-first list: `none` when every shallower level is empty (the source then changes nothing) -/
def split : List Int → Option (List Int)
  | a :: b :: rest => if b ≠ 0 then some ((a + 2) :: (b - 1) :: rest) else (split (b :: rest)).map (a :: ·)
  | _ => none

/-- one iteration of the outer loop -/
def bump : List Int → List Int
  | [] => []
  | a :: rest => (split ((a - 1) :: rest)).getD ((a - 1) :: rest)

def iter : Nat → List Int → List Int
  | 0, l => l
  | k + 1, l => iter k (bump l)

/-- the body of `enforce_max_code_size` on `A` = the counts of the lengths `1..max` (in that order) and
    `B` = the counts of the longer lengths: fold `B` into the deepest level of `A`, compute the weight,
    run the loop `weight - 2^max` times; returns the new counts of the lengths `1..max` -/
def enforceLv (max : Nat) (A B : List Int) : List Int :=
  let lv := match A.reverse with
    | a :: r => (a + B.sum) :: r
    | [] => []
  (iter (W lv - 2 ^ max).toNat lv).reverse

/-- `enforce_max_code_size(num_codes, code_list_len, max_code_size)`, `n` in the source's order
    (`n[i]` = codes of length `i`, `n[0]` unused; the counts of lengths above `max` stay as they are) -/
def enforce (n : List Int) (len max : Nat) : List Int :=
  if len ≤ 1 then n else
  n.take 1 ++ enforceLv max ((n.take (max + 1)).drop 1) (n.drop (max + 1)) ++ n.drop (max + 1)

/-- Kraft sum of a histogram `lv` of the lengths `1..lv.length`, in units of `2^-(lv.length)` -/
def kraft (lv : List Int) : Int := W lv.reverse

end Model.HuffLimit
