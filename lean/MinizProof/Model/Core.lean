/-
L2 model of the low-level decoder `decompress_with_limit` (miniz_oxide/src/inflate/core.rs).

The model is the resumable automaton of the source with the same states, registers and exits, but
with ONE decode tier: the byte-at-a-time slow path (`read_bits`, `decode_huffman_code` with fewer
than two input bytes). The two faster tiers of the source (`decompress_fast`, the two-symbol middle
tier) and the table-driven Huffman lookup (`init_tree`) are performance variants whose API-visible
behaviour — status, bytes consumed, bytes written, output bytes, checksum — must equal the slow
path's; that equality is exactly what the correspondence leg checks on every call of every run
(`ICALL` transcript lines), so a divergence between tiers in the real code shows up as a DIFF.
Huffman decoding uses the canonical-code decoder of the specification (`Spec.Code`), code-length
validity is `Spec.codeValid`, length/distance bases are the RFC formulas, header validity is
`Spec.zlibHeaderValid` (Props/C03, C09 prove the source tables and header function equal them).

Hand-written. Total (fuel-bounded); `Status.modelError` marks paths the source treats as
unreachable (`init_tree` returning `None`).
-/
import MinizProof.Spec.Inflate
namespace Model.Core
open Spec

-- automaton states (numbering of `enum State`, proved equal to the source in Props/C04)
def sStart := 0
def sReadZlibCmf := 1
def sReadZlibFlg := 2
def sReadBlockHeader := 3
def sBlockTypeNoCompression := 4
def sRawHeader := 5
def sRawMemcpy1 := 6
def sRawMemcpy2 := 7
def sReadTableSizes := 8
def sReadHufflenTableCodeSize := 9
def sReadLitlenDistTablesCodeSize := 10
def sReadExtraBitsCodeSize := 11
def sDecodeLitlen := 12
def sWriteSymbol := 13
def sReadExtraBitsLitlen := 14
def sDecodeDistance := 15
def sReadExtraBitsDistance := 16
def sRawReadFirstByte := 17
def sRawStoreFirstByte := 18
def sWriteLenBytesToEnd := 19
def sBlockDone := 20
def sHuffDecodeOuterLoop1 := 21
def sHuffDecodeOuterLoop2 := 22
def sReadAdler32 := 23
def sDoneForever := 24
def sBlockTypeUnexpected := 25
def sBadCodeSizeSum := 26
def sBadDistOrLiteralTableLength := 27
def sBadTotalSymbols := 28
def sBadZlibHeader := 29
def sDistanceOutOfBounds := 30
def sBadRawLength := 31
def sBadCodeSizeDistPrevLookup := 32
def sInvalidLitlen := 33
def sInvalidDist := 34

-- TINFLStatus
def stFailedCannotMakeProgress : Int := -4
def stBadParam : Int := -3
def stAdler32Mismatch : Int := -2
def stFailed : Int := -1
def stDone : Int := 0
def stNeedsMoreInput : Int := 1
def stHasMoreOutput : Int := 2
def stBlockBoundary : Int := 3
def stModelError : Int := -99

-- flags
def fParseZlib := 1
def fHasMoreInput := 2
def fNonWrapping := 4
def fComputeAdler := 8
def fIgnoreAdler := 64
def fStopOnBlockBoundary := 128

def hasFlag (flags f : Nat) : Bool := (flags / f) % 2 == 1

/-- The registers of `DecompressorOxide` that the slow path uses. -/
structure Regs where
  state        : Nat := 0
  numBits      : Nat := 0
  bitBuf       : Nat := 0
  counter      : Nat := 0
  dist         : Nat := 0
  numExtra     : Nat := 0
  finish       : Nat := 0
  blockType    : Nat := 0
  zHeader0     : Nat := 0
  zHeader1     : Nat := 0
  zAdler32     : Nat := 0
  checkAdler32 : Nat := 0
  tableSizes   : Array Nat := #[0, 0, 0]
  clenLens     : Array Nat := Array.replicate 19 0
  rawHeader    : Array Nat := #[0, 0, 0, 0]
  lenCodes     : Array Nat := Array.replicate 512 0
  litCode      : Code := { count := #[], syms := #[] }
  distCode     : Code := { count := #[], syms := #[] }
  clenCode     : Code := { count := #[], syms := #[] }

/-- Canonical decode from the low `n` bits of the bit buffer (the model's `fast_lookup`/`tree_lookup`):
    same counting walk as `Spec.decodeSymAux`, bits taken LSB-first from `buf`. -/
inductive BufSym
  | sym (s len : Nat)
  | invalid
  | short

def decodeBufAux (c : Code) (buf n : Nat) : Nat → Nat → Nat → Nat → Nat → Nat → BufSym
  | 0, _, _, _, _, _ => .invalid
  | fuel + 1, len, used, code, first, index =>
    if index ≥ c.syms.size then .invalid
    else if used ≥ n then .short
    else
      let b := (buf >>> used) % 2
      let code := code + b
      let cnt := c.count.getD len 0
      if code < first + cnt then .sym (c.syms.getD (index + (code - first)) 0) (used + 1)
      else decodeBufAux c buf n fuel (len + 1) (used + 1) (2 * code) (2 * (first + cnt)) (index + cnt)

def decodeBuf (c : Code) (buf n : Nat) : BufSym := decodeBufAux c buf n 15 1 0 0 0 0

/-- Call-local view: registers plus input / output cursors. -/
structure Ctx where
  r      : Regs
  inPos  : Nat
  outPos : Nat

inductive Step
  | cont (c : Ctx) (out : Array UInt8)
  | fin (status : Int) (c : Ctx) (out : Array UInt8)

def endOfInput (flags : Nat) : Int :=
  if hasFlag flags fHasMoreInput then stNeedsMoreInput else stFailedCannotMakeProgress

/-- `read_bits(amount)`: pull bytes until `amount` bits are buffered; `none` = input exhausted
    (the bytes pulled so far stay in the bit buffer). Returns (ctx, value). The fuel is the number of
    unread input bytes plus one, so it never runs out before the input does (`readBits_none`). -/
def readBitsAux (inp : Array UInt8) (amount : Nat) : Nat → Ctx → Ctx × Option Nat
  | 0, c => (c, none)
  | fuel + 1, c =>
    if c.r.numBits < amount then
      match inp[c.inPos]? with
      | none => (c, none)
      | some b =>
        readBitsAux inp amount fuel
          { c with r := { c.r with bitBuf := c.r.bitBuf ||| (b.toNat <<< c.r.numBits), numBits := c.r.numBits + 8 }, inPos := c.inPos + 1 }
    else
      let v := c.r.bitBuf % 2 ^ amount
      ({ c with r := { c.r with bitBuf := c.r.bitBuf >>> amount, numBits := c.r.numBits - amount } }, some v)

def readBits (inp : Array UInt8) (amount : Nat) (c : Ctx) : Ctx × Option Nat :=
  readBitsAux inp amount (inp.size - c.inPos + 1) c

/-- `decode_huffman_code`: decode with the buffered bits, pulling one byte at a time while the
    code is not yet determined. `none` = input exhausted. -/
def decodeHuffAux (inp : Array UInt8) (code : Code) : Nat → Ctx → Ctx × Option Nat
  | 0, c => (c, none)
  | fuel + 1, c =>
    match decodeBuf code c.r.bitBuf c.r.numBits with
    | .sym s len => ({ c with r := { c.r with bitBuf := c.r.bitBuf >>> len, numBits := c.r.numBits - len } }, some s)
    | .invalid =>
      -- an unassigned pattern of an incomplete code: the fast table answers symbol 286 with length 1
      if c.r.numBits ≥ 1 then
        ({ c with r := { c.r with bitBuf := c.r.bitBuf >>> 1, numBits := c.r.numBits - 1 } }, some 286)
      else
        match inp[c.inPos]? with
        | none => (c, none)
        | some b => decodeHuffAux inp code fuel
            { c with r := { c.r with bitBuf := c.r.bitBuf ||| (b.toNat <<< c.r.numBits), numBits := c.r.numBits + 8 }, inPos := c.inPos + 1 }
    | .short =>
      match inp[c.inPos]? with
      | none => (c, none)
      | some b => decodeHuffAux inp code fuel
          { c with r := { c.r with bitBuf := c.r.bitBuf ||| (b.toNat <<< c.r.numBits), numBits := c.r.numBits + 8 }, inPos := c.inPos + 1 }

def decodeHuff (inp : Array UInt8) (code : Code) (c : Ctx) : Ctx × Option Nat :=
  decodeHuffAux inp code (inp.size - c.inPos + 1) c

def setState (c : Ctx) (s : Nat) : Ctx := { c with r := { c.r with state := s } }

/-- `init_tree` for the current `block_type` (1: distance then literal table; 2: code-length table). -/
def initTree (c : Ctx) (litLens distLens : Array Nat) : Ctx :=
  if c.r.blockType = 2 then
    if codeValid .clen c.r.clenLens then
      setState { c with r := { c.r with clenCode := mkCode c.r.clenLens, counter := 0 } } sReadLitlenDistTablesCodeSize
    else setState c sBadTotalSymbols
  else
    if !codeValid .dist distLens then setState c sBadTotalSymbols
    else if !codeValid .litlen litLens then setState { c with r := { c.r with blockType := 0 } } sBadTotalSymbols
    else setState { c with r := { c.r with blockType := 0, litCode := mkCode litLens, distCode := mkCode distLens, counter := 0 } } sDecodeLitlen

def wrBytesLeft (c : Ctx) (outEnd : Nat) : Nat := outEnd - c.outPos

/-- Byte-serial LZ77 copy inside the output buffer: `out[pos+i] := out[(pos − dist + i) & mask]`
    (`transfer` / `apply_match`); in flat mode the mask is all ones. -/
def copyBytes (out : Array UInt8) (pos src ringSize : Nat) (ring : Bool) : Nat → Array UInt8
  | 0 => out
  | n + 1 =>
    let s := if ring then src % ringSize else src
    copyBytes (out.setIfInBounds pos (out.getD s 0)) (pos + 1) (src + 1) ringSize ring n

/-- Stored-block copy from the input: `out[outPos+i] := inp[inPos+i]` for `i < n`. -/
def copyIn (inp : Array UInt8) (out : Array UInt8) (outPos inPos : Nat) : Nat → Array UInt8
  | 0 => out
  | n + 1 => copyIn inp (out.setIfInBounds outPos (inp.getD inPos 0)) (outPos + 1) (inPos + 1) n

/-- Code-length repeat: `lens[pos+i] := val` for `i < n`. -/
def fillLens (lens : Array Nat) (pos val : Nat) : Nat → Array Nat
  | 0 => lens
  | n + 1 => fillLens (lens.setIfInBounds pos val) (pos + 1) val n

/-- Parameters of one call that stay fixed while the automaton runs. -/
structure Env where
  inp    : Array UInt8
  flags  : Nat
  outLen : Nat
  outEnd : Nat

def Env.ring (e : Env) : Bool := !hasFlag e.flags fNonWrapping
def Env.eoi (e : Env) : Int := endOfInput e.flags

def stStart (e : Env) (c : Ctx) (out : Array UInt8) : Step :=
  let r' := { c.r with bitBuf := 0, numBits := 0, dist := 0, counter := 0, numExtra := 0,
                       zHeader0 := 0, zHeader1 := 0, zAdler32 := 1, checkAdler32 := 1 }
  .cont (setState { c with r := r' } (if hasFlag e.flags fParseZlib then sReadZlibCmf else sReadBlockHeader)) out

def stReadZlibCmf (e : Env) (c : Ctx) (out : Array UInt8) : Step :=
  match e.inp[c.inPos]? with
  | none => .fin e.eoi c out
  | some b => .cont (setState { c with r := { c.r with zHeader0 := b.toNat }, inPos := c.inPos + 1 } sReadZlibFlg) out

def stReadZlibFlg (e : Env) (c : Ctx) (out : Array UInt8) : Step :=
  match e.inp[c.inPos]? with
  | none => .fin e.eoi c out
  | some b =>
    let flg := b.toNat
    let window := 2 ^ (c.r.zHeader0 / 16 + 8)
    let bad := !zlibHeaderValid c.r.zHeader0 flg || (e.ring && decide (max e.outLen 1 < window))
    .cont (setState { c with r := { c.r with zHeader1 := flg }, inPos := c.inPos + 1 } (if bad then sBadZlibHeader else sReadBlockHeader)) out

def stReadBlockHeader (e : Env) (c : Ctx) (out : Array UInt8) : Step :=
  match readBits e.inp 3 c with
  | (c, none) => .fin e.eoi c out
  | (c, some bits) =>
    let c := { c with r := { c.r with finish := bits % 2, blockType := (bits / 2) % 4 } }
    let bt := (bits / 2) % 4
    if bt = 0 then .cont (setState c sBlockTypeNoCompression) out
    else if bt = 1 then
      let c := { c with r := { c.r with tableSizes := #[288, 32, c.r.tableSizes.getD 2 0] } }
      .cont (initTree c fixedLitLens fixedDistLens) out
    else if bt = 2 then .cont (setState { c with r := { c.r with counter := 0 } } sReadTableSizes) out
    else .cont (setState c sBlockTypeUnexpected) out

def stBlockTypeNoCompression (e : Env) (c : Ctx) (out : Array UInt8) : Step :=
  match readBits e.inp (c.r.numBits % 8) c with
  | (c, none) => .fin e.eoi c out
  | (c, some _) => .cont (setState { c with r := { c.r with counter := 0 } } sRawHeader) out

def stRawHeader (e : Env) (c : Ctx) (out : Array UInt8) : Step :=
  let r := c.r
  if r.counter < 4 then
    if r.numBits ≠ 0 then
      match readBits e.inp 8 c with
      | (c, none) => .fin e.eoi c out
      | (c, some bits) => .cont { c with r := { c.r with rawHeader := c.r.rawHeader.setIfInBounds c.r.counter bits, counter := c.r.counter + 1 } } out
    else
      match e.inp[c.inPos]? with
      | none => .fin e.eoi c out
      | some b => .cont { c with r := { r with rawHeader := r.rawHeader.setIfInBounds r.counter b.toNat, counter := r.counter + 1 }, inPos := c.inPos + 1 } out
  else
    let length := r.rawHeader.getD 0 0 + 256 * r.rawHeader.getD 1 0
    let check := r.rawHeader.getD 2 0 + 256 * r.rawHeader.getD 3 0
    let c := { c with r := { r with counter := length } }
    if length + check ≠ 65535 then .cont (setState c sBadRawLength) out
    else if length = 0 then .cont (setState c sBlockDone) out
    else if r.numBits ≠ 0 then .cont (setState c sRawReadFirstByte) out
    else .cont (setState c sRawMemcpy1) out

def stRawReadFirstByte (e : Env) (c : Ctx) (out : Array UInt8) : Step :=
  match readBits e.inp 8 c with
  | (c, none) => .fin e.eoi c out
  | (c, some bits) => .cont (setState { c with r := { c.r with dist := bits } } sRawStoreFirstByte) out

def stRawStoreFirstByte (e : Env) (c : Ctx) (out : Array UInt8) : Step :=
  if wrBytesLeft c e.outEnd = 0 then .fin stHasMoreOutput c out
  else
    let out := out.setIfInBounds c.outPos (UInt8.ofNat c.r.dist)
    let c := { c with r := { c.r with counter := c.r.counter - 1 }, outPos := c.outPos + 1 }
    if c.r.counter = 0 ∨ c.r.numBits = 0 then .cont (setState c sRawMemcpy1) out
    else .cont (setState c sRawReadFirstByte) out

def stRawMemcpy1 (e : Env) (c : Ctx) (out : Array UInt8) : Step :=
  if c.r.counter = 0 then .cont (setState c sBlockDone) out
  else if wrBytesLeft c e.outEnd = 0 then .fin stHasMoreOutput c out
  else .cont (setState c sRawMemcpy2) out

def stRawMemcpy2 (e : Env) (c : Ctx) (out : Array UInt8) : Step :=
  if c.inPos < e.inp.size then
    let n := min (min (wrBytesLeft c e.outEnd) (e.inp.size - c.inPos)) c.r.counter
    let out := copyIn e.inp out c.outPos c.inPos n
    .cont (setState { c with r := { c.r with counter := c.r.counter - n }, inPos := c.inPos + n, outPos := c.outPos + n } sRawMemcpy1) out
  else .fin e.eoi c out

def stReadTableSizes (e : Env) (c : Ctx) (out : Array UInt8) : Step :=
  let r := c.r
  if r.counter < 3 then
    match readBits e.inp ([5, 5, 4].getD r.counter 0) c with
    | (c, none) => .fin e.eoi c out
    | (c, some bits) =>
      .cont { c with r := { c.r with tableSizes := c.r.tableSizes.setIfInBounds c.r.counter (bits + [257, 1, 4].getD c.r.counter 0), counter := c.r.counter + 1 } } out
  else
    let c := { c with r := { r with clenLens := Array.replicate 19 0, counter := 0 } }
    if r.tableSizes.getD 0 0 ≤ 286 ∧ r.tableSizes.getD 1 0 ≤ 30 then .cont (setState c sReadHufflenTableCodeSize) out
    else .cont (setState c sBadDistOrLiteralTableLength) out

def stReadHufflenTableCodeSize (e : Env) (c : Ctx) (out : Array UInt8) : Step :=
  let r := c.r
  if r.counter < r.tableSizes.getD 2 0 then
    match readBits e.inp 3 c with
    | (c, none) => .fin e.eoi c out
    | (c, some bits) =>
      .cont { c with r := { c.r with clenLens := c.r.clenLens.setIfInBounds (clenOrder.getD c.r.counter 0) bits, counter := c.r.counter + 1 } } out
  else
    let c := { c with r := { r with tableSizes := r.tableSizes.setIfInBounds 2 19 } }
    .cont (initTree c #[] #[]) out

def stReadLitlenDistTablesCodeSize (e : Env) (c : Ctx) (out : Array UInt8) : Step :=
  let r := c.r
  let total := r.tableSizes.getD 0 0 + r.tableSizes.getD 1 0
  if r.counter < total then
    match decodeHuff e.inp r.clenCode c with
    | (c, none) => .fin e.eoi c out
    | (c, some sym) =>
      let c := { c with r := { c.r with dist := sym } }
      if sym < 16 then
        .cont { c with r := { c.r with lenCodes := c.r.lenCodes.setIfInBounds (c.r.counter % 512) sym, counter := c.r.counter + 1 } } out
      else if sym = 16 ∧ c.r.counter = 0 then .cont (setState c sBadCodeSizeDistPrevLookup) out
      else .cont (setState { c with r := { c.r with numExtra := [2, 3, 7, 0].getD ((sym - 16) % 4) 0 } } sReadExtraBitsCodeSize) out
  else if r.counter ≠ total then .cont (setState c sBadCodeSizeSum) out
  else
    let nl := r.tableSizes.getD 0 0
    let litLens := r.lenCodes.extract 0 nl
    let distLens := r.lenCodes.extract nl total
    .cont (initTree { c with r := { r with blockType := r.blockType - 1 } } litLens distLens) out

def stReadExtraBitsCodeSize (e : Env) (c : Ctx) (out : Array UInt8) : Step :=
  match readBits e.inp c.r.numExtra c with
  | (c, none) => .fin e.eoi c out
  | (c, some extra) =>
    let extra := extra + [3, 3, 11].getD ((c.r.dist - 16) % 4 / 2 * 2) 0
    let val := if c.r.dist = 16 then c.r.lenCodes.getD ((c.r.counter - 1) % 512) 0 else 0
    let lc := fillLens c.r.lenCodes c.r.counter val extra
    .cont (setState { c with r := { c.r with lenCodes := lc, counter := c.r.counter + extra } } sReadLitlenDistTablesCodeSize) out

def stDecodeLitlen (e : Env) (c : Ctx) (out : Array UInt8) : Step :=
  match decodeHuff e.inp c.r.litCode c with
  | (c, none) => .fin e.eoi c out
  | (c, some sym) => .cont (setState { c with r := { c.r with counter := sym } } sWriteSymbol) out

def stWriteSymbol (e : Env) (c : Ctx) (out : Array UInt8) : Step :=
  if c.r.counter ≥ 256 then .cont (setState c sHuffDecodeOuterLoop1) out
  else if wrBytesLeft c e.outEnd > 0 then
    .cont (setState { c with outPos := c.outPos + 1 } sDecodeLitlen) (out.setIfInBounds c.outPos (UInt8.ofNat c.r.counter))
  else .fin stHasMoreOutput c out

def stHuffDecodeOuterLoop1 (_e : Env) (c : Ctx) (out : Array UInt8) : Step :=
  let r := c.r
  let sym := r.counter % 512
  if sym = 256 then .cont (setState { c with r := { r with counter := sym } } sBlockDone) out
  else if sym > 285 then .cont (setState { c with r := { r with counter := sym } } sInvalidLitlen) out
  else
    let be := lengthBaseExtra sym
    let c := { c with r := { r with counter := be.1, numExtra := be.2 } }
    .cont (setState c (if be.2 ≠ 0 then sReadExtraBitsLitlen else sDecodeDistance)) out

def stReadExtraBitsLitlen (e : Env) (c : Ctx) (out : Array UInt8) : Step :=
  match readBits e.inp c.r.numExtra c with
  | (c, none) => .fin e.eoi c out
  | (c, some bits) => .cont (setState { c with r := { c.r with counter := c.r.counter + bits } } sDecodeDistance) out

def stDecodeDistance (e : Env) (c : Ctx) (out : Array UInt8) : Step :=
  match decodeHuff e.inp c.r.distCode c with
  | (c, none) => .fin e.eoi c out
  | (c, some sym) =>
    if sym > 29 then .cont (setState c sInvalidDist) out
    else
      let be := distBaseExtra sym
      let c := { c with r := { c.r with dist := be.1, numExtra := be.2 } }
      .cont (setState c (if be.2 ≠ 0 then sReadExtraBitsDistance else sHuffDecodeOuterLoop2)) out

def stReadExtraBitsDistance (e : Env) (c : Ctx) (out : Array UInt8) : Step :=
  match readBits e.inp c.r.numExtra c with
  | (c, none) => .fin e.eoi c out
  | (c, some bits) => .cont (setState { c with r := { c.r with dist := c.r.dist + bits } } sHuffDecodeOuterLoop2) out

/-- `HuffDecodeOuterLoop2` and `WriteLenBytesToEnd`: the distance check and the match copy. -/
def stMatch (e : Env) (c : Ctx) (out : Array UInt8) : Step :=
  let r := c.r
  if (r.dist > c.outPos ∧ !e.ring) ∨ r.dist > e.outLen then .cont (setState c sDistanceOutOfBounds) out
  else if r.counter = 0 then .cont (setState c sDecodeLitlen) out
  else if wrBytesLeft c e.outEnd = 0 then .fin stHasMoreOutput (setState c sWriteLenBytesToEnd) out
  else
    let n := min (wrBytesLeft c e.outEnd) r.counter
    let src := if e.ring then (c.outPos + e.outLen - r.dist) % (max e.outLen 1) else c.outPos - r.dist
    let out := copyBytes out c.outPos src (max e.outLen 1) e.ring n
    let c := { c with r := { r with counter := r.counter - n }, outPos := c.outPos + n }
    if c.r.counter = 0 then .cont (setState c sDecodeLitlen) out
    else .cont (setState c sWriteLenBytesToEnd) out

def stBlockDone (e : Env) (c : Ctx) (out : Array UInt8) : Step :=
  let r := c.r
  if r.finish ≠ 0 then
    -- pad to a byte boundary, give back whole bytes still in the bit buffer
    let nb := r.numBits - r.numBits % 8
    let buf := r.bitBuf >>> (r.numBits % 8)
    let undo := min (nb / 8) c.inPos
    let nb' := nb - 8 * undo
    let c := { c with r := { r with numBits := nb', bitBuf := buf % 2 ^ nb' }, inPos := c.inPos - undo }
    if hasFlag e.flags fParseZlib then .cont (setState { c with r := { c.r with counter := 0 } } sReadAdler32) out
    else .cont (setState c sDoneForever) out
  else if hasFlag e.flags fStopOnBlockBoundary then .fin stBlockBoundary c out
  else .cont (setState c sReadBlockHeader) out

def stReadAdler32 (e : Env) (c : Ctx) (out : Array UInt8) : Step :=
  let r := c.r
  if r.counter < 4 then
    if r.numBits ≠ 0 then
      match readBits e.inp 8 c with
      | (c, none) => .fin e.eoi c out
      | (c, some bits) => .cont { c with r := { c.r with zAdler32 := (c.r.zAdler32 * 256 + bits) % 2 ^ 32, counter := c.r.counter + 1 } } out
    else
      match e.inp[c.inPos]? with
      | none => .fin e.eoi c out
      | some b => .cont { c with r := { r with zAdler32 := (r.zAdler32 * 256 + b.toNat) % 2 ^ 32, counter := r.counter + 1 }, inPos := c.inPos + 1 } out
  else .cont (setState c sDoneForever) out

/-- One transition of the automaton. -/
def stepAt (s : Nat) (e : Env) (c : Ctx) (out : Array UInt8) : Step :=
  if s = sStart then stStart e c out
  else if s = sReadZlibCmf then stReadZlibCmf e c out
  else if s = sReadZlibFlg then stReadZlibFlg e c out
  else if s = sReadBlockHeader then stReadBlockHeader e c out
  else if s = sBlockTypeNoCompression then stBlockTypeNoCompression e c out
  else if s = sRawHeader then stRawHeader e c out
  else if s = sRawReadFirstByte then stRawReadFirstByte e c out
  else if s = sRawStoreFirstByte then stRawStoreFirstByte e c out
  else if s = sRawMemcpy1 then stRawMemcpy1 e c out
  else if s = sRawMemcpy2 then stRawMemcpy2 e c out
  else if s = sReadTableSizes then stReadTableSizes e c out
  else if s = sReadHufflenTableCodeSize then stReadHufflenTableCodeSize e c out
  else if s = sReadLitlenDistTablesCodeSize then stReadLitlenDistTablesCodeSize e c out
  else if s = sReadExtraBitsCodeSize then stReadExtraBitsCodeSize e c out
  else if s = sDecodeLitlen then stDecodeLitlen e c out
  else if s = sWriteSymbol then stWriteSymbol e c out
  else if s = sHuffDecodeOuterLoop1 then stHuffDecodeOuterLoop1 e c out
  else if s = sReadExtraBitsLitlen then stReadExtraBitsLitlen e c out
  else if s = sDecodeDistance then stDecodeDistance e c out
  else if s = sReadExtraBitsDistance then stReadExtraBitsDistance e c out
  else if s = sHuffDecodeOuterLoop2 ∨ s = sWriteLenBytesToEnd then stMatch e c out
  else if s = sBlockDone then stBlockDone e c out
  else if s = sReadAdler32 then stReadAdler32 e c out
  else if s = sDoneForever then .fin stDone c out
  else .fin stFailed c out

def step (e : Env) (c : Ctx) (out : Array UInt8) : Step := stepAt c.r.state e c out

def run (e : Env) : Nat → Ctx → Array UInt8 → Int × Ctx × Array UInt8
  | 0, c, out => (stModelError, c, out)
  | fuel + 1, c, out =>
    match step e c out with
    | .cont c out => run e fuel c out
    | .fin st c out => (st, c, out)

structure Res where
  status   : Int
  consumed : Nat
  written  : Nat
  r        : Regs
  out      : Array UInt8

def isPow2OrZero (n : Nat) : Bool := n == 0 || (n &&& (n - 1)) == 0

/-- Starved exits keep every byte that was read; all other exits give back the whole bytes still
    in the bit buffer (`undo_bytes`). -/
def exitUndo (st : Int) (c : Ctx) : Nat :=
  if st == stNeedsMoreInput || st == stFailedCannotMakeProgress then 0 else min (c.r.numBits / 8) c.inPos

/-- A block-boundary stop resumes at the next block header. -/
def exitState (st : Int) (c : Ctx) : Nat := if st == stBlockBoundary then sReadBlockHeader else c.r.state

/-- "Needs more input" with a completely full output window is reported as "has more output"
    (except while reading the zlib trailer, which produces no output). -/
def exitStatus (st : Int) (c : Ctx) (outEnd : Nat) : Int :=
  if st == stNeedsMoreInput && c.outPos == outEnd && exitState st c != sReadAdler32 then stHasMoreOutput else st

def needAdler (flags : Nat) : Bool :=
  !hasFlag flags fIgnoreAdler && (hasFlag flags fParseZlib || hasFlag flags fComputeAdler)

/-- Registers saved at exit (before the checksum update). -/
def exitRegs (st : Int) (c : Ctx) : Regs :=
  let nb := c.r.numBits - 8 * exitUndo st c
  { c.r with numBits := nb, bitBuf := c.r.bitBuf % 2 ^ nb, state := exitState st c }

/-- The epilogue of `decompress_with_limit`: undo of read-ahead bytes, status override, per-call
    Adler-32 over the bytes written by this call, trailer comparison. -/
def epilogue (flags outPos outEnd : Nat) (st : Int) (c : Ctx) (out : Array UInt8) : Res :=
  let st' := exitStatus st c outEnd
  let r' := exitRegs st c
  if needAdler flags && st' ≥ 0 then
    let chk := adler32 r'.checkAdler32 ((out.extract outPos c.outPos).toList)
    { status := if st' == stDone && hasFlag flags fParseZlib && chk != r'.zAdler32 then stAdler32Mismatch else st',
      consumed := c.inPos - exitUndo st c, written := c.outPos - outPos,
      r := { r' with checkAdler32 := chk }, out := out }
  else
    { status := st', consumed := c.inPos - exitUndo st c, written := c.outPos - outPos, r := r', out := out }

/-- Fuel for one call: every transition either consumes a bit, produces a byte or lowers a bounded
    rank (`Lemmas/CoreTotal`: the run never exhausts it). -/
def callFuel (r : Regs) (inp : Array UInt8) (room : Nat) : Nat :=
  64 * (8 * inp.size + r.numBits) + 64 * room + 64

/-- The buffer geometry `decompress_with_limit` refuses. -/
def badGeometry (flags outLen outPos : Nat) : Bool :=
  (!hasFlag flags fNonWrapping && !isPow2OrZero outLen) || outPos > outLen

/-- `decompress_with_limit(r, in_buf, out, out_pos, out_max, flags)` -/
def decompress (r : Regs) (inp : Array UInt8) (out : Array UInt8) (outPos budget flags : Nat) : Res :=
  if badGeometry flags out.size outPos then
    { status := stBadParam, consumed := 0, written := 0, r := r, out := out }
  else
    let outEnd := min (outPos + budget) out.size
    let e : Env := { inp := inp, flags := flags, outLen := out.size, outEnd := outEnd }
    match run e (callFuel r inp (outEnd - outPos)) { r := r, inPos := 0, outPos := outPos } out with
    | (st, c, out) => epilogue flags outPos outEnd st c out

end Model.Core
