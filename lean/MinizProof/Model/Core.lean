/-
L2 model of the low-level decoder `decompress_with_limit` (miniz_oxide/src/inflate/core.rs).

The model is the resumable automaton of the source with the same states, registers and exits, but
with ONE decode tier: the byte-at-a-time slow path (`read_bits`, `decode_huffman_code` with fewer
than two input bytes). The two faster tiers of the source (`decompress_fast`, the two-symbol middle
tier) and the table-driven Huffman lookup (`init_tree`) are performance variants whose API-visible
behaviour — status, bytes consumed, bytes written, output bytes, checksum — must equal the slow
path's; that equality is exactly what the correspondence leg checks on every call of every run
(`ICALL` transcript lines), so a divergence between tiers in the real code shows up as a DIFF.
Huffman decoding uses the canonical-code decoder of the specification (`Spec.Code`), code-length
validity is `Spec.codeValid`, length/distance bases are the RFC formulas, header validity is
`Spec.zlibHeaderValid` (Props/C03, C09 prove the source tables and header function equal them).

Hand-written. Total (fuel-bounded); `Status.modelError` marks paths the source treats as
unreachable (`init_tree` returning `None`).
-/
import MinizProof.Spec.Inflate
namespace Model.Core
open Spec

-- automaton states (numbering of `enum State`, proved equal to the source in Props/C04)
def sStart := 0
def sReadZlibCmf := 1
def sReadZlibFlg := 2
def sReadBlockHeader := 3
def sBlockTypeNoCompression := 4
def sRawHeader := 5
def sRawMemcpy1 := 6
def sRawMemcpy2 := 7
def sReadTableSizes := 8
def sReadHufflenTableCodeSize := 9
def sReadLitlenDistTablesCodeSize := 10
def sReadExtraBitsCodeSize := 11
def sDecodeLitlen := 12
def sWriteSymbol := 13
def sReadExtraBitsLitlen := 14
def sDecodeDistance := 15
def sReadExtraBitsDistance := 16
def sRawReadFirstByte := 17
def sRawStoreFirstByte := 18
def sWriteLenBytesToEnd := 19
def sBlockDone := 20
def sHuffDecodeOuterLoop1 := 21
def sHuffDecodeOuterLoop2 := 22
def sReadAdler32 := 23
def sDoneForever := 24
def sBlockTypeUnexpected := 25
def sBadCodeSizeSum := 26
def sBadDistOrLiteralTableLength := 27
def sBadTotalSymbols := 28
def sBadZlibHeader := 29
def sDistanceOutOfBounds := 30
def sBadRawLength := 31
def sBadCodeSizeDistPrevLookup := 32
def sInvalidLitlen := 33
def sInvalidDist := 34

-- TINFLStatus
def stFailedCannotMakeProgress : Int := -4
def stBadParam : Int := -3
def stAdler32Mismatch : Int := -2
def stFailed : Int := -1
def stDone : Int := 0
def stNeedsMoreInput : Int := 1
def stHasMoreOutput : Int := 2
def stBlockBoundary : Int := 3
def stModelError : Int := -99

-- flags
def fParseZlib := 1
def fHasMoreInput := 2
def fNonWrapping := 4
def fComputeAdler := 8
def fIgnoreAdler := 64
def fStopOnBlockBoundary := 128

def hasFlag (flags f : Nat) : Bool := (flags / f) % 2 == 1

/-- The registers of `DecompressorOxide` that the slow path uses. -/
structure Regs where
  state        : Nat := 0
  numBits      : Nat := 0
  bitBuf       : Nat := 0
  counter      : Nat := 0
  dist         : Nat := 0
  numExtra     : Nat := 0
  finish       : Nat := 0
  blockType    : Nat := 0
  zHeader0     : Nat := 0
  zHeader1     : Nat := 0
  zAdler32     : Nat := 0
  checkAdler32 : Nat := 0
  tableSizes   : Array Nat := #[0, 0, 0]
  clenLens     : Array Nat := Array.replicate 19 0
  rawHeader    : Array Nat := #[0, 0, 0, 0]
  lenCodes     : Array Nat := Array.replicate 512 0
  litCode      : Code := { count := #[], syms := #[] }
  distCode     : Code := { count := #[], syms := #[] }
  clenCode     : Code := { count := #[], syms := #[] }

/-- Canonical decode from the low `n` bits of the bit buffer (the model's `fast_lookup`/`tree_lookup`):
    same counting walk as `Spec.decodeSymAux`, bits taken LSB-first from `buf`. -/
inductive BufSym
  | sym (s len : Nat)
  | invalid
  | short

def decodeBufAux (c : Code) (buf n : Nat) : Nat → Nat → Nat → Nat → Nat → Nat → BufSym
  | 0, _, _, _, _, _ => .invalid
  | fuel + 1, len, used, code, first, index =>
    if index ≥ c.syms.size then .invalid
    else if used ≥ n then .short
    else
      let b := (buf >>> used) % 2
      let code := code + b
      let cnt := c.count.getD len 0
      if code < first + cnt then .sym (c.syms.getD (index + (code - first)) 0) (used + 1)
      else decodeBufAux c buf n fuel (len + 1) (used + 1) (2 * code) (2 * (first + cnt)) (index + cnt)

def decodeBuf (c : Code) (buf n : Nat) : BufSym := decodeBufAux c buf n 15 1 0 0 0 0

/-- Call-local view: registers plus input / output cursors. -/
structure Ctx where
  r      : Regs
  inPos  : Nat
  outPos : Nat

inductive Step
  | cont (c : Ctx) (out : Array UInt8)
  | fin (status : Int) (c : Ctx) (out : Array UInt8)

def endOfInput (flags : Nat) : Int :=
  if hasFlag flags fHasMoreInput then stNeedsMoreInput else stFailedCannotMakeProgress

/-- `read_bits(amount)`: pull bytes until `amount` bits are buffered; `none` = input exhausted
    (the bytes pulled so far stay in the bit buffer). Returns (value, ctx). -/
def readBitsAux (inp : Array UInt8) (amount : Nat) : Nat → Ctx → Ctx × Option Nat
  | 0, c => (c, none)
  | fuel + 1, c =>
    if c.r.numBits < amount then
      match inp[c.inPos]? with
      | none => (c, none)
      | some b =>
        readBitsAux inp amount fuel
          { c with r := { c.r with bitBuf := c.r.bitBuf ||| (b.toNat <<< c.r.numBits), numBits := c.r.numBits + 8 }, inPos := c.inPos + 1 }
    else
      let v := c.r.bitBuf % 2 ^ amount
      ({ c with r := { c.r with bitBuf := c.r.bitBuf >>> amount, numBits := c.r.numBits - amount } }, some v)

def readBits (inp : Array UInt8) (amount : Nat) (c : Ctx) : Ctx × Option Nat := readBitsAux inp amount 9 c

/-- `decode_huffman_code`: decode with the buffered bits, pulling one byte at a time while the
    code is not yet determined. `none` = input exhausted. -/
def decodeHuffAux (inp : Array UInt8) (code : Code) : Nat → Ctx → Ctx × Option Nat
  | 0, c => (c, none)
  | fuel + 1, c =>
    match decodeBuf code c.r.bitBuf c.r.numBits with
    | .sym s len => ({ c with r := { c.r with bitBuf := c.r.bitBuf >>> len, numBits := c.r.numBits - len } }, some s)
    | .invalid =>
      -- an unassigned pattern of an incomplete code: the fast table answers symbol 286 with length 1
      if c.r.numBits ≥ 1 then
        ({ c with r := { c.r with bitBuf := c.r.bitBuf >>> 1, numBits := c.r.numBits - 1 } }, some 286)
      else
        match inp[c.inPos]? with
        | none => (c, none)
        | some b => decodeHuffAux inp code fuel
            { c with r := { c.r with bitBuf := c.r.bitBuf ||| (b.toNat <<< c.r.numBits), numBits := c.r.numBits + 8 }, inPos := c.inPos + 1 }
    | .short =>
      match inp[c.inPos]? with
      | none => (c, none)
      | some b => decodeHuffAux inp code fuel
          { c with r := { c.r with bitBuf := c.r.bitBuf ||| (b.toNat <<< c.r.numBits), numBits := c.r.numBits + 8 }, inPos := c.inPos + 1 }

def decodeHuff (inp : Array UInt8) (code : Code) (c : Ctx) : Ctx × Option Nat := decodeHuffAux inp code 4 c

def setState (c : Ctx) (s : Nat) : Ctx := { c with r := { c.r with state := s } }

/-- `init_tree` for the current `block_type` (1: distance then literal table; 2: code-length table). -/
def initTree (c : Ctx) (litLens distLens : Array Nat) : Ctx :=
  if c.r.blockType = 2 then
    if codeValid .clen c.r.clenLens then
      setState { c with r := { c.r with clenCode := mkCode c.r.clenLens, counter := 0 } } sReadLitlenDistTablesCodeSize
    else setState c sBadTotalSymbols
  else
    if !codeValid .dist distLens then setState c sBadTotalSymbols
    else if !codeValid .litlen litLens then setState { c with r := { c.r with blockType := 0 } } sBadTotalSymbols
    else setState { c with r := { c.r with blockType := 0, litCode := mkCode litLens, distCode := mkCode distLens, counter := 0 } } sDecodeLitlen

def wrBytesLeft (c : Ctx) (outEnd : Nat) : Nat := outEnd - c.outPos

/-- Byte-serial LZ77 copy inside the output buffer: `out[pos+i] := out[(pos − dist + i) & mask]`
    (`transfer` / `apply_match`); in flat mode the mask is all ones. -/
def copyBytes (out : Array UInt8) (pos src ringSize : Nat) (ring : Bool) : Nat → Array UInt8
  | 0 => out
  | n + 1 =>
    let s := if ring then src % ringSize else src
    copyBytes (out.setIfInBounds pos (out.getD s 0)) (pos + 1) (src + 1) ringSize ring n

/-- One transition of the automaton. -/
def step (inp : Array UInt8) (flags outLen outEnd : Nat) (c : Ctx) (out : Array UInt8) : Step :=
  let r := c.r
  let ring := !hasFlag flags fNonWrapping
  let s := r.state
  if s = sStart then
    let r' := { r with bitBuf := 0, numBits := 0, dist := 0, counter := 0, numExtra := 0,
                       zHeader0 := 0, zHeader1 := 0, zAdler32 := 1, checkAdler32 := 1 }
    .cont (setState { c with r := r' } (if hasFlag flags fParseZlib then sReadZlibCmf else sReadBlockHeader)) out
  else if s = sReadZlibCmf then
    match inp[c.inPos]? with
    | none => .fin (endOfInput flags) c out
    | some b => .cont (setState { c with r := { r with zHeader0 := b.toNat }, inPos := c.inPos + 1 } sReadZlibFlg) out
  else if s = sReadZlibFlg then
    match inp[c.inPos]? with
    | none => .fin (endOfInput flags) c out
    | some b =>
      let flg := b.toNat
      let window := 2 ^ (r.zHeader0 / 16 + 8)
      let bad := !zlibHeaderValid r.zHeader0 flg || (ring && decide (max outLen 1 < window))
      .cont (setState { c with r := { r with zHeader1 := flg }, inPos := c.inPos + 1 } (if bad then sBadZlibHeader else sReadBlockHeader)) out
  else if s = sReadBlockHeader then
    match readBits inp 3 c with
    | (c, none) => .fin (endOfInput flags) c out
    | (c, some bits) =>
      let c := { c with r := { c.r with finish := bits % 2, blockType := (bits / 2) % 4 } }
      let bt := (bits / 2) % 4
      if bt = 0 then .cont (setState c sBlockTypeNoCompression) out
      else if bt = 1 then
        let c := { c with r := { c.r with tableSizes := #[288, 32, c.r.tableSizes.getD 2 0] } }
        .cont (initTree c fixedLitLens fixedDistLens) out
      else if bt = 2 then .cont (setState { c with r := { c.r with counter := 0 } } sReadTableSizes) out
      else .cont (setState c sBlockTypeUnexpected) out
  else if s = sBlockTypeNoCompression then
    match readBits inp (r.numBits % 8) c with
    | (c, none) => .fin (endOfInput flags) c out
    | (c, some _) => .cont (setState { c with r := { c.r with counter := 0 } } sRawHeader) out
  else if s = sRawHeader then
    if r.counter < 4 then
      if r.numBits ≠ 0 then
        match readBits inp 8 c with
        | (c, none) => .fin (endOfInput flags) c out
        | (c, some bits) => .cont { c with r := { c.r with rawHeader := c.r.rawHeader.setIfInBounds c.r.counter bits, counter := c.r.counter + 1 } } out
      else
        match inp[c.inPos]? with
        | none => .fin (endOfInput flags) c out
        | some b => .cont { c with r := { r with rawHeader := r.rawHeader.setIfInBounds r.counter b.toNat, counter := r.counter + 1 }, inPos := c.inPos + 1 } out
    else
      let length := r.rawHeader.getD 0 0 + 256 * r.rawHeader.getD 1 0
      let check := r.rawHeader.getD 2 0 + 256 * r.rawHeader.getD 3 0
      let c := { c with r := { r with counter := length } }
      if length + check ≠ 65535 then .cont (setState c sBadRawLength) out
      else if length = 0 then .cont (setState c sBlockDone) out
      else if r.numBits ≠ 0 then .cont (setState c sRawReadFirstByte) out
      else .cont (setState c sRawMemcpy1) out
  else if s = sRawReadFirstByte then
    match readBits inp 8 c with
    | (c, none) => .fin (endOfInput flags) c out
    | (c, some bits) => .cont (setState { c with r := { c.r with dist := bits } } sRawStoreFirstByte) out
  else if s = sRawStoreFirstByte then
    if wrBytesLeft c outEnd = 0 then .fin stHasMoreOutput c out
    else
      let out := out.setIfInBounds c.outPos (UInt8.ofNat r.dist)
      let c := { c with r := { r with counter := r.counter - 1 }, outPos := c.outPos + 1 }
      if c.r.counter = 0 ∨ c.r.numBits = 0 then .cont (setState c sRawMemcpy1) out
      else .cont (setState c sRawReadFirstByte) out
  else if s = sRawMemcpy1 then
    if r.counter = 0 then .cont (setState c sBlockDone) out
    else if wrBytesLeft c outEnd = 0 then .fin stHasMoreOutput c out
    else .cont (setState c sRawMemcpy2) out
  else if s = sRawMemcpy2 then
    if c.inPos < inp.size then
      let n := min (min (wrBytesLeft c outEnd) (inp.size - c.inPos)) r.counter
      let out := (List.range n).foldl (fun o i => o.setIfInBounds (c.outPos + i) (inp.getD (c.inPos + i) 0)) out
      .cont (setState { c with r := { r with counter := r.counter - n }, inPos := c.inPos + n, outPos := c.outPos + n } sRawMemcpy1) out
    else .fin (endOfInput flags) c out
  else if s = sReadTableSizes then
    if r.counter < 3 then
      match readBits inp ([5, 5, 4].getD r.counter 0) c with
      | (c, none) => .fin (endOfInput flags) c out
      | (c, some bits) =>
        .cont { c with r := { c.r with tableSizes := c.r.tableSizes.setIfInBounds c.r.counter (bits + [257, 1, 4].getD c.r.counter 0), counter := c.r.counter + 1 } } out
    else
      let c := { c with r := { r with clenLens := Array.replicate 19 0, counter := 0 } }
      if r.tableSizes.getD 0 0 ≤ 286 ∧ r.tableSizes.getD 1 0 ≤ 30 then .cont (setState c sReadHufflenTableCodeSize) out
      else .cont (setState c sBadDistOrLiteralTableLength) out
  else if s = sReadHufflenTableCodeSize then
    if r.counter < r.tableSizes.getD 2 0 then
      match readBits inp 3 c with
      | (c, none) => .fin (endOfInput flags) c out
      | (c, some bits) =>
        .cont { c with r := { c.r with clenLens := c.r.clenLens.setIfInBounds (clenOrder.getD c.r.counter 0) bits, counter := c.r.counter + 1 } } out
    else
      let c := { c with r := { r with tableSizes := r.tableSizes.setIfInBounds 2 19 } }
      .cont (initTree c #[] #[]) out
  else if s = sReadLitlenDistTablesCodeSize then
    let total := r.tableSizes.getD 0 0 + r.tableSizes.getD 1 0
    if r.counter < total then
      match decodeHuff inp r.clenCode c with
      | (c, none) => .fin (endOfInput flags) c out
      | (c, some sym) =>
        let c := { c with r := { c.r with dist := sym } }
        if sym < 16 then
          .cont { c with r := { c.r with lenCodes := c.r.lenCodes.setIfInBounds (c.r.counter % 512) sym, counter := c.r.counter + 1 } } out
        else if sym = 16 ∧ c.r.counter = 0 then .cont (setState c sBadCodeSizeDistPrevLookup) out
        else .cont (setState { c with r := { c.r with numExtra := [2, 3, 7, 0].getD ((sym - 16) % 4) 0 } } sReadExtraBitsCodeSize) out
    else if r.counter ≠ total then .cont (setState c sBadCodeSizeSum) out
    else
      let nl := r.tableSizes.getD 0 0
      let litLens := r.lenCodes.extract 0 nl
      let distLens := r.lenCodes.extract nl total
      .cont (initTree { c with r := { r with blockType := r.blockType - 1 } } litLens distLens) out
  else if s = sReadExtraBitsCodeSize then
    match readBits inp r.numExtra c with
    | (c, none) => .fin (endOfInput flags) c out
    | (c, some extra) =>
      let extra := extra + [3, 3, 11].getD ((c.r.dist - 16) % 4 / 2 * 2) 0
      let val := if c.r.dist = 16 then c.r.lenCodes.getD ((c.r.counter - 1) % 512) 0 else 0
      let lc := (List.range extra).foldl (fun a i => a.setIfInBounds (c.r.counter + i) val) c.r.lenCodes
      .cont (setState { c with r := { c.r with lenCodes := lc, counter := c.r.counter + extra } } sReadLitlenDistTablesCodeSize) out
  else if s = sDecodeLitlen then
    match decodeHuff inp r.litCode c with
    | (c, none) => .fin (endOfInput flags) c out
    | (c, some sym) => .cont (setState { c with r := { c.r with counter := sym } } sWriteSymbol) out
  else if s = sWriteSymbol then
    if r.counter ≥ 256 then .cont (setState c sHuffDecodeOuterLoop1) out
    else if wrBytesLeft c outEnd > 0 then
      .cont (setState { c with outPos := c.outPos + 1 } sDecodeLitlen) (out.setIfInBounds c.outPos (UInt8.ofNat r.counter))
    else .fin stHasMoreOutput c out
  else if s = sHuffDecodeOuterLoop1 then
    let sym := r.counter % 512
    if sym = 256 then .cont (setState { c with r := { r with counter := sym } } sBlockDone) out
    else if sym > 285 then .cont (setState { c with r := { r with counter := sym } } sInvalidLitlen) out
    else
      let (base, extra) := lengthBaseExtra sym
      let c := { c with r := { r with counter := base, numExtra := extra } }
      .cont (setState c (if extra ≠ 0 then sReadExtraBitsLitlen else sDecodeDistance)) out
  else if s = sReadExtraBitsLitlen then
    match readBits inp r.numExtra c with
    | (c, none) => .fin (endOfInput flags) c out
    | (c, some bits) => .cont (setState { c with r := { c.r with counter := c.r.counter + bits } } sDecodeDistance) out
  else if s = sDecodeDistance then
    match decodeHuff inp r.distCode c with
    | (c, none) => .fin (endOfInput flags) c out
    | (c, some sym) =>
      if sym > 29 then .cont (setState c sInvalidDist) out
      else
        let (base, extra) := distBaseExtra sym
        let c := { c with r := { c.r with dist := base, numExtra := extra } }
        .cont (setState c (if extra ≠ 0 then sReadExtraBitsDistance else sHuffDecodeOuterLoop2)) out
  else if s = sReadExtraBitsDistance then
    match readBits inp r.numExtra c with
    | (c, none) => .fin (endOfInput flags) c out
    | (c, some bits) => .cont (setState { c with r := { c.r with dist := c.r.dist + bits } } sHuffDecodeOuterLoop2) out
  else if s = sHuffDecodeOuterLoop2 ∨ s = sWriteLenBytesToEnd then
    if (r.dist > c.outPos ∧ !ring) ∨ r.dist > outLen then .cont (setState c sDistanceOutOfBounds) out
    else if r.counter = 0 then .cont (setState c sDecodeLitlen) out
    else if wrBytesLeft c outEnd = 0 then .fin stHasMoreOutput (setState c sWriteLenBytesToEnd) out
    else
      let n := min (wrBytesLeft c outEnd) r.counter
      let src := if ring then (c.outPos + outLen - r.dist) % (max outLen 1) else c.outPos - r.dist
      let out := copyBytes out c.outPos src (max outLen 1) ring n
      let c := { c with r := { r with counter := r.counter - n }, outPos := c.outPos + n }
      if c.r.counter = 0 then .cont (setState c sDecodeLitlen) out
      else .cont (setState c sWriteLenBytesToEnd) out
  else if s = sBlockDone then
    if r.finish ≠ 0 then
      -- pad to a byte boundary, give back whole bytes still in the bit buffer
      let nb := r.numBits - r.numBits % 8
      let buf := r.bitBuf >>> (r.numBits % 8)
      let undo := min (nb / 8) c.inPos
      let nb' := nb - 8 * undo
      let c := { c with r := { r with numBits := nb', bitBuf := buf % 2 ^ nb' }, inPos := c.inPos - undo }
      if hasFlag flags fParseZlib then .cont (setState { c with r := { c.r with counter := 0 } } sReadAdler32) out
      else .cont (setState c sDoneForever) out
    else if hasFlag flags fStopOnBlockBoundary then .fin stBlockBoundary c out
    else .cont (setState c sReadBlockHeader) out
  else if s = sReadAdler32 then
    if r.counter < 4 then
      if r.numBits ≠ 0 then
        match readBits inp 8 c with
        | (c, none) => .fin (endOfInput flags) c out
        | (c, some bits) => .cont { c with r := { c.r with zAdler32 := (c.r.zAdler32 * 256 + bits) % 2 ^ 32, counter := c.r.counter + 1 } } out
      else
        match inp[c.inPos]? with
        | none => .fin (endOfInput flags) c out
        | some b => .cont { c with r := { r with zAdler32 := (r.zAdler32 * 256 + b.toNat) % 2 ^ 32, counter := r.counter + 1 }, inPos := c.inPos + 1 } out
    else .cont (setState c sDoneForever) out
  else if s = sDoneForever then .fin stDone c out
  else .fin stFailed c out

def run (inp : Array UInt8) (flags outLen outEnd : Nat) : Nat → Ctx → Array UInt8 → Int × Ctx × Array UInt8
  | 0, c, out => (stModelError, c, out)
  | fuel + 1, c, out =>
    match step inp flags outLen outEnd c out with
    | .cont c out => run inp flags outLen outEnd fuel c out
    | .fin st c out => (st, c, out)

structure Res where
  status   : Int
  consumed : Nat
  written  : Nat
  r        : Regs
  out      : Array UInt8

def isPow2OrZero (n : Nat) : Bool := n == 0 || (n &&& (n - 1)) == 0

/-- `decompress_with_limit(r, in_buf, out, out_pos, out_max, flags)` -/
def decompress (r : Regs) (inp : Array UInt8) (out : Array UInt8) (outPos budget flags : Nat) : Res :=
  let outLen := out.size
  let ring := !hasFlag flags fNonWrapping
  if (ring && !isPow2OrZero outLen) || outPos > outLen then
    { status := stBadParam, consumed := 0, written := 0, r := r, out := out }
  else
    let outEnd := min (outPos + budget) outLen
    let fuel := 40 * (8 * inp.size) + 16 * (outEnd - outPos) + 20000
    let (st, c, out) := run inp flags outLen outEnd fuel { r := r, inPos := 0, outPos := outPos } out
    let starved := st == stNeedsMoreInput || st == stFailedCannotMakeProgress
    let undo := if starved then 0 else min (c.r.numBits / 8) c.inPos
    let nb := c.r.numBits - 8 * undo
    let state := if st == stBlockBoundary then sReadBlockHeader else c.r.state
    let st := if st == stNeedsMoreInput && c.outPos == outEnd && state != sReadAdler32 then stHasMoreOutput else st
    let r' := { c.r with numBits := nb, bitBuf := c.r.bitBuf % 2 ^ nb, state := state }
    let needAdler := !hasFlag flags fIgnoreAdler && (hasFlag flags fParseZlib || hasFlag flags fComputeAdler)
    if needAdler && st ≥ 0 then
      let chk := adler32 r'.checkAdler32 ((out.extract outPos c.outPos).toList)
      let r' := { r' with checkAdler32 := chk }
      let st := if st == stDone && hasFlag flags fParseZlib && chk != r'.zAdler32 then stAdler32Mismatch else st
      { status := st, consumed := c.inPos - undo, written := c.outPos - outPos, r := r', out := out }
    else
      { status := st, consumed := c.inPos - undo, written := c.outPos - outPos, r := r', out := out }

end Model.Core
