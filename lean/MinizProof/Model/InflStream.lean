/-
L2 model of `inflate()` / `inflate_loop` / `push_dict_out` (miniz_oxide/src/inflate/stream.rs),
mirrored line by line at the level of counts and statuses. The low-level decoder is NOT modelled
here: its responses are a script (any list of (status, in_bytes, out_bytes)), so the theorems hold
for every core behaviour. Correspondence: the harness records the inner `decompress` calls of every
real `inflate()` call (hook) and the driver replays them through `inflate` below; result, counts,
the new wrapper state and the arguments of every inner call must agree (leg K of C13).
-/
namespace Model.Infl

-- TINFLStatus codes
def tFailedCannotMakeProgress : Int := -4
def tFailed : Int := -1
def tDone : Int := 0
def tNeedsMoreInput : Int := 1
-- MZFlush
def fFull : Nat := 3
def fFinish : Nat := 4
-- result codes
def rOk : Int := 0
def rStreamEnd : Int := 1
def rBuf : Int := -5
def rData : Int := -3
def rStream : Int := -2
-- inflate flags
def flagParseZlib : Nat := 1
def flagHasMoreInput : Nat := 2
def flagNonWrapping : Nat := 4
def flagComputeAdler : Nat := 8
def flagIgnoreAdler : Nat := 64
def dictSize : Nat := 32768

/-- DataFormat: 0 Zlib, 1 ZLibIgnoreChecksum, 2 Raw -/
structure St where
  dictOfs    : Nat
  dictAvail  : Nat
  firstCall  : Bool
  hasFlushed : Bool
  lastStatus : Int
  fmt        : Nat
deriving Repr, DecidableEq

def St.fresh (fmt : Nat) : St :=
  { dictOfs := 0, dictAvail := 0, firstCall := true, hasFlushed := false, lastStatus := tNeedsMoreInput, fmt := fmt }

structure Resp where
  st  : Int
  ib  : Nat
  ob  : Nat
deriving Repr, DecidableEq

structure Result where
  consumed : Nat
  written  : Nat
  status   : Int
deriving Repr, DecidableEq

/-- An inner call: (input length offered, out_pos, output buffer length, flags). -/
abbrev Call := Nat × Nat × Nat × Nat

inductive Outcome
  | ok (s : St) (r : Result) (calls : List Call)
  | stuck (calls : List Call)
  | contract
deriving Repr, DecidableEq

def baseFlags (fmt : Nat) : Nat :=
  (if fmt = 0 then flagComputeAdler else flagIgnoreAdler) + (if fmt = 0 ∨ fmt = 1 then flagParseZlib else 0)

/-- `push_dict_out`: deliver `min(dict_avail, out_left)` bytes. Returns (n, new state). -/
def pushDictOut (s : St) (outLeft : Nat) : Nat × St :=
  let n := min s.dictAvail outLeft
  (n, { s with dictAvail := s.dictAvail - n, dictOfs := (s.dictOfs + n) % dictSize })

/-- `inflate_loop` -/
def loop (flush flags origIn : Nat) : St → Nat → Nat → Nat → Nat → List Call → List Resp → Outcome
  | s, inLeft, _, _, _, calls, [] => .stuck (calls ++ [(inLeft, s.dictOfs, dictSize, flags)])
  | s, inLeft, outLeft, c, w, calls, r :: rs =>
    let calls := calls ++ [(inLeft, s.dictOfs, dictSize, flags)]
    if r.ib > inLeft ∨ r.ob > dictSize - s.dictOfs then .contract
    else
      let s1 := { s with lastStatus := r.st, dictAvail := r.ob }
      let inLeft' := inLeft - r.ib
      let c' := c + r.ib
      let (n, s2) := pushDictOut s1 outLeft
      let w' := w + n
      let outLeft' := outLeft - n
      if r.st = tFailedCannotMakeProgress then .ok s2 ⟨c', w', rBuf⟩ calls
      else if r.st < 0 then .ok s2 ⟨c', w', rData⟩ calls
      else if r.st = tNeedsMoreInput ∧ origIn = 0 then .ok s2 ⟨c', w', rBuf⟩ calls
      else if flush = fFinish then
        if r.st = tDone then
          (if s2.dictAvail ≠ 0 then .ok s2 ⟨c', w', rBuf⟩ calls else .ok s2 ⟨c', w', rStreamEnd⟩ calls)
        else if outLeft' = 0 then .ok s2 ⟨c', w', rBuf⟩ calls
        else loop flush flags origIn s2 inLeft' outLeft' c' w' calls rs
      else
        if r.st = tDone ∨ inLeft' = 0 ∨ outLeft' = 0 ∨ s2.dictAvail ≠ 0 then
          (if r.st = tDone ∧ s2.dictAvail = 0 then .ok s2 ⟨c', w', rStreamEnd⟩ calls else .ok s2 ⟨c', w', rOk⟩ calls)
        else loop flush flags origIn s2 inLeft' outLeft' c' w' calls rs

/-- `inflate(state, input, output, flush)` -/
def inflate (s : St) (inLen outLen flush : Nat) (script : List Resp) : Outcome :=
  if flush = fFull then .ok s ⟨0, 0, rStream⟩ []
  else
    let flags := baseFlags s.fmt
    let first := s.firstCall
    let s := { s with firstCall := false }
    if s.lastStatus = tFailedCannotMakeProgress then .ok s ⟨0, 0, rBuf⟩ []
    else if s.lastStatus < 0 then .ok s ⟨0, 0, rData⟩ []
    else if s.hasFlushed ∧ flush ≠ fFinish then .ok s ⟨0, 0, rStream⟩ []
    else
      let s := { s with hasFlushed := s.hasFlushed || flush == fFinish }
      if flush = fFinish ∧ first then
        let flags := flags + flagNonWrapping
        match script with
        | [] => .stuck [(inLen, 0, outLen, flags)]
        | r :: _ =>
          if r.ib > inLen ∨ r.ob > outLen then .contract
          else
            let calls := [(inLen, 0, outLen, flags)]
            if r.st = tFailedCannotMakeProgress then .ok { s with lastStatus := r.st } ⟨r.ib, r.ob, rBuf⟩ calls
            else if r.st < 0 then .ok { s with lastStatus := r.st } ⟨r.ib, r.ob, rData⟩ calls
            else if r.st ≠ tDone then .ok { s with lastStatus := tFailed } ⟨r.ib, r.ob, rBuf⟩ calls
            else .ok { s with lastStatus := r.st } ⟨r.ib, r.ob, rStreamEnd⟩ calls
      else
        let flags := if flush ≠ fFinish then flags + flagHasMoreInput else flags
        if s.dictAvail ≠ 0 then
          let (n, s2) := pushDictOut s outLen
          .ok s2 ⟨0, n, if s2.lastStatus = tDone ∧ s2.dictAvail = 0 then rStreamEnd else rOk⟩ []
        else loop flush flags inLen s inLen outLen 0 0 [] script

/-- Wrapper-state invariant between calls. -/
def St.Inv (s : St) : Prop := s.dictOfs < dictSize ∧ s.dictOfs + s.dictAvail ≤ dictSize

end Model.Infl
