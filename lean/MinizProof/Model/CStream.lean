/-
L2 model of the C stream wrappers `mz_deflate` / `mz_inflate` (`oxidize!` in src/lib.rs,
`StreamOxide::try_new` / `into_mz_stream` in src/c_export.rs, `mz_deflate_oxide` /
`mz_inflate_oxide` in src/lib_oxide.rs): the bookkeeping around ONE inner Rust call
(`deflate()` / `inflate()`), whose result is a parameter. Pointers are numbers.
Tied to the code by the `CCALL` correspondence: the harness records the `mz_stream` fields before
and after every C call together with the result of the same call on the Rust API.
-/
namespace Model.CStream

def MZ_STREAM_ERROR : Int := -2
def MZ_PARAM_ERROR : Int := -10000

/-- the fields of `mz_stream` the wrappers move, and what `try_new` looks at -/
structure CStream where
  nextIn   : Nat
  availIn  : Nat
  totalIn  : Nat
  nextOut  : Nat
  availOut : Nat
  totalOut : Nat
  inNull   : Bool    -- next_in is NULL
  outNull  : Bool    -- next_out is NULL
  kindOk   : Bool    -- data_type is this wrapper's kind and no custom allocator is set
  hasState : Bool    -- state present (and of this wrapper's kind)
deriving DecidableEq, Repr

/-- result of the inner Rust call on the slices the wrapper built -/
structure Inner where
  status   : Int
  consumed : Nat
  written  : Nat

/-- `into_mz_stream`: a NULL pointer is written back with length 0 -/
def writeBack (s : CStream) : CStream :=
  { s with availIn := if s.inNull then 0 else s.availIn, availOut := if s.outNull then 0 else s.availOut }

/-- c_ulong is 64 bits on the platform the harness runs on (`wrapping_add`) -/
def wrap64 (x : Nat) : Nat := x % 2 ^ 64

/-- the flush values `MZFlush::new` accepts (Props/C17 `model_flush_is_source`: equal to the
    function regenerated from the source, for every i32) -/
def flushOk (flush : Int) : Bool := decide (0 ≤ flush ∧ flush ≤ 4)

/-- One `mz_deflate` / `mz_inflate` call on a non-NULL stream pointer. -/
def streamCall (s : CStream) (flush : Int) (inner : Inner) : CStream × Int :=
  if !s.kindOk then (s, MZ_PARAM_ERROR)                               -- try_new refuses: stream untouched
  else if !s.hasState then (writeBack s, MZ_STREAM_ERROR)
  else if s.inNull || s.outNull then (writeBack s, MZ_STREAM_ERROR)
  else if !flushOk flush then (writeBack s, MZ_PARAM_ERROR)
  else
    ({ s with nextIn := s.nextIn + inner.consumed, availIn := s.availIn - inner.consumed,
              totalIn := wrap64 (s.totalIn + inner.consumed),
              nextOut := s.nextOut + inner.written, availOut := s.availOut - inner.written,
              totalOut := wrap64 (s.totalOut + inner.written) }, inner.status)

/-- a driver: between calls the caller may point the stream at new buffers -/
structure Call where
  nextIn   : Nat
  availIn  : Nat
  nextOut  : Nat
  availOut : Nat
  flush    : Int
  inner    : Inner

def runCalls (s : CStream) : List Call → CStream × List Int
  | [] => (s, [])
  | c :: cs =>
    let s0 := { s with nextIn := c.nextIn, availIn := c.availIn, nextOut := c.nextOut, availOut := c.availOut }
    let r := streamCall s0 c.flush c.inner
    let rest := runCalls r.1 cs
    (rest.1, r.2 :: rest.2)

end Model.CStream
