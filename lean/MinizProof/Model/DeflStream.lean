/-
L2 model of `deflate()` (miniz_oxide/src/deflate/stream.rs), mirrored line by line. The
compressor engine (`core::compress`) is NOT modelled: its responses are a script (any list of
(status, consumed, written) triples), so every theorem about this model holds for every engine
behaviour. Correspondence: the harness records, for each real `deflate()` call, the arguments and
results of the inner `compress` calls (hook events) and the driver replays them through `deflate`
below; statuses, counts and the arguments of every inner call must agree (leg K of C14).
-/
namespace Model.Defl

/-- TDEFLStatus codes -/
def stBadParam : Int := -2
def stPutBufFailed : Int := -1
def stOkay : Int := 0
def stDone : Int := 1

/-- MZFlush values -/
def flNone : Nat := 0
def flFinish : Nat := 4

/-- Result codes: MZStatus::Ok = 0, StreamEnd = 1; MZError::Buf = -5, Stream = -2, Param = -10000 -/
def rOk : Int := 0
def rStreamEnd : Int := 1
def rBuf : Int := -5
def rStream : Int := -2
def rParam : Int := -10000

structure Resp where
  st   : Int
  cin  : Nat
  cout : Nat
deriving Repr, DecidableEq

structure Result where
  consumed : Nat
  written  : Nat
  status   : Int
deriving Repr, DecidableEq

inductive Outcome
  | ok (r : Result) (calls : List (Nat × Nat))   -- result, and the (in_len, out_len) of every inner call
  | stuck (calls : List (Nat × Nat))             -- the script ended while the loop wanted another call
  | contract                                      -- the engine reported more than it was offered
deriving Repr, DecidableEq

/-- The `loop { … }` of `deflate()`. -/
def loop (flush : Nat) : Nat → Nat → Nat → Nat → List (Nat × Nat) → List Resp → Outcome
  | inLeft, outLeft, _, _, calls, [] => .stuck (calls ++ [(inLeft, outLeft)])
  | inLeft, outLeft, c, w, calls, r :: rs =>
    let calls := calls ++ [(inLeft, outLeft)]
    if r.cin > inLeft ∨ r.cout > outLeft then .contract
    else
      let inLeft' := inLeft - r.cin
      let outLeft' := outLeft - r.cout
      let c' := c + r.cin
      let w' := w + r.cout
      if r.st = stBadParam then .ok ⟨c', w', rParam⟩ calls
      else if r.st = stPutBufFailed then .ok ⟨c', w', rStream⟩ calls
      else if r.st = stDone then .ok ⟨c', w', rStreamEnd⟩ calls
      else if outLeft' = 0 then .ok ⟨c', w', rOk⟩ calls
      else if inLeft' = 0 ∧ flush ≠ flFinish then
        (if flush ≠ flNone ∨ c' > 0 ∨ w' > 0 then .ok ⟨c', w', rOk⟩ calls else .ok ⟨c', w', rBuf⟩ calls)
      else loop flush inLeft' outLeft' c' w' calls rs

/-- `deflate(compressor, input, output, flush)`; `prevDone` = `prev_return_status() == Done`. -/
def deflate (prevDone : Bool) (inLen outLen flush : Nat) (script : List Resp) : Outcome :=
  if outLen = 0 then .ok ⟨0, 0, rBuf⟩ []
  else if prevDone then
    (if flush = flFinish then .ok ⟨0, 0, rStreamEnd⟩ [] else .ok ⟨0, 0, rBuf⟩ [])
  else loop flush inLen outLen 0 0 [] script

end Model.Defl
