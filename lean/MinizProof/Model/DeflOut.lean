/-
L2 model of the compressor's OUTPUT STAGING and call guards (miniz_oxide/src/deflate/core.rs):
`compress_inner`'s prologue (Finish-sticky / previous-status latch, drain of pending output),
`CallbackBuf::flush_output` (a block goes straight to the caller's buffer when at least
`OUT_BUF_SIZE` bytes of room are left, otherwise into `local_buf` with the part that does not fit
kept pending as `flush_ofs / flush_remaining`), the rule that a token engine stops as soon as a
block leaves bytes pending, the epilogue's guarded final `flush_block`, and `flush_output_buffer`.

The token engines and `flush_block`'s block construction are NOT modelled: one call's engine is a
script (`EngineCall`: the blocks it would flush if never interrupted, whether it ends drained, and
the block the epilogue would add), so every theorem holds for every engine behaviour. The
correspondence replays hook-recorded `flush_block` / `compress` events of real calls (op `STG`).
Blocks are byte lists; for the buffer sink only.
-/
namespace Model.DeflOut

def OUT_BUF_SIZE : Nat := 85196

/-- TDEFLStatus -/
def stBadParam : Int := -2
def stOkay : Int := 0
def stDone : Int := 1

def flNone : Nat := 0
def flFinish : Nat := 4

/-- The staging part of `ParamsOxide`. `pending` = `local_buf[flush_ofs .. flush_ofs + flush_remaining]`. -/
structure Stage where
  pending   : List UInt8 := []
  finished  : Bool := false
  prev      : Int := 0          -- prev_return_status
  lastFlush : Nat := 0          -- params.flush
deriving Repr, DecidableEq

/-- What the (unmodelled) token engine and block builder do in one call. -/
structure EngineCall where
  blocks   : List (List UInt8)   -- blocks flushed by the engine body, in order, if never interrupted
  drained  : Bool                -- at the epilogue: all offered input taken and the lookahead empty
  finalBlk : List UInt8          -- what the epilogue's `flush_block(flush)` stages when it runs

/-- `CallbackOxide::flush_output` for the buffer sink: `ofs` bytes of the caller's `outLen`-byte
    buffer are already used. Returns (bytes delivered now, bytes left pending). -/
def flushOne (outLen ofs : Nat) (blk : List UInt8) : List UInt8 × List UInt8 :=
  if outLen - ofs ≥ OUT_BUF_SIZE then (blk, [])                        -- written in place
  else (blk.take (outLen - ofs), blk.drop (outLen - ofs))              -- via local_buf

/-- The engine body: blocks are flushed one after the other; the engine returns as soon as one
    leaves bytes pending. Returns (delivered, pending, blocks actually flushed). -/
def stageBlocks (outLen : Nat) : Nat → List (List UInt8) → List UInt8 × List UInt8 × Nat
  | _, [] => ([], [], 0)
  | ofs, b :: bs =>
    let (d, p) := flushOne outLen ofs b
    if p ≠ [] then (d, p, 1)
    else
      let (d', p', k) := stageBlocks outLen (ofs + d.length) bs
      (d ++ d', p', k + 1)

structure CallOut where
  stage     : Stage
  status    : Int
  delivered : List UInt8        -- bytes written to the caller's buffer by this call, in order
  flushed   : Nat               -- number of engine-body blocks flushed in this call
  epilogue  : Bool              -- whether the epilogue's `flush_block` ran

/-- `flush_output_buffer` (buffer sink) followed by the status computation. -/
def flushOut (s : Stage) (outLen ofs : Nat) : Stage × Int × List UInt8 :=
  let n := min (outLen - ofs) s.pending.length
  let s' := { s with pending := s.pending.drop n }
  let st := if s'.finished && s'.pending.isEmpty then stDone else stOkay
  ({ s' with prev := st }, st, s.pending.take n)

/-- `compress_inner` for the buffer sink. -/
def compressInner (s : Stage) (outLen flush : Nat) (eng : EngineCall) : CallOut :=
  let prevOk := s.prev == stOkay
  let once := s.lastFlush != flFinish || flush == flFinish
  let s := { s with lastFlush := flush }
  if !prevOk || !once then
    { stage := { s with prev := stBadParam }, status := stBadParam, delivered := [], flushed := 0, epilogue := false }
  else if !s.pending.isEmpty || s.finished then
    let (s', st, d) := flushOut s outLen 0
    { stage := s', status := st, delivered := d, flushed := 0, epilogue := false }
  else
    let (d1, p1, k) := stageBlocks outLen 0 eng.blocks
    if !p1.isEmpty then
      -- the engine stopped with bytes pending: no final block in this call
      let (s', st, d) := flushOut { s with pending := p1 } outLen d1.length
      { stage := s', status := st, delivered := d1 ++ d, flushed := k, epilogue := false }
    else if flush != flNone && eng.drained then
      let (d2, p2) := flushOne outLen d1.length eng.finalBlk
      let s2 := { s with pending := p2, finished := flush == flFinish }
      let (s', st, d) := flushOut s2 outLen (d1.length + d2.length)
      { stage := s', status := st, delivered := d1 ++ d2 ++ d, flushed := k, epilogue := true }
    else
      let (s', st, d) := flushOut s outLen d1.length
      { stage := s', status := st, delivered := d1 ++ d, flushed := k, epilogue := false }

end Model.DeflOut
