/-
L2 models of the one-shot vector helpers, mirrored line by line:
  * `decompress_to_vec_inner` (miniz_oxide/src/inflate/mod.rs): flat buffer of
    `min(2·|input|, limit)` bytes, doubled (capped at the limit) on every `HasMoreOutput`;
  * `compress_to_vec_inner` (miniz_oxide/src/deflate/mod.rs): buffer of `max(|input|/2, 2)` bytes,
    doubled whenever fewer than 30 bytes are free after an `Okay` return, `Finish` on every call.
The inner `decompress` / `compress` calls are NOT modelled: their responses are a script, so every
theorem holds for every behaviour of the inner function. Correspondence (ops `VECI`, `VECD`): the
hook `verif_vec_trace` records every inner call of the real helpers; the driver replays the
responses through the models below and compares the arguments of every call and the final result.
-/
namespace Model.Vec

structure Resp where
  st   : Int
  cin  : Nat
  cout : Nat
deriving Repr, DecidableEq

/-- arguments of one inner call: (input bytes left, buffer length, out_pos) -/
abbrev Call := Nat × Nat × Nat

-- TINFLStatus
def tDone : Int := 0
def tHasMoreOutput : Int := 2
-- TDEFLStatus
def dOkay : Int := 0
def dDone : Int := 1

inductive InflOut
  | ok (len : Nat) (calls : List Call)               -- Ok(vec) with vec.len() = len
  | err (status : Int) (len : Nat) (calls : List Call)   -- DecompressError { status, output: vec of length len }
  | stuck (calls : List Call)                         -- the script ended while the loop wanted another call
deriving Repr, DecidableEq

/-- the `loop { … }` of `decompress_to_vec_inner` -/
def inflLoop (maxOut : Nat) : Nat → Nat → Nat → List Call → List Resp → InflOut
  | inLeft, bufLen, outPos, calls, [] => .stuck (calls ++ [(inLeft, bufLen, outPos)])
  | inLeft, bufLen, outPos, calls, r :: rs =>
    let calls := calls ++ [(inLeft, bufLen, outPos)]
    let outPos' := outPos + r.cout
    if r.st = tDone then .ok (min outPos' bufLen) calls            -- truncate(out_pos)
    else if r.st = tHasMoreOutput then
      if r.cin > inLeft then .err tHasMoreOutput bufLen calls
      else if bufLen ≥ maxOut then .err tHasMoreOutput bufLen calls
      else inflLoop maxOut (inLeft - r.cin) (min (bufLen * 2) maxOut) outPos' calls rs
    else .err r.st bufLen calls

def decompressToVec (inLen maxOut : Nat) (script : List Resp) : InflOut :=
  inflLoop maxOut inLen (min (inLen * 2) maxOut) 0 [] script

inductive DeflOut
  | ok (len : Nat) (calls : List Call)
  | panic (calls : List Call)                         -- "Bug! Unexpectedly failed to compress!"
  | stuck (calls : List Call)
deriving Repr, DecidableEq

/-- the `loop { … }` of `compress_to_vec_inner` -/
def deflLoop : Nat → Nat → Nat → List Call → List Resp → DeflOut
  | inLeft, bufLen, outPos, calls, [] => .stuck (calls ++ [(inLeft, bufLen, outPos)])
  | inLeft, bufLen, outPos, calls, r :: rs =>
    let calls := calls ++ [(inLeft, bufLen, outPos)]
    let outPos' := outPos + r.cout
    if r.st = dDone then .ok (min outPos' bufLen) calls
    else if r.st = dOkay ∧ r.cin ≤ inLeft then
      deflLoop (inLeft - r.cin) (if bufLen - outPos' < 30 then bufLen * 2 else bufLen) outPos' calls rs
    else .panic calls

def compressToVec (inLen : Nat) (script : List Resp) : DeflOut :=
  deflLoop inLen (max (inLen / 2) 2) 0 [] script

end Model.Vec
