/-
L2 model of the compressor's output bit writer (`OutputBufferOxide::put_bits`, `pad_to_bytes`,
deflate/core.rs) and of the flush markers `flush_block` appends. Hand-written; the byte-level
effect is compared with the implementation by the oracle leg (every flush point's output is
inspected by the Lean reference decoder and for its last four bytes).
-/
namespace Model

structure BW where
  out : List UInt8
  buf : Nat
  n   : Nat
deriving Repr

/-- Between calls fewer than 8 bits are pending and the buffer holds exactly those bits. -/
def BW.Inv (w : BW) : Prop := w.n < 8 ∧ w.buf < 2 ^ w.n

/-- `k` bytes of `acc`, least significant first (the `while bits_in >= 8` loop of `put_bits`). -/
def emitBytes (acc : Nat) : Nat → List UInt8
  | 0 => []
  | k + 1 => UInt8.ofNat (acc % 256) :: emitBytes (acc / 256) k

/-- `put_bits(bits, len)`: OR the bits in above the pending ones, emit every whole byte. -/
def putBits (w : BW) (bits len : Nat) : BW :=
  let acc := w.buf ||| (bits <<< w.n)
  let tot := w.n + len
  { out := w.out ++ emitBytes acc (tot / 8), buf := acc >>> (8 * (tot / 8)), n := tot % 8 }

/-- `pad_to_bytes()` -/
def padToBytes (w : BW) : BW := if w.n ≠ 0 then putBits w 0 (8 - w.n) else w

/-- Sync / Full flush marker: empty stored block. -/
def syncMarker (w : BW) : BW :=
  putBits (putBits (padToBytes (putBits w 0 3)) 0 16) 0xFFFF 16

/-- Partial flush marker: empty fixed block (3 header bits, 7-bit end-of-block code). -/
def partialMarker (w : BW) : BW := putBits w 2 10

end Model
