/-
L2 model of the code-length packing of `HuffmanOxide::start_dynamic_block` (deflate/core.rs): the
run-length coder `Rle` (`prev_code_size`, `zero_code_size`) over the literal/length and distance code
sizes, the choice of HCLEN, and the header of a dynamic block assembled from them. Output: symbols of
the code-length alphabet (`Model.Core.CSym`) and a `DynHdr` of the encoder specification.
Tie: check `dynhdr` of op ENC — every dynamic block the compressor emits is compared bit for bit, from
its first header bit to its end-of-block code, with `encDynamic` of the header THIS model computes
from the block's code lengths.
-/
import MinizProof.Lemmas.EncDynamic
namespace Model.Rle
open Model.Core

structure St where
  z    : Nat := 0
  rep  : Nat := 0
  prev : Nat := 0xFF
  out  : List CSym := []

/-- `Rle::prev_code_size`: flush pending repeats of the previous size -/
def prevFlush (s : St) : St :=
  if s.rep ≠ 0 then
    if s.rep < 3 then { s with out := s.out ++ List.replicate s.rep (.len s.prev), rep := 0 }
    else { s with out := s.out ++ [.rep (s.rep - 3)], rep := 0 }
  else s

/-- `Rle::zero_code_size`: flush pending zeros -/
def zeroFlush (s : St) : St :=
  if s.z ≠ 0 then
    if s.z < 3 then { s with out := s.out ++ List.replicate s.z (.len 0), z := 0 }
    else if s.z ≤ 10 then { s with out := s.out ++ [.z3 (s.z - 3)], z := 0 }
    else { s with out := s.out ++ [.z7 (s.z - 11)], z := 0 }
  else s

/-- one code size of the loop in `start_dynamic_block` -/
def step (s : St) (cs : Nat) : St :=
  let s :=
    if cs = 0 then
      let s := prevFlush s
      let s := { s with z := s.z + 1 }
      if s.z = 138 then zeroFlush s else s
    else
      let s := zeroFlush s
      if cs ≠ s.prev then
        let s := prevFlush s
        { s with out := s.out ++ [.len cs] }
      else
        let s := { s with rep := s.rep + 1 }
        if s.rep = 6 then prevFlush s else s
  { s with prev := cs }

def finish (s : St) : St := if s.rep ≠ 0 then prevFlush s else zeroFlush s

/-- the packed code sizes for the list of code sizes `lens` -/
def rlePack (lens : List Nat) : List CSym := (finish (lens.foldl step {})).out

/-- HCLEN + 4: trailing zero entries (in the RFC's order) are not sent, at least 4 are -/
def numBitLengths (clens : Array Nat) : Nat :=
  let trailing := ((Spec.clenOrder.reverse).takeWhile (fun o => clens.getD o 0 == 0)).length
  max 4 (18 - trailing + 1)

/-- the header `start_dynamic_block` writes for the code sizes `litLens`, `distLens` (already cut to
    `num_lit_codes` / `num_dist_codes` entries) and the code-length code `clens` -/
def header (litLens distLens clens : Array Nat) : DynHdr :=
  { hlit := litLens.size - 257, hdist := distLens.size - 1,
    cvals := (Spec.clenOrder.take (numBitLengths clens)).map (fun o => clens.getD o 0),
    csyms := rlePack (litLens.toList ++ distLens.toList) }

end Model.Rle
