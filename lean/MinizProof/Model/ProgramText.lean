/-
Program-text model (C19/C20): the vocabulary in which the translator reports facts about the
crate's source text — cfg guards, items and what they mention, struct fields and their types —
and the decision procedures the theorems use. Hand-written; the DATA (Gen/Facts.lean) is
regenerated from /repo on every run.
-/
namespace PT

/-- A `#[cfg(...)]` predicate over numbered atoms (features and other cfg keys). -/
inductive Cfg
  | tt
  | atom (i : Nat)
  | not (c : Cfg)
  | and (a b : Cfg)
  | or (a b : Cfg)
deriving Repr, DecidableEq

def Cfg.eval (env : Nat → Bool) : Cfg → Bool
  | .tt => true
  | .atom i => env i
  | .not c => !c.eval env
  | .and a b => a.eval env && b.eval env
  | .or a b => a.eval env || b.eval env

/-- Sound syntactic test: does guard `g` force atom `a` to be enabled? -/
def Cfg.forces (a : Nat) : Cfg → Bool
  | .tt => false
  | .atom i => i == a
  | .not _ => false
  | .and x y => x.forces a || y.forces a
  | .or x y => x.forces a && y.forces a

theorem Cfg.forces_sound (a : Nat) (g : Cfg) (h : g.forces a = true) (env : Nat → Bool)
    (he : g.eval env = true) : env a = true := by
  induction g with
  | tt => simp [Cfg.forces] at h
  | atom i => simp [Cfg.forces] at h; subst h; simpa [Cfg.eval] using he
  | not c _ => simp [Cfg.forces] at h
  | and x y ihx ihy =>
    simp only [Cfg.forces, Bool.or_eq_true] at h
    simp only [Cfg.eval, Bool.and_eq_true] at he
    cases h with
    | inl hx => exact ihx hx he.1
    | inr hy => exact ihy hy he.2
  | or x y ihx ihy =>
    simp only [Cfg.forces, Bool.and_eq_true] at h
    simp only [Cfg.eval, Bool.or_eq_true] at he
    cases he with
    | inl ex => exact ihx h.1 ex
    | inr ey => exact ihy h.2 ey

/-- One source item (function, struct, impl method, use, …). -/
structure Item where
  file      : Nat
  line      : Nat
  guard     : Cfg        -- conjunction of the guards of the enclosing modules, impls and the item
  alloc     : Bool       -- mentions alloc / Vec / Box / vec! / String / format!
  std       : Bool       -- mentions the `std` crate
  unsafeTok : Nat        -- `unsafe` tokens inside
deriving Repr

/-- Field types, as far as the plain-data argument needs them. -/
inductive TyF
  | prim               -- integer, bool
  | arr (t : TyF) (len : Int)
  | box (t : TyF)
  | named (id : Nat)   -- another struct / enum of the crate, by id
  | other              -- anything else (references, trait objects, generics, raw pointers, …)
deriving Repr

structure Field where
  name      : Nat
  ty        : TyF
  bigArray  : Bool       -- #[serde(with = "BigArray")] (possibly under cfg_attr(feature = "serde"))
  serdeSkip : Bool
deriving Repr

structure Struct where
  id          : Nat
  file        : Nat
  deriveClone : Bool     -- Clone derived (unconditionally or unless rustc-dep-of-std)
  deriveSerde : Bool     -- Serialize + Deserialize derived under the serde feature
  isEnum      : Bool
  unitOnly    : Bool     -- enum with field-less variants only
  fields      : List Field
deriving Repr

def findStruct (ss : List Struct) (id : Nat) : Option Struct := ss.find? (·.id == id)

/-- Plain data: integers, bool, arrays / boxes of plain data, field-less enums, structs of plain
    data. For such types the auto-trait rules give `Send + Sync + 'static` (no references, no
    interior mutability, no raw pointers). Fuel bounds the struct nesting depth. -/
def plainTy (ss : List Struct) : Nat → TyF → Bool
  | 0, _ => false
  | _ + 1, .prim => true
  | f + 1, .arr t _ => plainTy ss f t
  | f + 1, .box t => plainTy ss f t
  | _ + 1, .other => false
  | f + 1, .named id =>
    match findStruct ss id with
    | none => false
    | some s => if s.isEnum then s.unitOnly else s.fields.all (fun fl => plainTy ss f fl.ty)

def plainStruct (ss : List Struct) (s : Struct) : Bool :=
  if s.isEnum then s.unitOnly else s.fields.all (fun fl => plainTy ss 16 fl.ty)

def arrLen : TyF → Option Int
  | .arr _ n => some n
  | _ => none

/-- Reachability of files from the crate root through `mod` declarations. -/
def reachStep (decls : List (Nat × Nat)) (seen : List Nat) : List Nat :=
  decls.foldl (fun acc d => if acc.contains d.1 && !acc.contains d.2 then d.2 :: acc else acc) seen

def reachable (decls : List (Nat × Nat)) : Nat → List Nat → List Nat
  | 0, seen => seen
  | n + 1, seen => reachable decls n (reachStep decls seen)

end PT
