/-
C15 — the advertised compression bound really bounds one-shot output.
Over `mz_deflateBound` REGENERATED from the source: (1) the u64 arithmetic of the bound does not
wrap for any n < 2^56 and equals the exact formula; (2) the bound covers the two worst cases of
the block-cost abstraction of DESIGN.md §7 C15 — every byte as a 9-bit static literal plus
per-block overhead, and stored blocks of at most 31 744 payload bytes with 5 bytes of framing —
together with the zlib header and trailer. That the real engines stay within this block-cost
abstraction is NOT proved here (it needs a model of the match finder); it is checked on every run
through `mz_deflate(MZ_FINISH)` into a bound-sized buffer (oracle leg).
-/
import MinizProof.Gen.All
import MinizProof.Lemmas.GenArith
namespace C15
open Gen.CApi

theorem tdiv_nonneg_eq {a b : Int} (ha : 0 ≤ a) : Int.tdiv a b = a / b :=
  Int.tdiv_eq_ediv_of_nonneg ha

/-- No u64 wrap-around in the bound's arithmetic below 2^56 bytes: it is the exact formula. -/
theorem deflateBound_eq (s : Int) (n : Nat) (hn : n < 2 ^ 56) :
    mz_deflateBound s n = max (128 + (n:Int) * 113 / 100) (128 + (n:Int) + ((n:Int) / 31744 + 1) * 5) := by
  -- bottom-up rewriting of every wrapped u64 operation into plain arithmetic, side conditions by
  -- `omega` (so the proof does not depend on how the source spells the two terms: locals, `31 * 1024`
  -- or `31744`, order of the operands of `max`)
  unfold mz_deflateBound
  have h2 : G.mul (.u 64) (31:Int) 1024 = 31744 := by decide +kernel
  simp (disch := omega) only [Id.run, pure, h2, G.div, tdiv_nonneg_eq, G.add_u64_of_lt, G.mul_u64_of_lt] <;>
    first | rfl | (rw [Int.max_comm]) | omega

/-- Worst case of Huffman-coded output: every input byte costs 9 bits (static code, bytes ≥ 144),
    each block adds at most 2 bytes (3-bit header, 7-bit end-of-block, padding) and holds at
    least 4096 input bytes except the last, plus 2 header and 4 trailer bytes. -/
theorem covers_static_literals (s : Int) (n : Nat) (hn : n < 2 ^ 56) :
    (n:Int) + (n + 7) / 8 + 2 * (n / 4096 + 1) + 6 ≤ mz_deflateBound s n := by
  rw [deflateBound_eq s n hn]
  refine Int.le_trans ?_ (Int.le_max_left _ _)
  omega

/-- Stored output: at most 31 744 payload bytes per block, 5 bytes of framing each, plus header
    and trailer. -/
theorem covers_stored (s : Int) (n : Nat) (hn : n < 2 ^ 56) :
    (n:Int) + 5 * (n / 31744 + 1) + 6 ≤ mz_deflateBound s n := by
  rw [deflateBound_eq s n hn]
  refine Int.le_trans ?_ (Int.le_max_right _ _)
  omega

/-- The bound is at least n + 133. -/
theorem bound_ge (s : Int) (n : Nat) (hn : n < 2 ^ 56) : (n:Int) + 133 ≤ mz_deflateBound s n := by
  rw [deflateBound_eq s n hn]
  refine Int.le_trans ?_ (Int.le_max_right _ _)
  omega

example : mz_deflateBound 0 32769 = 37156 := by decide +kernel
example : (32769:Int) + (32769 + 7) / 8 + 2 * (32769 / 4096 + 1) + 6 = 36890 := by decide

/-- The bound is monotone in the input length: a buffer sized for `n` bytes is large enough for
    every shorter input (what a caller relies on when it sizes one buffer for many messages). -/
theorem bound_mono (s : Int) (m n : Nat) (h : m ≤ n) (hn : n < 2 ^ 56) :
    mz_deflateBound s m ≤ mz_deflateBound s n := by
  rw [deflateBound_eq s n hn, deflateBound_eq s m (by omega)]
  refine Int.max_le.mpr ⟨Int.le_trans ?_ (Int.le_max_left _ _), Int.le_trans ?_ (Int.le_max_right _ _)⟩ <;> omega

/-- The stream argument plays no part in the bound. -/
theorem bound_ignores_stream (s t : Int) (n : Nat) (hn : n < 2 ^ 56) :
    mz_deflateBound s n = mz_deflateBound t n := by
  rw [deflateBound_eq s n hn, deflateBound_eq t n hn]

end C15
