/-
C14 — streaming deflate obeys its status protocol and always makes progress.
Proved here over definitions REGENERATED from the source: how `deflate()`'s flush argument reaches
the compressor (None/Partial/Sync/Full/Finish unchanged, anything else None), the usage guard that
turns a non-Finish call after Finish into `BadParam` (then `MZError::Param`) and keeps a failed
compressor failed, and the status codes `deflate()` dispatches on. The protocol itself (counts,
empty output refused without side effects, progress, Finish runs to the end or a full buffer and
terminates, stream-end exactness and behaviour afterwards, usage errors) is checked per run: all
call sequences of depth 2 (quick) / 3 (thorough) over the 48-letter alphabet of the property on
5 inputs x 3 levels, each completed by repeated Finish, then random long schedules; finished
streams are decoded by the Lean reference decoder.
-/
import MinizProof.Gen.All
import MinizProof.Lemmas.Finite
import MinizProof.Lemmas.DeflStream
set_option maxRecDepth 1000000
open Fin'
namespace C14
open Gen.DeflCore Gen.Lib

theorem flush_passthrough : ∀ f ∈ MZFlush.all,
    TDEFLFlush_from_MZFlush f = (if f = MZFlush.Block then TDEFLFlush.None else f) := by
  have h : allIn MZFlush.all (fun f => TDEFLFlush_from_MZFlush f == (if f = MZFlush.Block then TDEFLFlush.None else f)) = true := by
    decide +kernel
  intro f hf
  simpa using allIn_spec h f hf

/-- After Finish, any other flush is rejected (`BadParam`), whatever the previous status;
    and once the status is not `Okay` (after `BadParam`, `PutBufFailed` or `Done`) every call is rejected. -/
theorem nonfinish_after_finish_rejected : ∀ st ∈ TDEFLStatus.all, ∀ cur ∈ TDEFLFlush.all,
    cur ≠ TDEFLFlush.Finish → guard_rejects st TDEFLFlush.Finish cur = true := by
  have h : allIn TDEFLStatus.all (fun st => allIn TDEFLFlush.all (fun cur =>
      if cur = TDEFLFlush.Finish then true else guard_rejects st TDEFLFlush.Finish cur)) = true := by decide +kernel
  intro st hst cur hc hne
  have := allIn_spec (allIn_spec h st hst) cur hc
  simpa [hne] using this

theorem failed_stays_failed : ∀ st ∈ TDEFLStatus.all, ∀ prev ∈ TDEFLFlush.all, ∀ cur ∈ TDEFLFlush.all,
    st ≠ TDEFLStatus.Okay → guard_rejects st prev cur = true := by
  have h : allIn TDEFLStatus.all (fun st => allIn TDEFLFlush.all (fun p => allIn TDEFLFlush.all (fun c =>
      if st = TDEFLStatus.Okay then true else guard_rejects st p c))) = true := by decide +kernel
  intro st hst prev hp cur hc hne
  have := allIn_spec (allIn_spec (allIn_spec h st hst) prev hp) cur hc
  simpa [hne] using this

theorem status_codes : TDEFLStatus.BadParam = -2 ∧ TDEFLStatus.PutBufFailed = -1 ∧ TDEFLStatus.Okay = 0 ∧
    TDEFLStatus.Done = 1 ∧ MZFlush.all = [0, 1, 2, 3, 4, 5] := by decide +kernel

/-! ### Protocol theorems about the model of `deflate()` (Model/DeflStream.lean), for EVERY engine
behaviour (any script of responses) and every buffer size — induction over the loop. The model is
tied to the code by replaying the recorded inner `compress` calls of every real `deflate()` call
of the run (leg K). -/
open Model.Defl

/-- The model's status and result codes are the ones REGENERATED from the source. -/
theorem codes_match_source :
    stBadParam = TDEFLStatus.BadParam ∧ stPutBufFailed = TDEFLStatus.PutBufFailed ∧ stOkay = TDEFLStatus.Okay ∧
    stDone = TDEFLStatus.Done ∧ (flNone : Int) = MZFlush.None ∧ (flFinish : Int) = MZFlush.Finish ∧
    rOk = MZStatus.Ok ∧ rStreamEnd = MZStatus.StreamEnd ∧ rBuf = MZError.Buf ∧ rStream = MZError.Stream ∧
    rParam = MZError.Param := by decide +kernel

/-- Counts never exceed the offered buffers. -/
theorem counts_bounded (prevDone : Bool) (inLen outLen flush : Nat) (script : List Resp) (r : Result) (cs) :
    deflate prevDone inLen outLen flush script = .ok r cs → r.consumed ≤ inLen ∧ r.written ≤ outLen := by
  unfold deflate
  intro h
  split at h
  · simp only [Outcome.ok.injEq] at h; obtain ⟨hr, _⟩ := h; subst hr; simp
  · split at h
    · split at h <;> (simp only [Outcome.ok.injEq] at h; obtain ⟨hr, _⟩ := h; subst hr; simp)
    · have := loop_counts flush script inLen outLen 0 0 [] r cs h; omega

/-- An empty output buffer is refused with a buffer error and without calling the engine
    (hence without side effects on the compressor). -/
theorem empty_output_refused (prevDone : Bool) (inLen flush : Nat) (script : List Resp) :
    deflate prevDone inLen 0 flush script = .ok ⟨0, 0, rBuf⟩ [] := by
  simp [deflate]

/-- A call that answers `Ok` made progress or carried a flush request. -/
theorem ok_means_progress (prevDone : Bool) (inLen outLen flush : Nat) (script : List Resp) (r : Result) (cs) :
    deflate prevDone inLen outLen flush script = .ok r cs → r.status = rOk →
    r.consumed > 0 ∨ r.written > 0 ∨ flush ≠ flNone := by
  unfold deflate
  intro h hst
  split at h
  · simp only [Outcome.ok.injEq] at h; obtain ⟨hr, _⟩ := h; subst hr; simp [rBuf, rOk] at hst
  · rename_i ho
    split at h
    · split at h <;> (simp only [Outcome.ok.injEq] at h; obtain ⟨hr, _⟩ := h; subst hr; simp [rBuf, rOk, rStreamEnd] at hst)
    · exact (loop_ok flush script inLen outLen 0 0 [] r cs (by omega) h hst).1

/-- With Finish the call keeps working until the stream ends or the output buffer is completely
    full: an `Ok` answer means every output byte was used. -/
theorem finish_fills_output (prevDone : Bool) (inLen outLen : Nat) (script : List Resp) (r : Result) (cs) :
    deflate prevDone inLen outLen flFinish script = .ok r cs → r.status = rOk → r.written = outLen := by
  unfold deflate
  intro h hst
  split at h
  · simp only [Outcome.ok.injEq] at h; obtain ⟨hr, _⟩ := h; subst hr; simp [rBuf, rOk] at hst
  · rename_i ho
    split at h
    · simp only [↓reduceIte, Outcome.ok.injEq] at h; obtain ⟨hr, _⟩ := h; subst hr; simp [rOk, rStreamEnd] at hst
    · have := (loop_ok flFinish script inLen outLen 0 0 [] r cs (by omega) h hst).2 rfl; omega

/-- After the stream has ended: Finish keeps answering stream-end with nothing consumed or
    written, anything else is a buffer error; the engine is not called. -/
theorem after_end (inLen outLen flush : Nat) (script : List Resp) (ho : 0 < outLen) :
    deflate true inLen outLen flush script =
      if flush = flFinish then .ok ⟨0, 0, rStreamEnd⟩ [] else .ok ⟨0, 0, rBuf⟩ [] := by
  unfold deflate
  have : outLen ≠ 0 := by omega
  simp [this]

/-- Stream end is reported only when the engine reported `Done` in this call (and the engine only
    does so under Finish — the guard theorems above and C02), a parameter error only when the
    engine rejected the call (`BadParam`: non-Finish after Finish, or a failed compressor). -/
theorem status_origin (inLen outLen flush : Nat) (script : List Resp) (r : Result) (cs) :
    deflate false inLen outLen flush script = .ok r cs →
    (r.status = rStreamEnd → ∃ x ∈ script, x.st = stDone) ∧
    (r.status = rParam → ∃ x ∈ script, x.st = stBadParam) := by
  unfold deflate
  intro h
  split at h
  · simp only [Outcome.ok.injEq] at h; obtain ⟨hr, _⟩ := h; subst hr; simp [rBuf, rStreamEnd, rParam]
  · simp only [Bool.false_eq_true, ↓reduceIte] at h
    have := loop_status_origin flush script inLen outLen 0 0 [] r cs h
    exact ⟨this.1, this.2.1⟩

/-- Repeating Finish terminates: one call answers within `inLen + outLen + 1` engine calls as
    long as every `Okay` response of the engine makes progress. -/
theorem call_terminates (inLen outLen flush : Nat) (script : List Resp)
    (hp : ∀ x ∈ script, (x.st = stOkay ∧ x.cin + x.cout > 0) ∨ x.st = stDone ∨ x.st = stBadParam ∨ x.st = stPutBufFailed)
    (hl : inLen + outLen + 1 ≤ script.length) : ∀ cs, deflate false inLen outLen flush script ≠ .stuck cs := by
  intro cs
  unfold deflate
  split
  · simp
  · simp only [Bool.false_eq_true, ↓reduceIte]
    exact loop_terminates flush script inLen outLen 0 0 [] hp hl cs

-- non-vacuity: a concrete engine script on which the hypotheses hold and the call ends the stream
example : deflate false 3 10 flFinish [⟨stOkay, 3, 0⟩, ⟨stDone, 0, 7⟩] = .ok ⟨3, 7, rStreamEnd⟩ [(3, 10), (0, 10)] := by
  decide
example : deflate false 3 2 flFinish [⟨stOkay, 3, 2⟩] = .ok ⟨3, 2, rOk⟩ [(3, 2)] := by decide

end C14
