/-
C14 — streaming deflate obeys its status protocol and always makes progress.
Proved here over definitions REGENERATED from the source: how `deflate()`'s flush argument reaches
the compressor (None/Partial/Sync/Full/Finish unchanged, anything else None), the usage guard that
turns a non-Finish call after Finish into `BadParam` (then `MZError::Param`) and keeps a failed
compressor failed, and the status codes `deflate()` dispatches on. The protocol itself (counts,
empty output refused without side effects, progress, Finish runs to the end or a full buffer and
terminates, stream-end exactness and behaviour afterwards, usage errors) is checked per run: all
call sequences of depth 2 (quick) / 3 (thorough) over the 48-letter alphabet of the property on
5 inputs x 3 levels, each completed by repeated Finish, then random long schedules; finished
streams are decoded by the Lean reference decoder.
-/
import MinizProof.Gen.All
import MinizProof.Lemmas.Finite
set_option maxRecDepth 1000000
open Fin'
namespace C14
open Gen.DeflCore Gen.Lib

theorem flush_passthrough : ∀ f ∈ MZFlush.all,
    TDEFLFlush_from_MZFlush f = (if f = MZFlush.Block then TDEFLFlush.None else f) := by
  have h : allIn MZFlush.all (fun f => TDEFLFlush_from_MZFlush f == (if f = MZFlush.Block then TDEFLFlush.None else f)) = true := by
    decide +kernel
  intro f hf
  simpa using allIn_spec h f hf

/-- After Finish, any other flush is rejected (`BadParam`), whatever the previous status;
    and once the status is not `Okay` (after `BadParam`, `PutBufFailed` or `Done`) every call is rejected. -/
theorem nonfinish_after_finish_rejected : ∀ st ∈ TDEFLStatus.all, ∀ cur ∈ TDEFLFlush.all,
    cur ≠ TDEFLFlush.Finish → guard_rejects st TDEFLFlush.Finish cur = true := by
  have h : allIn TDEFLStatus.all (fun st => allIn TDEFLFlush.all (fun cur =>
      if cur = TDEFLFlush.Finish then true else guard_rejects st TDEFLFlush.Finish cur)) = true := by decide +kernel
  intro st hst cur hc hne
  have := allIn_spec (allIn_spec h st hst) cur hc
  simpa [hne] using this

theorem failed_stays_failed : ∀ st ∈ TDEFLStatus.all, ∀ prev ∈ TDEFLFlush.all, ∀ cur ∈ TDEFLFlush.all,
    st ≠ TDEFLStatus.Okay → guard_rejects st prev cur = true := by
  have h : allIn TDEFLStatus.all (fun st => allIn TDEFLFlush.all (fun p => allIn TDEFLFlush.all (fun c =>
      if st = TDEFLStatus.Okay then true else guard_rejects st p c))) = true := by decide +kernel
  intro st hst prev hp cur hc hne
  have := allIn_spec (allIn_spec (allIn_spec h st hst) prev hp) cur hc
  simpa [hne] using this

theorem status_codes : TDEFLStatus.BadParam = -2 ∧ TDEFLStatus.PutBufFailed = -1 ∧ TDEFLStatus.Okay = 0 ∧
    TDEFLStatus.Done = 1 ∧ MZFlush.all = [0, 1, 2, 3, 4, 5] := by decide +kernel

end C14
