/-
C11 — the window size declared in the zlib header bounds every match distance.
Over definitions REGENERATED from the source: the header's CINFO for window_bits w is
max(w,8) − 8, and the distance bound the matchers enforce (`ParamsOxide::max_match_dist`, used by
`compress_fast` and at the `find_match` call) equals the declared window 2^(CINFO+8), for every
window_bits value `with_params` can store (it clamps to 15). That the matchers really pass this
bound is checked by the oracle leg (token trace of every emitted stream + ring decoder of exactly
the declared size).
-/
import MinizProof.Gen.All
import MinizProof.Lemmas.Finite
set_option maxRecDepth 1000000
open Fin'

namespace C11
open Gen.DeflCore Gen.Zlib

def cinfo (level wb : Nat) : Int := G.shr (.u 8) (G.idx (header_from_level level wb) 0) 4

/-- Declared window field: CINFO = max(wb, 8) − 8 ≤ 7, for all four header levels and wb ≤ 15. -/
theorem declared_window : ∀ level wb, level < 4 → wb < 16 →
    cinfo level wb = Int.ofNat (max wb 8 - 8) := by
  have h : allBelow 4 (fun l => allBelow 16 (fun w => cinfo l w == Int.ofNat (max w 8 - 8))) = true := by
    decide +kernel
  intro level wb hl hw
  simpa using allBelow_spec (allBelow_spec h level hl) wb hw

/-- The enforced distance bound is exactly the declared window: 2^max(wb,8), for every u8 value
    (values above 15 are clamped by the function itself). -/
theorem bound_is_declared : ∀ wb, wb < 256 →
    ParamsOxide_max_match_dist (Int.ofNat wb) 0 = Int.ofNat (2 ^ (min (max wb 8) 15)) := by
  have h : allBelow 256 (fun w => ParamsOxide_max_match_dist (Int.ofNat w) 0 == Int.ofNat (2 ^ (min (max w 8) 15))) = true := by
    decide +kernel
  intro wb hw
  simpa using allBelow_spec h wb hw

/-- Hence for every window_bits a compressor can hold, bound = 2^(CINFO + 8) ≤ 2^max(wb, 8). -/
theorem bound_le_declared : ∀ level wb, level < 4 → wb < 16 →
    ParamsOxide_max_match_dist (Int.ofNat wb) 0 = G.two ^ ((cinfo level wb).toNat + 8) := by
  have h : allBelow 4 (fun l => allBelow 16 (fun w =>
      ParamsOxide_max_match_dist (Int.ofNat w) 0 == G.two ^ ((cinfo l w).toNat + 8))) = true := by
    decide +kernel
  intro level wb hl hw
  simpa using allBelow_spec (allBelow_spec h level hl) wb hw

/-- Small windows (< 12) with any non-zero level and any strategy other than Huffman-only are
    routed to the run-length matcher (distance 1), never to `compress_fast`. -/
theorem small_window_routes_rle : ∀ wb level strategy, wb < 12 → level < 11 → strategy < 5 →
    level ≠ 0 → strategy ≠ 2 →
    let ls := limit_level_by_window_bits (Int.ofNat wb) (Int.ofNat level) (Int.ofNat strategy)
    let flags := create_comp_flags_from_zip_params ls.1 15 ls.2
    route flags = 2 ∧ G.band (.u 32) flags TDEFL_RLE_MATCHES ≠ 0 := by
  have h : allBelow 12 (fun w => allBelow 11 (fun l => allBelow 5 (fun s =>
      if l ≠ 0 ∧ s ≠ 2 then
        let ls := limit_level_by_window_bits (Int.ofNat w) (Int.ofNat l) (Int.ofNat s)
        let flags := create_comp_flags_from_zip_params ls.1 15 ls.2
        (route flags == 2) && (G.band (.u 32) flags TDEFL_RLE_MATCHES != 0)
      else true))) = true := by decide +kernel
  intro wb level strategy hw hl hs hl0 hs2
  have := allBelow_spec (allBelow_spec (allBelow_spec h wb hw) level hl) strategy hs
  simp only [hl0, hs2, ne_eq, not_false_eq_true, and_self, ↓reduceIte, Bool.and_eq_true, beq_iff_eq, bne_iff_ne] at this
  exact this

example : ParamsOxide_max_match_dist 12 0 = 4096 := by decide +kernel
example : cinfo 0 12 = 4 := by decide +kernel

/-- Whatever window_bits byte is stored, the enforced distance bound lies between 256 (the smallest
    window a zlib header can declare) and 32 768 (the DEFLATE maximum). -/
theorem bound_range : ∀ wb, wb < 256 →
    256 ≤ ParamsOxide_max_match_dist (Int.ofNat wb) 0 ∧ ParamsOxide_max_match_dist (Int.ofNat wb) 0 ≤ 32768 := by
  intro wb hw
  rw [bound_is_declared wb hw]
  have h1 : 2 ^ 8 ≤ 2 ^ (min (max wb 8) 15) := Nat.pow_le_pow_right (by decide) (by omega)
  have h2 : 2 ^ (min (max wb 8) 15) ≤ 2 ^ 15 := Nat.pow_le_pow_right (by decide) (by omega)
  constructor
  · exact Int.ofNat_le.mpr h1
  · exact Int.ofNat_le.mpr h2

/-- The bound never shrinks when window_bits grows. -/
theorem bound_monotone : ∀ a b, a ≤ b → b < 256 →
    ParamsOxide_max_match_dist (Int.ofNat a) 0 ≤ ParamsOxide_max_match_dist (Int.ofNat b) 0 := by
  intro a b hab hb
  rw [bound_is_declared a (by omega), bound_is_declared b hb]
  exact Int.ofNat_le.mpr (Nat.pow_le_pow_right (by decide) (by omega))

end C11
