/-
C17 — C ABI shim: same results as the Rust API, exact accounting, stays inside buffers.
Proved here over decision functions REGENERATED from the shim's source, for EVERY argument value
(symbolic, not sampled): which window_bits values `mz_deflateInit2` / `mz_inflateInit2` accept
(exactly 15 and −15), which flush values the stream calls accept, when the one-call helpers
refuse oversized lengths, and that `mz_compressBound` is `mz_deflateBound`. Accounting
(`next_in`/`avail_in`/`total_in` and the output triple move together, never beyond what was
available; misuse leaves the counters alone) is proved over the hand model of the stream wrappers
(`Model.CStream`, tied by the `CCALL` correspondence: every C stream call of the run is replayed
from the recorded `mz_stream` fields and the result of the same call on the Rust API). Equality
with the Rust API call by call, error codes for misuse expressible in C and memory accesses (buffers placed against PROT_NONE pages, a fault kills the harness and is
reported with the case announced just before) are checked per run.
What no model can exhibit: reads/writes outside the caller's ranges and unwinding across the
boundary are runtime facts about `unsafe` pointer code — exercised, not proved.
-/
import MinizProof.Gen.All
import MinizProof.Lemmas.GenArith
import MinizProof.Model.CStream
set_option maxRecDepth 1000000
namespace C17
open Gen.CApi Gen.CApiOxide Gen.Lib

/-- window_bits is accepted iff it is 15 or −15 — for every i32 value. -/
theorem window_bits_accepted (wb : Int) (h1 : -2147483648 < wb) (h2 : wb ≤ 2147483647) :
    invalid_window_bits wb = false ↔ (wb = 15 ∨ wb = -15) := by
  unfold invalid_window_bits
  have hd : Gen.Shared.MZ_DEFAULT_WINDOW_BITS = 15 := by decide +kernel
  have hneg : G.neg (.i 32) wb = -wb := by
    unfold G.neg G.wrap G.two
    simp only
    have : ((2:Int) ^ 32) = 4294967296 := by decide
    have h31 : ((2:Int) ^ (32 - 1)) = 2147483648 := by decide
    rw [this, h31]
    split <;> omega
  -- Bool to Prop, then linear arithmetic: independent of how the source spells the test
  -- (`a != D && -a != D`, `!(a == D || -a == D)`, …)
  simp only [Id.run, pure, hd, hneg, ← Bool.not_eq_true, Bool.and_eq_true, Bool.or_eq_true, Bool.not_eq_true',
    beq_iff_eq, bne_iff_ne, ne_eq]
  omega

/-- Stream calls accept exactly the flush values 0..4 — for every i32 value. -/
theorem flush_accepted (f : Int) :
    (∃ v, MZFlush_new f = G.Res.ok v) ↔ (0 ≤ f ∧ f ≤ 4) := by
  unfold MZFlush_new
  simp only [Id.run, pure, beq_iff_eq, Bool.or_eq_true]
  constructor
  · intro ⟨v, hv⟩
    repeat' split at hv
    all_goals first | omega | (simp at hv)
  · intro ⟨h0, h4⟩
    have : f = 0 ∨ f = 1 ∨ f = 2 ∨ f = 3 ∨ f = 4 := by omega
    rcases this with h | h | h | h | h <;> subst h <;> simp

/-- The one-call helpers refuse lengths that do not fit the 32-bit `avail_*` fields. -/
theorem oversize_refused (src dst : Nat) (hs : src < 2 ^ 64) (hd : dst < 2 ^ 64) :
    buffer_too_large src dst = decide (src ≥ 2 ^ 32 ∨ dst ≥ 2 ^ 32) := by
  unfold buffer_too_large
  simp only [Id.run, pure]
  unfold G.bor G.Ty.bits
  rw [G.pat_nat 64 src hs, G.pat_nat 64 dst hd]
  have hor : src ||| dst < 2 ^ 64 := Nat.or_lt_two_pow hs hd
  have hw : G.wrap (.u 64) ((src ||| dst : Nat) : Int) = ((src ||| dst : Nat) : Int) :=
    G.wrap_u_of_lt (Int.natCast_nonneg _) (by rw [G.two_pow_64]; omega)
  show decide (G.wrap (.u 64) ((src ||| dst : Nat) : Int) > 4294967295) = _
  rw [hw]
  have key : (src ||| dst ≥ 2 ^ 32) ↔ (src ≥ 2 ^ 32 ∨ dst ≥ 2 ^ 32) := by
    constructor
    · intro h
      by_cases h1 : src ≥ 2 ^ 32
      · exact Or.inl h1
      · by_cases h2 : dst ≥ 2 ^ 32
        · exact Or.inr h2
        · have := Nat.or_lt_two_pow (Nat.lt_of_not_ge h1) (Nat.lt_of_not_ge h2)
          omega
    · rintro (h | h)
      · exact Nat.le_trans h Nat.left_le_or
      · exact Nat.le_trans h Nat.right_le_or
  by_cases hk : src ||| dst ≥ 2 ^ 32
  · have := key.mp hk
    simp only [this, decide_true]
    simp only [gt_iff_lt, decide_eq_true_eq]
    omega
  · have hn : ¬ (src ≥ 2 ^ 32 ∨ dst ≥ 2 ^ 32) := fun h => hk (key.mpr h)
    simp only [hn, decide_false]
    simp only [gt_iff_lt, decide_eq_false_iff_not]
    omega

theorem codes : Gen.CApi.MZ_DEFLATED = 8 ∧ Gen.CApiOxide.MZ_DEFLATED = 8 ∧ StateTypeEnum.all = [0, 1, 2] ∧
    MZError.Stream = -2 ∧ MZError.Param = -10000 ∧ MZError.Buf = -5 := by decide +kernel

/-! ### Accounting of the stream wrappers (`Model.CStream`, `CCALL` correspondence) -/
open Model.CStream in
/-- AROUND EVERY STREAM CALL that reaches the inner Rust call, for every stream state and inner
    result that respects the slices it was given: the input pointer advances by exactly the drop in
    available input and the rise in total input (modulo 2^64, `wrapping_add`), likewise for output;
    pointer + available stays where it was (nothing beyond what was available). -/
theorem accounting_ok_path (s : CStream) (flush : Int) (inner : Inner)
    (hk : s.kindOk = true) (hs : s.hasState = true) (hi : s.inNull = false) (ho : s.outNull = false)
    (hf : flushOk flush = true) (hc : inner.consumed ≤ s.availIn) (hw : inner.written ≤ s.availOut) :
    (streamCall s flush inner).2 = inner.status ∧
    (streamCall s flush inner).1.nextIn = s.nextIn + inner.consumed ∧
    (streamCall s flush inner).1.availIn + inner.consumed = s.availIn ∧
    (streamCall s flush inner).1.totalIn = wrap64 (s.totalIn + inner.consumed) ∧
    (streamCall s flush inner).1.nextOut = s.nextOut + inner.written ∧
    (streamCall s flush inner).1.availOut + inner.written = s.availOut ∧
    (streamCall s flush inner).1.totalOut = wrap64 (s.totalOut + inner.written) ∧
    (streamCall s flush inner).1.nextIn + (streamCall s flush inner).1.availIn = s.nextIn + s.availIn ∧
    (streamCall s flush inner).1.nextOut + (streamCall s flush inner).1.availOut = s.nextOut + s.availOut := by
  unfold streamCall
  simp only [hk, hs, hi, ho, hf, Bool.not_true, Bool.false_eq_true, ↓reduceIte, Bool.or_self]
  and_intros <;> first | trivial | rfl | omega | (dsimp only; omega)

open Model.CStream in
/-- ON EVERY PATH (misuse included): neither pointer moves backwards, neither available count
    grows, and pointer + available never passes the end of what was available. -/
theorem never_beyond_available (s : CStream) (flush : Int) (inner : Inner)
    (hc : inner.consumed ≤ s.availIn) (hw : inner.written ≤ s.availOut) :
    s.nextIn ≤ (streamCall s flush inner).1.nextIn ∧ (streamCall s flush inner).1.availIn ≤ s.availIn ∧
    (streamCall s flush inner).1.nextIn + (streamCall s flush inner).1.availIn ≤ s.nextIn + s.availIn ∧
    s.nextOut ≤ (streamCall s flush inner).1.nextOut ∧ (streamCall s flush inner).1.availOut ≤ s.availOut ∧
    (streamCall s flush inner).1.nextOut + (streamCall s flush inner).1.availOut ≤ s.nextOut + s.availOut := by
  unfold streamCall writeBack
  (repeat' split) <;> (dsimp only) <;> (refine ⟨?_, ?_, ?_, ?_, ?_, ?_⟩ <;> (try split) <;> omega)

open Model.CStream in
/-- MISUSE expressible in C returns an error code and moves no pointer and no total: a stream of
    the other kind or with custom allocators (`MZ_PARAM_ERROR`, stream untouched), a missing state
    or a NULL buffer (`MZ_STREAM_ERROR`), a flush value outside 0..4 (`MZ_PARAM_ERROR`). The only
    field that may change is the length that goes with a NULL pointer, which is written back as 0. -/
theorem misuse_is_an_error (s : CStream) (flush : Int) (inner : Inner)
    (h : s.kindOk = false ∨ s.hasState = false ∨ s.inNull = true ∨ s.outNull = true ∨ flushOk flush = false) :
    ((streamCall s flush inner).2 = MZ_PARAM_ERROR ∨ (streamCall s flush inner).2 = MZ_STREAM_ERROR) ∧
    (streamCall s flush inner).1.nextIn = s.nextIn ∧ (streamCall s flush inner).1.nextOut = s.nextOut ∧
    (streamCall s flush inner).1.totalIn = s.totalIn ∧ (streamCall s flush inner).1.totalOut = s.totalOut ∧
    (s.inNull = false → (streamCall s flush inner).1.availIn = s.availIn) ∧
    (s.outNull = false → (streamCall s flush inner).1.availOut = s.availOut) := by
  unfold streamCall writeBack
  by_cases h1 : s.kindOk = true
  · by_cases h2 : s.hasState = true
    · by_cases h3 : (s.inNull || s.outNull) = true
      · simp only [h1, h2, h3, Bool.not_true, Bool.false_eq_true, ↓reduceIte]
        and_intros <;> first | trivial | rfl | exact Or.inr rfl | (intro h; simp [h])
      · by_cases h4 : flushOk flush = true
        · simp only [Bool.or_eq_true, not_or, Bool.not_eq_true] at h3
          rcases h with h | h | h | h | h
          · rw [h1] at h; exact absurd h (by decide)
          · rw [h2] at h; exact absurd h (by decide)
          · rw [h3.1] at h; exact absurd h (by decide)
          · rw [h3.2] at h; exact absurd h (by decide)
          · rw [h4] at h; exact absurd h (by decide)
        · simp only [h1, h2, h3, h4, Bool.not_true, Bool.false_eq_true, ↓reduceIte, Bool.not_false]
          and_intros <;> first | trivial | rfl | exact Or.inl rfl | (intro h; simp [h])
    · simp only [h1, h2, Bool.not_true, Bool.false_eq_true, ↓reduceIte, Bool.not_false]
      and_intros <;> first | trivial | rfl | exact Or.inr rfl | (intro h; simp [h])
  · have h1' : s.kindOk = false := by simpa using h1
    simp only [h1', Bool.not_false, ↓reduceIte]
    and_intros <;> first | trivial | rfl | exact Or.inl rfl | (intro _; trivial) | (intro _; rfl)

open Model.CStream in
/-- The flush values the model accepts are the ones the REGENERATED `MZFlush::new` accepts, for
    every i32 value. -/
theorem model_flush_is_source (f : Int) : flushOk f = true ↔ ∃ v, MZFlush_new f = G.Res.ok v := by
  rw [flush_accepted f]
  unfold flushOk
  simp

open Model.CStream in
/-- The hypotheses are satisfiable. -/
example : (streamCall ⟨1000, 10, 5, 2000, 20, 7, false, false, true, true⟩ 4 ⟨1, 10, 3⟩) =
    (⟨1010, 0, 15, 2003, 17, 10, false, false, true, true⟩, 1) := by decide +kernel

example : invalid_window_bits 15 = false := by decide +kernel
example : invalid_window_bits (-15) = false := by decide +kernel
example : invalid_window_bits 14 = true := by decide +kernel

end C17
