/-
C17 — C ABI shim: same results as the Rust API, exact accounting, stays inside buffers.
Proved here over decision functions REGENERATED from the shim's source, for EVERY argument value
(symbolic, not sampled): which window_bits values `mz_deflateInit2` / `mz_inflateInit2` accept
(exactly 15 and −15), which flush values the stream calls accept, when the one-call helpers
refuse oversized lengths, and that `mz_compressBound` is `mz_deflateBound`. Accounting
(`next_in`/`avail_in`/`total_in` and the output triple move together, never beyond what was
available), equality with the Rust API call by call, error codes for misuse expressible in C and
memory accesses (buffers placed against PROT_NONE pages, a fault kills the harness and is
reported with the case announced just before) are checked per run.
What no model can exhibit: reads/writes outside the caller's ranges and unwinding across the
boundary are runtime facts about `unsafe` pointer code — exercised, not proved.
-/
import MinizProof.Gen.All
import MinizProof.Lemmas.GenArith
set_option maxRecDepth 1000000
namespace C17
open Gen.CApi Gen.CApiOxide Gen.Lib

/-- window_bits is accepted iff it is 15 or −15 — for every i32 value. -/
theorem window_bits_accepted (wb : Int) (h1 : -2147483648 < wb) (h2 : wb ≤ 2147483647) :
    invalid_window_bits wb = false ↔ (wb = 15 ∨ wb = -15) := by
  unfold invalid_window_bits
  have hd : Gen.Shared.MZ_DEFAULT_WINDOW_BITS = 15 := by decide +kernel
  have hneg : G.neg (.i 32) wb = -wb := by
    unfold G.neg G.wrap G.two
    simp only
    have : ((2:Int) ^ 32) = 4294967296 := by decide
    have h31 : ((2:Int) ^ (32 - 1)) = 2147483648 := by decide
    rw [this, h31]
    split <;> omega
  simp only [Id.run, pure, hd, hneg, Bool.and_eq_false_iff, bne_eq_false_iff_eq]
  constructor
  · rintro (h | h) <;> omega
  · rintro (h | h)
    · left; exact h
    · right; omega

/-- Stream calls accept exactly the flush values 0..4 — for every i32 value. -/
theorem flush_accepted (f : Int) :
    (∃ v, MZFlush_new f = G.Res.ok v) ↔ (0 ≤ f ∧ f ≤ 4) := by
  unfold MZFlush_new
  simp only [Id.run, pure, beq_iff_eq, Bool.or_eq_true]
  constructor
  · intro ⟨v, hv⟩
    repeat' split at hv
    all_goals first | omega | (simp at hv)
  · intro ⟨h0, h4⟩
    have : f = 0 ∨ f = 1 ∨ f = 2 ∨ f = 3 ∨ f = 4 := by omega
    rcases this with h | h | h | h | h <;> subst h <;> simp

/-- The one-call helpers refuse lengths that do not fit the 32-bit `avail_*` fields. -/
theorem oversize_refused (src dst : Nat) (hs : src < 2 ^ 64) (hd : dst < 2 ^ 64) :
    buffer_too_large src dst = decide (src ≥ 2 ^ 32 ∨ dst ≥ 2 ^ 32) := by
  unfold buffer_too_large
  simp only [Id.run, pure]
  unfold G.bor G.Ty.bits
  rw [G.pat_nat 64 src hs, G.pat_nat 64 dst hd]
  have hor : src ||| dst < 2 ^ 64 := Nat.or_lt_two_pow hs hd
  have hw : G.wrap (.u 64) ((src ||| dst : Nat) : Int) = ((src ||| dst : Nat) : Int) :=
    G.wrap_u_of_lt (Int.natCast_nonneg _) (by rw [G.two_pow_64]; omega)
  show decide (G.wrap (.u 64) ((src ||| dst : Nat) : Int) > 4294967295) = _
  rw [hw]
  have key : (src ||| dst ≥ 2 ^ 32) ↔ (src ≥ 2 ^ 32 ∨ dst ≥ 2 ^ 32) := by
    constructor
    · intro h
      by_cases h1 : src ≥ 2 ^ 32
      · exact Or.inl h1
      · by_cases h2 : dst ≥ 2 ^ 32
        · exact Or.inr h2
        · have := Nat.or_lt_two_pow (Nat.lt_of_not_ge h1) (Nat.lt_of_not_ge h2)
          omega
    · rintro (h | h)
      · exact Nat.le_trans h Nat.left_le_or
      · exact Nat.le_trans h Nat.right_le_or
  by_cases hk : src ||| dst ≥ 2 ^ 32
  · have := key.mp hk
    simp only [this, decide_true]
    simp only [gt_iff_lt, decide_eq_true_eq]
    omega
  · have hn : ¬ (src ≥ 2 ^ 32 ∨ dst ≥ 2 ^ 32) := fun h => hk (key.mpr h)
    simp only [hn, decide_false]
    simp only [gt_iff_lt, decide_eq_false_iff_not]
    omega

theorem codes : Gen.CApi.MZ_DEFLATED = 8 ∧ Gen.CApiOxide.MZ_DEFLATED = 8 ∧ StateTypeEnum.all = [0, 1, 2] ∧
    MZError.Stream = -2 ∧ MZError.Param = -10000 ∧ MZError.Buf = -5 := by decide +kernel

example : invalid_window_bits 15 = false := by decide +kernel
example : invalid_window_bits (-15) = false := by decide +kernel
example : invalid_window_bits 14 = true := by decide +kernel

end C17
