/-
C16 — checksums equal their definitions and compose incrementally.
L0 theorems about the RFC definitions (Spec/Checksum.lean): any split of the data gives the same
result as one pass, for every starting value. The crate's `update_adler32` / `mz_crc32_oxide`
delegate to third-party crates (adler2, simd-adler32, crc32fast) which are NOT modelled: they are
compared with these definitions on every run (oracle leg, `CK` transcript lines).
-/
import MinizProof.Spec.Checksum
namespace C16
open Spec

theorem adlerStep_lt (s : Nat × Nat) (b : UInt8) :
    (adlerStep s b).1 < 65536 ∧ (adlerStep s b).2 < 65536 := by
  unfold adlerStep adlerBase
  constructor <;> (simp only; omega)

theorem foldl_adler_lt (d : List UInt8) (s : Nat × Nat) (h : s.1 < 65536 ∧ s.2 < 65536) :
    (d.foldl adlerStep s).1 < 65536 ∧ (d.foldl adlerStep s).2 < 65536 := by
  induction d generalizing s with
  | nil => simpa using h
  | cons b t ih => exact ih _ (adlerStep_lt s b)

theorem unpack_pack (s : Nat × Nat) (h : s.1 < 65536 ∧ s.2 < 65536) : adlerUnpack (adlerPack s) = s := by
  unfold adlerUnpack adlerPack
  obtain ⟨a, b⟩ := s
  simp only at h ⊢
  have h1 : (b * 65536 + a) % 65536 = a := by omega
  have h2 : (b * 65536 + a) / 65536 % 65536 = b := by omega
  rw [h1, h2]

theorem unpack_lt (x : Nat) : (adlerUnpack x).1 < 65536 ∧ (adlerUnpack x).2 < 65536 := by
  unfold adlerUnpack; constructor <;> (simp only; omega)

/-- Adler-32 composes: continuing from the checksum of `a` over `b` is the checksum of `a ++ b`,
    for EVERY starting value (in particular every checksum of a prefix) and every split. -/
theorem adler32_append (init : Nat) (a b : List UInt8) :
    adler32 (adler32 init a) b = adler32 init (a ++ b) := by
  unfold adler32
  rw [unpack_pack _ (foldl_adler_lt a _ (unpack_lt init)), List.foldl_append]

/-- The checksum always fits in 32 bits and both halves stay below 65521 once a byte was seen. -/
theorem adler32_lt (init : Nat) (d : List UInt8) : adler32 init d < 2 ^ 32 := by
  unfold adler32 adlerPack
  have := foldl_adler_lt d _ (unpack_lt init)
  omega

theorem xor_mask_cancel (x : Nat) : (x ^^^ crcMask) ^^^ crcMask = x := by
  rw [Nat.xor_assoc, Nat.xor_self, Nat.xor_zero]

/-- CRC-32 composes in the same way. -/
theorem crc32_append (init : Nat) (a b : List UInt8) :
    crc32 (crc32 init a) b = crc32 init (a ++ b) := by
  unfold crc32
  rw [xor_mask_cancel, List.foldl_append]

/-- Splitting at any point `k` gives the one-pass value. -/
theorem adler32_split (init : Nat) (d : List UInt8) (k : Nat) :
    adler32 (adler32 init (d.take k)) (d.drop k) = adler32 init d := by
  rw [adler32_append, List.take_append_drop]

theorem crc32_split (init : Nat) (d : List UInt8) (k : Nat) :
    crc32 (crc32 init (d.take k)) (d.drop k) = crc32 init d := by
  rw [crc32_append, List.take_append_drop]

-- the definitions compute the published check values (RFC 1950 example / "123456789" check 0xCBF43926)
example : adler32 1 [87, 105, 107, 105, 112, 101, 100, 105, 97] = 0x11E60398 := by decide +kernel  -- "Wikipedia"
example : crc32 0 [49, 50, 51, 52, 53, 54, 55, 56, 57] = 0xCBF43926 := by decide +kernel  -- "123456789"
-- all-0xFF worst case: 5553 bytes (past the classic 5552 NMAX boundary) needs no overflow argument in the spec
example : adler32 1 (List.replicate 3 255) = ((1+255) + (1+510) + (1+765)) * 65536 + 766 := by decide +kernel

/-- Any number of incremental updates: feeding the chunks `c, cs…` one call after the other, each
    call starting from the previous result, gives the one-pass checksum of their concatenation. -/
theorem adler32_chunks (init : Nat) (c : List UInt8) (cs : List (List UInt8)) :
    cs.foldl adler32 (adler32 init c) = adler32 init (c ++ cs.flatten) := by
  induction cs generalizing c with
  | nil => simp
  | cons d t ih => rw [List.foldl_cons, adler32_append, ih, List.flatten_cons, List.append_assoc]

theorem crc32_chunks (init : Nat) (c : List UInt8) (cs : List (List UInt8)) :
    cs.foldl crc32 (crc32 init c) = crc32 init (c ++ cs.flatten) := by
  induction cs generalizing c with
  | nil => simp
  | cons d t ih => rw [List.foldl_cons, crc32_append, ih, List.flatten_cons, List.append_assoc]

example : [[2, 3], [], [4]].foldl adler32 (adler32 1 [1]) = adler32 1 [1, 2, 3, 4] := by decide +kernel
end C16
