/-
C05 — decoding arbitrary bytes is total: no panic, no hang, counters within bounds.
Proved here over the parameter check REGENERATED from the top of `decompress_with_limit`
(`Gen.InflCore.geometry_rejects`), for EVERY buffer length and position below 2^64 (symbolically,
no enumeration): a flat buffer is refused exactly when out_pos > len; a ring buffer additionally
when its length is neither zero nor a power of two. And over `OutputBuffer::from_slice_pos_and_max`:
the write window never extends past the slice. Panic-freedom and termination of the automaton are
checked by the harness (3000+ random call histories on one decoder object with arbitrary flags,
geometries and inputs, in release and debug profiles, each call under catch_unwind and a call cap).
-/
import MinizProof.Gen.All
import MinizProof.Lemmas.GenArith
namespace C05
open Gen.InflCore

theorem satSub_one (len : Nat) (h : len < 2 ^ 64) : G.satSub (.u 64) (len : Int) 1 = ((len - 1 : Nat) : Int) := by
  unfold G.satSub G.clamp G.tyMin G.tyMax
  simp only
  have : (G.two ^ 64 - 1 : Int) = 18446744073709551615 := by rw [G.two_pow_64]; rfl
  rw [this]
  split
  · omega
  · split <;> omega

/-- Flat output buffer (TINFL_FLAG_USING_NON_WRAPPING_OUTPUT_BUF set): refused iff out_pos > len. -/
theorem geometry_flat (flags : Int) (len pos : Nat)
    (hf : (G.band (.u 32) flags TINFL_FLAG_USING_NON_WRAPPING_OUTPUT_BUF != 0) = true) :
    geometry_rejects flags len pos = decide (pos > len) := by
  unfold geometry_rejects
  simp only [Id.run, pure, hf, ↓reduceIte]
  have h1 : G.add (.u 64) (G.tyMax (.u 64)) 1 = 0 := by decide +kernel
  have h2 : G.band (.u 64) 0 (G.tyMax (.u 64)) = 0 := by decide +kernel
  rw [h1, h2]
  simp

/-- Ring output buffer (flag clear): refused iff the length is neither 0 nor a power of two, or
    out_pos > len. -/
theorem geometry_ring (flags : Int) (len pos : Nat) (hl : len < 2 ^ 64)
    (hf : (G.band (.u 32) flags TINFL_FLAG_USING_NON_WRAPPING_OUTPUT_BUF != 0) = false) :
    geometry_rejects flags len pos = true ↔ (len ≠ 0 ∧ ¬ len.isPowerOfTwo) ∨ pos > len := by
  unfold geometry_rejects
  simp only [Id.run, pure, hf, Bool.false_eq_true, ↓reduceIte]
  rw [satSub_one len hl]
  by_cases h0 : len = 0
  · subst h0
    have h1 : G.band (.u 64) (G.add (.u 64) 0 1) 0 = 0 := by decide +kernel
    simp [h1]
  · have hadd : G.add (.u 64) ((len - 1 : Nat) : Int) 1 = (len : Int) := by
      rw [G.add_u64_of_lt (by omega) (by omega)]; omega
    rw [hadd, G.band_u64_nat len (len - 1) hl (by omega)]
    have hiff := Nat.and_sub_one_eq_zero_iff_isPowerOfTwo h0
    simp only [Bool.or_eq_true, bne_iff_ne, ne_eq, decide_eq_true_eq, h0, not_false_eq_true, true_and]
    constructor
    · rintro (h | h)
      · left; intro hp; exact h (by exact_mod_cast hiff.mpr hp)
      · right; omega
    · rintro (h | h)
      · left; intro hz; exact h (hiff.mp (by exact_mod_cast hz))
      · right; omega

/-- The write window `[out_pos, max)` never extends past the slice and spans at most the budget. -/
theorem window_within_slice (len pos budget : Nat) (hl : len < 2 ^ 64) (hp : pos ≤ len) (hb : budget < 2 ^ 64) :
    Gen.OutBuf.window_end len pos budget = (((if pos + budget ≤ len then pos + budget else len) : Nat) : Int) := by
  unfold Gen.OutBuf.window_end
  simp only [Id.run, pure]
  unfold G.satAdd G.clamp G.tyMin G.tyMax
  have : (G.two ^ 64 - 1 : Int) = 18446744073709551615 := by rw [G.two_pow_64]; rfl
  simp only [this, decide_eq_true_eq]
  repeat' split
  all_goals omega

example : geometry_rejects 0 3 0 = true := by decide +kernel
example : geometry_rejects 0 32768 32768 = false := by decide +kernel
example : geometry_rejects 4 3 4 = true := by decide +kernel

end C05
