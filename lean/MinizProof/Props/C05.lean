/-
C05 — decoding arbitrary bytes is total: no panic, no hang, counters within bounds.
Proved here over the parameter check REGENERATED from the top of `decompress_with_limit`
(`Gen.InflCore.geometry_rejects`), for EVERY buffer length and position below 2^64 (symbolically,
no enumeration): a flat buffer is refused exactly when out_pos > len; a ring buffer additionally
when its length is neither zero nor a power of two. And over `OutputBuffer::from_slice_pos_and_max`:
the write window never extends past the slice. Panic-freedom and termination of the automaton are
checked by the harness (3000+ random call histories on one decoder object with arbitrary flags,
geometries and inputs, in release and debug profiles, each call under catch_unwind and a call cap).
-/
import MinizProof.Gen.All
import MinizProof.Lemmas.GenArith
import MinizProof.Lemmas.CoreCall
import MinizProof.Lemmas.CoreTotal
namespace C05
open Gen.InflCore

theorem satSub_one (len : Nat) (h : len < 2 ^ 64) : G.satSub (.u 64) (len : Int) 1 = ((len - 1 : Nat) : Int) := by
  unfold G.satSub G.clamp G.tyMin G.tyMax
  simp only
  have : (G.two ^ 64 - 1 : Int) = 18446744073709551615 := by rw [G.two_pow_64]; rfl
  rw [this]
  split
  · omega
  · split <;> omega

/-- Flat output buffer (TINFL_FLAG_USING_NON_WRAPPING_OUTPUT_BUF set): refused iff out_pos > len. -/
theorem geometry_flat (flags : Int) (len pos : Nat)
    (hf : (G.band (.u 32) flags TINFL_FLAG_USING_NON_WRAPPING_OUTPUT_BUF != 0) = true) :
    geometry_rejects flags len pos = decide (pos > len) := by
  unfold geometry_rejects
  simp only [Id.run, pure, hf, ↓reduceIte]
  have h1 : G.add (.u 64) (G.tyMax (.u 64)) 1 = 0 := by decide +kernel
  have h2 : G.band (.u 64) 0 (G.tyMax (.u 64)) = 0 := by decide +kernel
  rw [h1, h2]
  simp

/-- Ring output buffer (flag clear): refused iff the length is neither 0 nor a power of two, or
    out_pos > len. -/
theorem geometry_ring (flags : Int) (len pos : Nat) (hl : len < 2 ^ 64)
    (hf : (G.band (.u 32) flags TINFL_FLAG_USING_NON_WRAPPING_OUTPUT_BUF != 0) = false) :
    geometry_rejects flags len pos = true ↔ (len ≠ 0 ∧ ¬ len.isPowerOfTwo) ∨ pos > len := by
  unfold geometry_rejects
  simp only [Id.run, pure, hf, Bool.false_eq_true, ↓reduceIte]
  rw [satSub_one len hl]
  by_cases h0 : len = 0
  · subst h0
    have h1 : G.band (.u 64) (G.add (.u 64) 0 1) 0 = 0 := by decide +kernel
    simp [h1]
  · have hadd : G.add (.u 64) ((len - 1 : Nat) : Int) 1 = (len : Int) := by
      rw [G.add_u64_of_lt (by omega) (by omega)]; omega
    rw [hadd, G.band_u64_nat len (len - 1) hl (by omega)]
    have hiff := Nat.and_sub_one_eq_zero_iff_isPowerOfTwo h0
    simp only [Bool.or_eq_true, bne_iff_ne, ne_eq, decide_eq_true_eq, h0, not_false_eq_true, true_and]
    constructor
    · rintro (h | h)
      · left; intro hp; exact h (by exact_mod_cast hiff.mpr hp)
      · right; omega
    · rintro (h | h)
      · left; intro hz; exact h (hiff.mp (by exact_mod_cast hz))
      · right; omega

/-- The write window `[out_pos, max)` never extends past the slice and spans at most the budget. -/
theorem window_within_slice (len pos budget : Nat) (hl : len < 2 ^ 64) (hp : pos ≤ len) (hb : budget < 2 ^ 64) :
    Gen.OutBuf.window_end len pos budget = (((if pos + budget ≤ len then pos + budget else len) : Nat) : Int) := by
  unfold Gen.OutBuf.window_end
  simp only [Id.run, pure]
  unfold G.satAdd G.clamp G.tyMin G.tyMax
  have : (G.two ^ 64 - 1 : Int) = 18446744073709551615 := by rw [G.two_pow_64]; rfl
  simp only [this, decide_eq_true_eq]
  repeat' split
  all_goals omega

/-! ### The decoder model (`Model.Core.decompress`, tied to the code by the ICALL correspondence) -/
open Model.Core

/-- The model's flag test is the source's `flags & FLAG != 0` for every 32-bit flags word. -/
theorem model_flag_test_is_source (flags : Nat) (hf : flags < 2 ^ 32) :
    (G.band (.u 32) (flags : Int) TINFL_FLAG_USING_NON_WRAPPING_OUTPUT_BUF != 0) = hasFlag flags fNonWrapping := by
  have h := G.band_u32_nat flags 4 hf (by decide)
  have h4 : TINFL_FLAG_USING_NON_WRAPPING_OUTPUT_BUF = ((4 : Nat) : Int) := rfl
  rw [h4, h]
  have := G.and_two_pow_ne_zero flags 2
  unfold hasFlag fNonWrapping
  rw [Bool.eq_iff_iff]
  simp only [bne_iff_ne, ne_eq, beq_iff_eq]
  constructor
  · intro hne; exact this.mp (by intro hz; apply hne; exact_mod_cast hz)
  · intro hb hz; exact (this.mpr hb) (by exact_mod_cast hz)

/-- TIE between the hand model and the regenerated source: the geometry the model refuses is
    exactly what the parameter check at the top of `decompress_with_limit` refuses, for every
    32-bit flags word, every buffer length below 2^64 and every position. -/
theorem model_geometry_is_source (flags len pos : Nat) (hf : flags < 2 ^ 32) (hl : len < 2 ^ 64) :
    badGeometry flags len pos = geometry_rejects flags len pos := by
  have hflag := model_flag_test_is_source flags hf
  unfold badGeometry
  cases hb : hasFlag flags fNonWrapping with
  | true =>
    rw [geometry_flat flags len pos (by rw [hflag, hb])]
    simp
  | false =>
    rw [Bool.eq_iff_iff, geometry_ring flags len pos hl (by rw [hflag, hb])]
    simp only [Bool.not_false, Bool.true_and, Bool.or_eq_true, Bool.not_eq_true', decide_eq_true_eq]
    unfold isPow2OrZero
    by_cases h0 : len = 0
    · subst h0; simp
    · have hiff := @Nat.and_sub_one_eq_zero_iff_isPowerOfTwo len h0
      simp only [Bool.or_eq_false_iff, beq_eq_false_iff_ne, ne_eq, h0, not_false_eq_true, true_and]
      rw [hiff]

/-- Unusable geometry: parameter error, nothing consumed or written, decoder state and output
    buffer returned untouched. -/
theorem bad_geometry_is_param_error (r : Regs) (inp out : Array UInt8) (outPos budget flags : Nat)
    (h : badGeometry flags out.size outPos = true) :
    decompress r inp out outPos budget flags =
      { status := stBadParam, consumed := 0, written := 0, r := r, out := out } := by
  unfold decompress; rw [if_pos h]

/-- Counters are within bounds on EVERY call, from every register state (reachable or not):
    at most the offered input is reported consumed, at most the granted budget and at most the
    space behind `outPos` is reported written, and the buffer keeps its size. -/
theorem counters_within_bounds (r : Regs) (inp out : Array UInt8) (outPos budget flags : Nat) :
    let res := decompress r inp out outPos budget flags
    res.consumed ≤ inp.size ∧ res.written ≤ budget ∧ res.written ≤ out.size - outPos ∧
    res.out.size = out.size := by
  have h := decompress_facts r inp out outPos budget flags
  exact ⟨h.consumed, h.wBudget, h.room, h.size⟩

/-- Once a stream has failed it keeps failing: from any failure state a call with usable geometry
    returns `Failed` with nothing consumed or written, and stays in the same failure state. -/
theorem failed_is_sticky (r : Regs) (inp out : Array UInt8) (outPos budget flags : Nat)
    (hs : sDoneForever < r.state) (hg : badGeometry flags out.size outPos = false) :
    let res := decompress r inp out outPos budget flags
    res.status = stFailed ∧ res.consumed = 0 ∧ res.written = 0 ∧ res.r.state = r.state ∧ res.out = out := by
  have hstep : ∀ e c o, c.r = r → step e c o = .fin stFailed c o := by
    intro e c o hc
    unfold step
    rw [hc]
    exact stepAt_failed _ hs e c o
  unfold decompress
  rw [hg]
  simp only [Bool.false_eq_true, ↓reduceIte, callFuel]
  unfold run
  rw [hstep _ _ _ rfl]
  simp only [epilogue_consumed, epilogue_written, epilogue_out]
  have hx : exitStatus stFailed { r := r, inPos := 0, outPos := outPos } (min (outPos + budget) out.size) = stFailed :=
    exitStatus_of_ne _ _ _ (by decide)
  refine ⟨?_, by simp [exitUndo], by simp, ?_, ?_⟩
  · rw [epilogue_status_neg _ _ _ _ _ _ (by rw [hx]; decide), hx]
  · simp [exitState, stFailed, stBlockBoundary]
  · simp

/-- TOTALITY of the model: for EVERY register state (reachable or not), every input, every output
    buffer, position, budget and flags word, a call terminates with one of the eight real status
    codes — it never exhausts its fuel (`stModelError`). The proof is a termination measure
    (`Lemmas/CoreTotal`: unread bits, room in the window, a per-state rank below 8) that every
    non-final transition of the 24 working states strictly lowers. -/
theorem call_always_terminates (r : Regs) (inp out : Array UInt8) (outPos budget flags : Nat) :
    let st := (decompress r inp out outPos budget flags).status
    st = stBadParam ∨ st = stAdler32Mismatch ∨ st = stFailed ∨ st = stDone ∨ st = stNeedsMoreInput ∨
    st = stHasMoreOutput ∨ st = stFailedCannotMakeProgress ∨
    (st = stBlockBoundary ∧ hasFlag flags fStopOnBlockBoundary = true) := by
  intro st
  by_cases hg : badGeometry flags out.size outPos = true
  · left; show (decompress r inp out outPos budget flags).status = _
    rw [bad_geometry_is_param_error r inp out outPos budget flags hg]
  · simp only [Bool.not_eq_true] at hg
    have hfin := decompress_run_total r inp out outPos budget flags hg
    have hst : st = (decompress r inp out outPos budget flags).status := rfl
    unfold decompress at hst
    rw [hg] at hst
    simp only [Bool.false_eq_true, ↓reduceIte] at hst hfin
    generalize run _ _ _ _ = R at hst hfin
    obtain ⟨s0, c, out'⟩ := R
    simp only at hst hfin
    rcases epilogue_status flags outPos (min (outPos + budget) out.size) s0 c out' with h | h
    · rw [h] at hst
      have hx : st = stHasMoreOutput ∨ st = s0 := by
        rw [hst]; unfold exitStatus; split
        · exact Or.inl rfl
        · exact Or.inr rfl
      rcases hx with hx | hx
      · right; right; right; right; right; left; exact hx
      · rw [hx]
        rcases hfin with h1 | h1 | h1 | h1 | h1
        · right; right; right; right; right; left; exact h1.1
        · rcases eoi_cases { inp := inp, flags := flags, outLen := out.size, outEnd := min (outPos + budget) out.size } with h2 | h2
          · right; right; right; right; left; rw [h1.1, h2]
          · right; right; right; right; right; right; left; rw [h1.1, h2]
        · right; right; right; left; exact h1.1
        · right; right; left; exact h1.1
        · right; right; right; right; right; right; right; exact ⟨h1.1, h1.2⟩
    · right; left; rw [hst]; exact h.1

example : badGeometry 0 3 0 = true := by decide
example : badGeometry 4 3 4 = true := by decide
example : badGeometry 0 32768 32768 = false := by decide +kernel

example : geometry_rejects 0 3 0 = true := by decide +kernel
example : geometry_rejects 0 32768 32768 = false := by decide +kernel
example : geometry_rejects 4 3 4 = true := by decide +kernel

end C05
