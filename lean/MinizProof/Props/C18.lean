/-
C18 — reset restores fresh behaviour after any history; results are deterministic.
Decided here over the PROGRAM-TEXT facts regenerated from the source (Gen/Facts.lean: the field
list of every state struct and, for every reset method, the fields it assigns or resets):
every field of the compressor's state structs is re-initialised by `reset` except the documented
settings (flags, greedy_parsing, window_bits_max, max_probes) and the constant `loop_len`; the
full inflate reset policy covers every field of `InflateState`; `ZeroReset` leaves only the data
format; `MinReset` leaves the data format AND the 32 KiB window — the latter is the known finding
D4 (a later stream whose match reaches before its start reads old bytes). A field added to a
state struct and forgotten in its reset breaks these theorems.
That the assigned values are the fresh ones and that stale tables are never read is checked per
run: arbitrary histories (abandoned, failed, finished, misused) then reset then a different
input under a seeded schedule, compared call by call with a fresh object (all policies, the
low-level `init`, the C `mz_deflateReset`).
-/
import MinizProof.Gen.Facts
set_option maxRecDepth 1000000
namespace C18
open PT Gen.Facts

/-- Fields assigned by the reset of type `ty`, following delegation (`ZeroReset` calls `MinReset` …). -/
def assignedBy : Nat → Nat → List Nat
  | 0, _ => []
  | fuel + 1, ty =>
    (resets.filter (fun r => r.1 == ty)).flatMap (fun r => r.2.2.1 ++ r.2.2.2.flatMap (assignedBy fuel))

def fieldsOf (ty : Nat) : List Nat :=
  match findStruct structs ty with
  | some s => s.fields.map (·.name)
  | none => []

/-- Every field of `target` is assigned by the reset of `ty`, except those in `exempt`. -/
def covers (ty target : Nat) (exempt : List Nat) : Bool :=
  (fieldsOf target).all (fun f => (assignedBy 4 ty).contains f || exempt.contains f) &&
  !(fieldsOf target).isEmpty

theorem compressor_reset_covers_all_fields :
    covers ty_CompressorOxide ty_CompressorOxide [] = true ∧
    covers ty_ParamsOxide ty_ParamsOxide [fld_flags, fld_greedy_parsing, fld_window_bits_max] = true ∧
    covers ty_DictOxide ty_DictOxide [fld_max_probes, fld_loop_len] = true ∧
    covers ty_HashBuffers ty_HashBuffers [] = true := by
  decide +kernel

theorem inflate_reset_policies :
    covers ty_FullReset ty_InflateState [] = true ∧
    covers ty_ZeroReset ty_InflateState [fld_data_format] = true ∧
    covers ty_MinReset ty_InflateState [fld_dict, fld_data_format] = true ∧
    -- MinReset really does leave the window untouched (known finding D4), ZeroReset does not
    (assignedBy 4 ty_MinReset).contains fld_dict = false ∧
    (assignedBy 4 ty_ZeroReset).contains fld_dict = true := by
  decide +kernel

/-- `DecompressorOxide::init` only rewinds the automaton to `Start` (the `Start` arm then
    re-initialises the registers it reads; stale tables are overwritten before use — checked on runs). -/
theorem decoder_init_sets_state : assignedBy 4 ty_DecompressorOxide = [fld_state] := by decide +kernel

example : (fieldsOf ty_ParamsOxide).length = 18 := by decide +kernel
example : (fieldsOf ty_InflateState).length = 8 := by decide +kernel

end C18
