/-
C12 — flush points make all input so far decodable; full flush cuts history.
Proved here, about the hand-written bit-writer model (Model/BitWriter.lean, mirrored from
`OutputBufferOxide::put_bits/pad_to_bytes` and the marker arm of `flush_block`):
 * the Sync/Full marker always leaves the writer byte-aligned with nothing pending and the output
   ending in 00 00 FF FF, from ANY writer state satisfying the writer invariant (< 8 pending bits);
 * the invariant is preserved by every `put_bits` (so it holds at every flush point);
 * the Partial marker is the 10-bit empty fixed block, which the RFC reference decoder reads as
   a non-final block producing no output.
And over REGENERATED definitions: how the public flush values map onto the internal ones.
That the tokens before the marker decode to all input so far depends on the engines (contract
EngineValid): checked by the Lean reference decoder on the prefix at every flush point (oracle).
-/
import MinizProof.Lemmas.BitWriter
import MinizProof.Gen.All
import MinizProof.Spec.Inflate
import MinizProof.Lemmas.Finite
import MinizProof.Lemmas.CoreFlushPrefix
import MinizProof.Props.C10
import MinizProof.Lemmas.EncZlib
set_option maxRecDepth 1000000

namespace C12
open Model

/-- After a Sync or Full flush marker: byte-aligned, nothing pending, output ends 00 00 FF FF. -/
theorem sync_marker_aligned (w : BW) (hw : w.Inv) :
    (syncMarker w).n = 0 ∧ (syncMarker w).buf = 0 ∧ ∃ pre, (syncMarker w).out = pre ++ [0, 0, 255, 255] :=
  syncMarker_spec w hw

/-- The writer invariant holds initially and after any sequence of `put_bits` calls whose
    arguments satisfy the `assert!(bits <= (1 << len) - 1)` of the implementation. -/
theorem writer_invariant (ops : List (Nat × Nat)) (h : ∀ o ∈ ops, o.1 < 2 ^ o.2) :
    (ops.foldl (fun w o => putBits w o.1 o.2) { out := [], buf := 0, n := 0 }).Inv := by
  suffices ∀ (w : BW), w.Inv → (∀ o ∈ ops, o.1 < 2 ^ o.2) →
      (ops.foldl (fun w o => putBits w o.1 o.2) w).Inv from
    this _ ⟨by decide, by decide⟩ h
  induction ops with
  | nil => intro w hw _; simpa using hw
  | cons o t ih =>
    intro w hw ho
    exact ih (fun o' ho' => h o' (List.mem_cons_of_mem _ ho')) _
      (putBits_inv w o.1 o.2 hw (ho o (List.mem_cons_self)))
      (fun o' ho' => ho o' (List.mem_cons_of_mem _ ho'))

/-- The Partial flush marker, written from an aligned writer, is 02 00 after padding; the RFC
    reference decoder reads it as a complete non-final fixed block with no output and then runs
    out of input (so everything before it has been handed to the decoder). -/
theorem partial_marker_is_empty_fixed_block :
    (padToBytes (partialMarker { out := [], buf := 0, n := 0 })).out = [2, 0] ∧
    (match Spec.inflateSpec #[] 32768 #[2, 0] with
     | .truncated p => p.size == 0
     | _ => false) = true := by
  constructor
  · decide +kernel
  · decide +kernel

open Gen.Lib Gen.DeflCore in
/-- `deflate()` maps the public flush values onto the internal ones unchanged (None, Partial,
    Sync, Full, Finish), and the C entry points map 1 and 2 to Sync. -/
theorem flush_mapping :
    TDEFLFlush_from_MZFlush MZFlush.None = TDEFLFlush.None ∧
    TDEFLFlush_from_MZFlush MZFlush.Partial = TDEFLFlush.Partial ∧
    TDEFLFlush_from_MZFlush MZFlush.Sync = TDEFLFlush.Sync ∧
    TDEFLFlush_from_MZFlush MZFlush.Full = TDEFLFlush.Full ∧
    TDEFLFlush_from_MZFlush MZFlush.Finish = TDEFLFlush.Finish ∧
    MZFlush_new 1 = G.Res.ok MZFlush.Sync ∧ MZFlush_new 2 = G.Res.ok MZFlush.Sync ∧
    MZFlush_new 3 = G.Res.ok MZFlush.Full := by decide +kernel


/-! ### What a flush point means for a decoder (encoder specification → decoder model) -/
open Model.Core Spec in
/-- a flushed prefix of a stream: any sequence of NON-FINAL static / dynamic / stored blocks (`C10.StdBlock`)
    whose tokens are well-formed where they stand -/
def PrefixOk (maxDist : Nat) : Array UInt8 → List EncBlock → Prop
  | _, [] => True
  | out, b :: rest => b.final = false ∧ C10.StdBlock b ∧ ToksOk b.litLens b.distLens #[] maxDist out b.toks ∧
      PrefixOk maxDist (expandToks #[] out b.toks) rest

open Model.Core Spec in
/-- the reference decoder reads such a prefix block by block -/
theorem prefix_is_read_block_by_block (maxDist : Nat) (data : Array UInt8) : ∀ (bs : List EncBlock) (pos : Nat) (out : Array UInt8),
    PrefixOk maxDist out bs → HasBits data pos (blocksBits pos bs) →
    DecodesBlocks #[] maxDist data pos out (pos + (blocksBits pos bs).length) (expandBlocks #[] out bs) := by
  intro bs
  induction bs with
  | nil => intro pos out _ _; exact .nil pos out
  | cons b rest ih =>
    intro pos out hok h
    obtain ⟨hf, hstd, htok, hrest⟩ := hok
    obtain ⟨hb, hr⟩ := HasBits.append (a := b.bits pos) (b := blocksBits (pos + (b.bits pos).length) rest) h
    obtain ⟨info, hacc, hfin⟩ := (hstd.decodes maxDist).1 data (8 * data.size + 1) pos out (by omega) htok hb
    have := ih (pos + (b.bits pos).length) (expandToks #[] out b.toks) hrest hr
    have hlen : pos + (blocksBits pos (b :: rest)).length =
        pos + (b.bits pos).length + (blocksBits (pos + (b.bits pos).length) rest).length := by
      show pos + (b.bits pos ++ blocksBits (pos + (b.bits pos).length) rest).length = _
      rw [List.length_append]; omega
    rw [hlen]
    exact .cons hacc (by rw [hfin]; exact hf) this

open Model.Core Spec in
/-- A FLUSH POINT MAKES ALL INPUT SO FAR DECODABLE (decoder side, for every conforming encoder output):
    take ANY sequence of non-final static, dynamic and stored blocks (any tokens, any valid codes) whose
    bits end exactly at the end of the byte string `data` — which is what the compressor's output looks
    like right after a sync or full flush: complete blocks, the last one the empty stored block that
    pads to a byte boundary (`sync_marker_aligned`). Then ONE call of the decoder model on `data` alone
    (fresh decoder, flat buffer with a byte to spare, more input announced), with nothing further, writes
    exactly the expansion of all those blocks' tokens — all input supplied so far —, consumes every byte
    and reports "needs more input". (Encoder specification of C10 → reference decoder block by block →
    `Lemmas/CoreFlushPrefix`: the block simulation of C03 over a run of non-final blocks, then the
    block-header read that finds no input.) Whether the compressor's output at a flush point IS such a
    sequence is checked on every run (op `PFX`: the Lean reference decoder on every flush-point prefix). -/
theorem flush_point_prefix_decodes_to_all_input (data out : Array UInt8) (budget flags : Nat) (bs : List EncBlock)
    (hflat : hasFlag flags fNonWrapping = true) (hz : hasFlag flags fParseZlib = false)
    (hstop : hasFlag flags fStopOnBlockBoundary = false) (hmore : hasFlag flags fHasMoreInput = true)
    (hok : PrefixOk 32768 #[] bs) (h : HasBits data 0 (blocksBits 0 bs))
    (hend : (blocksBits 0 bs).length = 8 * data.size)
    (hroom : (expandBlocks #[] #[] bs).size < min budget out.size) :
    (decompress {} data out 0 budget flags).status = stNeedsMoreInput ∧
    (decompress {} data out 0 budget flags).consumed = data.size ∧
    (decompress {} data out 0 budget flags).written = (expandBlocks #[] #[] bs).size ∧
    (∀ i, i < (expandBlocks #[] #[] bs).size →
      (decompress {} data out 0 budget flags).out[i]? = (expandBlocks #[] #[] bs)[i]?) := by
  have hdec := prefix_is_read_block_by_block 32768 data bs 0 #[] hok h
  have hpre : out.extract 0 0 = #[] := by simp
  have := flush_prefix_flat {} data out 0 budget flags 32768 _ _ rfl ⟨rfl, rfl, rfl⟩ hflat hz hstop hmore (Nat.zero_le _)
    (by rw [hpre]; exact hdec) (by rw [Nat.zero_add]; exact hend) (by simpa using hroom)
  exact ⟨this.1, this.2.2.1, this.2.1, fun i hi => by have := this.2.2.2 i hi; rwa [Nat.zero_add] at this⟩

open Model.Core Spec in
/-- THE SAME IN ZLIB FORMAT (what `deflate()` users get): a valid header pair, then any such sequence of
    non-final blocks from bit 16 ending at the end of `data`; the decoder (zlib parsing on, any checksum
    flags) writes exactly the expansion of the blocks, consumes everything and asks for more. -/
theorem flush_point_prefix_decodes_to_all_input_zlib (cmf flg : Nat) (hc : cmf < 256) (hf : flg < 256)
    (hv : zlibHeaderValid cmf flg = true) (data out : Array UInt8) (budget flags : Nat) (bs : List EncBlock)
    (hflat : hasFlag flags fNonWrapping = true) (hz : hasFlag flags fParseZlib = true)
    (hstop : hasFlag flags fStopOnBlockBoundary = false) (hmore : hasFlag flags fHasMoreInput = true)
    (hok : PrefixOk 32768 #[] bs) (h : HasBits data 0 (bitsLE cmf 8 ++ (bitsLE flg 8 ++ blocksBits 16 bs)))
    (hend : 16 + (blocksBits 16 bs).length = 8 * data.size)
    (hroom : (expandBlocks #[] #[] bs).size < min budget out.size) :
    (decompress {} data out 0 budget flags).status = stNeedsMoreInput ∧
    (decompress {} data out 0 budget flags).consumed = data.size ∧
    (decompress {} data out 0 budget flags).written = (expandBlocks #[] #[] bs).size ∧
    (∀ i, i < (expandBlocks #[] #[] bs).size →
      (decompress {} data out 0 budget flags).out[i]? = (expandBlocks #[] #[] bs)[i]?) := by
  obtain ⟨h0, h⟩ := HasBits.append (a := bitsLE cmf 8) h
  obtain ⟨h1, hbody⟩ := h.append
  simp only [bitsLE_length, Nat.zero_add] at h1 hbody
  have d0 := byte_of_hasBits data 0 cmf hc (by simpa using h0)
  have d1 := byte_of_hasBits data 1 flg hf (by simpa using h1)
  have hdec := prefix_is_read_block_by_block 32768 data bs 16 #[] hok (by simpa using hbody)
  have hpre : out.extract 0 0 = #[] := by simp
  have := flush_prefix_flat_zlib {} data out 0 budget flags 32768 _ _ (UInt8.ofNat cmf) (UInt8.ofNat flg) rfl ⟨rfl, rfl, rfl⟩
    hflat hz hstop hmore (Nat.zero_le _) d0 d1 (by rw [ofNat_toNat_lt hc, ofNat_toNat_lt hf]; exact hv)
    (by rw [hpre]; exact hdec) hend (by simpa using hroom)
  exact ⟨this.1, this.2.2.1, this.2.1, fun i hi => by have := this.2.2.2 i hi; rwa [Nat.zero_add] at this⟩

open Model.Core Spec in
/-- the sync marker is one of these blocks, and after it the stream stands on a byte boundary whatever
    the bit position before it -/
theorem sync_marker_block_ends_on_a_byte_boundary (pos : Nat) :
    C10.StdBlock (encStored false []) ∧ (pos + ((encStored false []).bits pos).length) % 8 = 0 := by
  refine ⟨.stored false [] (by simp) (by simp), ?_⟩
  show (pos + (bitsLE 0 3 ++ (List.replicate (padLen pos) 0 ++ (bitsLE 0 16 ++ (bitsLE (65535 - 0) 16 ++ byteBits [])))).length) % 8 = 0
  simp only [List.length_append, bitsLE_length, List.length_replicate, byteBits_length, List.length_nil]
  unfold padLen
  omega

open Model.Core Spec in
theorem blocksBits_append : ∀ (bs cs : List EncBlock) (pos : Nat),
    blocksBits pos (bs ++ cs) = blocksBits pos bs ++ blocksBits (pos + (blocksBits pos bs).length) cs := by
  intro bs
  induction bs with
  | nil => intro cs pos; simp [blocksBits]
  | cons b rest ih =>
    intro cs pos
    simp only [List.cons_append, blocksBits, ih, List.append_assoc, List.length_append]
    congr 3
    omega

open Model.Core Spec in
theorem expandBlocks_append : ∀ (bs cs : List EncBlock) (out : Array UInt8),
    expandBlocks #[] out (bs ++ cs) = expandBlocks #[] (expandBlocks #[] out bs) cs := by
  intro bs
  induction bs with
  | nil => intro cs out; rfl
  | cons b rest ih => intro cs out; simp only [List.cons_append, expandBlocks, ih]

open Model.Core Spec in
theorem PrefixOk_append (maxDist : Nat) : ∀ (bs cs : List EncBlock) (out : Array UInt8),
    PrefixOk maxDist out bs → PrefixOk maxDist (expandBlocks #[] out bs) cs → PrefixOk maxDist out (bs ++ cs) := by
  intro bs
  induction bs with
  | nil => intro cs out _ h; exact h
  | cons b rest ih =>
    intro cs out h hc
    obtain ⟨h1, h2, h3, h4⟩ := h
    exact ⟨h1, h2, h3, ih cs _ h4 hc⟩

open Model.Core Spec in
/-- WHATEVER STANDS BEFORE IT, THE SYNC MARKER MAKES A FLUSH POINT: any sequence of non-final blocks
    (ending at any bit position) followed by the empty stored block is again such a sequence, ends on a
    byte boundary, and expands to the same bytes — so `flush_point_prefix_decodes_to_all_input` applies to
    the output of every sync / full flush that is a conforming encoding of the input so far. -/
theorem sync_marker_makes_a_flush_point (bs : List EncBlock) (pos : Nat) (out : Array UInt8) (hok : PrefixOk 32768 out bs) :
    PrefixOk 32768 out (bs ++ [encStored false []]) ∧
    (pos + (blocksBits pos (bs ++ [encStored false []])).length) % 8 = 0 ∧
    expandBlocks #[] out (bs ++ [encStored false []]) = expandBlocks #[] out bs := by
  refine ⟨PrefixOk_append 32768 bs _ out hok ⟨rfl, .stored false [] (by simp) (by simp), trivial, trivial⟩, ?_, ?_⟩
  · rw [blocksBits_append, List.length_append, ← Nat.add_assoc]
    have := (sync_marker_block_ends_on_a_byte_boundary (pos + (blocksBits pos bs).length)).2
    simpa [blocksBits] using this
  · rw [expandBlocks_append]
    rfl

example : ({ out := [], buf := 5, n := 3 } : BW).Inv := by unfold BW.Inv; decide
example : (syncMarker { out := [7], buf := 5, n := 3 }).out = [7, 5, 0, 0, 255, 255] := by decide +kernel

-- the hypotheses of the flush-point theorem are satisfiable: the sync marker alone (what a sync flush of
-- an empty raw compressor writes), the five bytes 00 00 00 FF FF
open Model.Core Spec in
example : PrefixOk 32768 #[] [encStored false []] ∧
    HasBits #[0, 0, 0, 255, 255] 0 (blocksBits 0 [encStored false []]) ∧
    (blocksBits 0 [encStored false []]).length = 8 * (#[0, 0, 0, 255, 255] : Array UInt8).size := by
  refine ⟨⟨rfl, .stored false [] (by simp) (by simp), trivial, trivial⟩, ?_, by decide⟩
  intro i hi
  have hl : (blocksBits 0 [encStored false []]).length = 40 := by decide
  rw [hl] at hi
  have : ∀ j : Fin 40, bitAt #[0, 0, 0, 255, 255] (0 + j.val) = some ((blocksBits 0 [encStored false []]).getD j.val 0) := by decide
  exact this ⟨i, hi⟩

end C12
