/-
C12 — flush points make all input so far decodable; full flush cuts history.
Proved here, about the hand-written bit-writer model (Model/BitWriter.lean, mirrored from
`OutputBufferOxide::put_bits/pad_to_bytes` and the marker arm of `flush_block`):
 * the Sync/Full marker always leaves the writer byte-aligned with nothing pending and the output
   ending in 00 00 FF FF, from ANY writer state satisfying the writer invariant (< 8 pending bits);
 * the invariant is preserved by every `put_bits` (so it holds at every flush point);
 * the Partial marker is the 10-bit empty fixed block, which the RFC reference decoder reads as
   a non-final block producing no output.
And over REGENERATED definitions: how the public flush values map onto the internal ones.
That the tokens before the marker decode to all input so far depends on the engines (contract
EngineValid): checked by the Lean reference decoder on the prefix at every flush point (oracle).
-/
import MinizProof.Lemmas.BitWriter
import MinizProof.Gen.All
import MinizProof.Spec.Inflate
import MinizProof.Lemmas.Finite
set_option maxRecDepth 1000000

namespace C12
open Model

/-- After a Sync or Full flush marker: byte-aligned, nothing pending, output ends 00 00 FF FF. -/
theorem sync_marker_aligned (w : BW) (hw : w.Inv) :
    (syncMarker w).n = 0 ∧ (syncMarker w).buf = 0 ∧ ∃ pre, (syncMarker w).out = pre ++ [0, 0, 255, 255] :=
  syncMarker_spec w hw

/-- The writer invariant holds initially and after any sequence of `put_bits` calls whose
    arguments satisfy the `assert!(bits <= (1 << len) - 1)` of the implementation. -/
theorem writer_invariant (ops : List (Nat × Nat)) (h : ∀ o ∈ ops, o.1 < 2 ^ o.2) :
    (ops.foldl (fun w o => putBits w o.1 o.2) { out := [], buf := 0, n := 0 }).Inv := by
  suffices ∀ (w : BW), w.Inv → (∀ o ∈ ops, o.1 < 2 ^ o.2) →
      (ops.foldl (fun w o => putBits w o.1 o.2) w).Inv from
    this _ ⟨by decide, by decide⟩ h
  induction ops with
  | nil => intro w hw _; simpa using hw
  | cons o t ih =>
    intro w hw ho
    exact ih (fun o' ho' => h o' (List.mem_cons_of_mem _ ho')) _
      (putBits_inv w o.1 o.2 hw (ho o (List.mem_cons_self)))
      (fun o' ho' => ho o' (List.mem_cons_of_mem _ ho'))

/-- The Partial flush marker, written from an aligned writer, is 02 00 after padding; the RFC
    reference decoder reads it as a complete non-final fixed block with no output and then runs
    out of input (so everything before it has been handed to the decoder). -/
theorem partial_marker_is_empty_fixed_block :
    (padToBytes (partialMarker { out := [], buf := 0, n := 0 })).out = [2, 0] ∧
    (match Spec.inflateSpec #[] 32768 #[2, 0] with
     | .truncated p => p.size == 0
     | _ => false) = true := by
  constructor
  · decide +kernel
  · decide +kernel

open Gen.Lib Gen.DeflCore in
/-- `deflate()` maps the public flush values onto the internal ones unchanged (None, Partial,
    Sync, Full, Finish), and the C entry points map 1 and 2 to Sync. -/
theorem flush_mapping :
    TDEFLFlush_from_MZFlush MZFlush.None = TDEFLFlush.None ∧
    TDEFLFlush_from_MZFlush MZFlush.Partial = TDEFLFlush.Partial ∧
    TDEFLFlush_from_MZFlush MZFlush.Sync = TDEFLFlush.Sync ∧
    TDEFLFlush_from_MZFlush MZFlush.Full = TDEFLFlush.Full ∧
    TDEFLFlush_from_MZFlush MZFlush.Finish = TDEFLFlush.Finish ∧
    MZFlush_new 1 = G.Res.ok MZFlush.Sync ∧ MZFlush_new 2 = G.Res.ok MZFlush.Sync ∧
    MZFlush_new 3 = G.Res.ok MZFlush.Full := by decide +kernel

example : ({ out := [], buf := 5, n := 3 } : BW).Inv := by unfold BW.Inv; decide
example : (syncMarker { out := [7], buf := 5, n := 3 }).out = [7, 5, 0, 0, 255, 255] := by decide +kernel

end C12
