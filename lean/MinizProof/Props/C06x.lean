/-
C06, continued — "no matter … how the input was chunked, or which entry point is used": the exact
consumed count THROUGH THE STREAMING WRAPPER `inflate()`, on the byte-level model of it
(`Model/InflBytes`, tied to the real `inflate()` by op `IFB` of the driver: status, bytes and consumed
count of every call). This file is separate from `Props/C06.lean` only because of the import order
(the wrapper theorems are built on C07, which uses C06); `bin/check C06` builds and audits both.

For the low-level decoder the single call is `C06.stream_end_consumed_exactly` /
`trailing_bytes_do_not_matter(_zlib)`, any chunking over flat calls is
`C07.valid_(zlib_)stream_under_any_schedule`, the 32 KiB ring is `C07.valid_stream_through_a_ring_to_the_end`
and `C13.valid_zlib_stream_through_a_ring_to_the_end`.
-/
import MinizProof.Props.C13

namespace C06
open Model.Core Model.InflB Spec

/-- total input consumed by the first `k + 1` calls of a session -/
def consumedUpTo (rs : List (Nat × Nat × CallRes)) (k : Nat) : Nat := ((rs.take (k + 1)).map (·.2.2.consumed)).sum

/-- RAW STREAM THROUGH `inflate()`: whatever the chunking, the output sizes, the number of calls and
    the bytes that follow the stream (`b0`, and whatever of the later chunks lies beyond the stream),
    when a call first reports stream end the calls so far have consumed exactly `⌈bitsUsed / 8⌉` bytes —
    the byte holding the last bit of the final block is consumed and nothing after it is, so the
    caller can resume parsing its container right there. -/
theorem inflate_consumes_exactly_the_raw_stream (calls : List (Array UInt8 × Nat)) (b0 : Array UInt8) (res : Inflated)
    (hspec : inflateSpec #[] 32768 (catList (calls.map Prod.fst) ++ b0) 0 = .accept res)
    (k : Nat) (hk : k < (runInfl (Model.Infl.flagIgnoreAdler + Model.Infl.flagHasMoreInput) WB.fresh #[] calls).length)
    (hfirst : ∀ j, j < k → ((runInfl (Model.Infl.flagIgnoreAdler + Model.Infl.flagHasMoreInput) WB.fresh #[] calls)[j]?.map (·.2.2.status)) ≠ some rStreamEnd)
    (hend : ((runInfl (Model.Infl.flagIgnoreAdler + Model.Infl.flagHasMoreInput) WB.fresh #[] calls)[k]?.map (·.2.2.status)) = some rStreamEnd) :
    consumedUpTo (runInfl (Model.Infl.flagIgnoreAdler + Model.Infl.flagHasMoreInput) WB.fresh #[] calls) k = (res.bitsUsed + 7) / 8 := by
  have h := (C13.safe_stream_end res.out _ _ #[] 0 (C13.valid_raw_stream_through_inflate calls b0 res hspec) k hk hfirst hend).2.1
  rw [Nat.zero_add] at h
  exact h

/-- ZLIB STREAM THROUGH `inflate()`: at the first stream end exactly header (2) + body + trailer (4)
    bytes have been consumed, whatever the chunking (cuts inside header or trailer included) and
    whatever follows. -/
theorem inflate_consumes_exactly_the_zlib_stream (calls : List (Array UInt8 × Nat)) (b0 : Array UInt8) (zr : ZInflated)
    (hspec : zlibSpec #[] 32768 (catList (calls.map Prod.fst) ++ b0) true = .accept zr)
    (k : Nat) (hk : k < (runInfl (Model.Infl.flagParseZlib + Model.Infl.flagComputeAdler + Model.Infl.flagHasMoreInput) WB.fresh #[] calls).length)
    (hfirst : ∀ j, j < k → ((runInfl (Model.Infl.flagParseZlib + Model.Infl.flagComputeAdler + Model.Infl.flagHasMoreInput) WB.fresh #[] calls)[j]?.map (·.2.2.status)) ≠ some rStreamEnd)
    (hend : ((runInfl (Model.Infl.flagParseZlib + Model.Infl.flagComputeAdler + Model.Infl.flagHasMoreInput) WB.fresh #[] calls)[k]?.map (·.2.2.status)) = some rStreamEnd) :
    consumedUpTo (runInfl (Model.Infl.flagParseZlib + Model.Infl.flagComputeAdler + Model.Infl.flagHasMoreInput) WB.fresh #[] calls) k
      = (zr.inner.bitsUsed + 7) / 8 + 4 := by
  have h := (C13.safe_stream_end zr.inner.out _ _ #[] 0 (C13.valid_zlib_stream_through_inflate calls b0 zr hspec) k hk hfirst hend).2.1
  rw [Nat.zero_add] at h
  have hl := zlib_length #[] 32768 _ zr hspec
  unfold consumedUpTo; rw [h, hl]

/-- THE ONE-SHOT USE OF THE STREAMING API (first call with `Finish`, room for the plaintext): stream
    end with exactly the encoded length consumed — raw … -/
theorem finish_first_call_consumes_exactly_raw (z out : Array UInt8) (res : Inflated)
    (hspec : inflateSpec #[] 32768 z 0 = .accept res) (hfit : res.out.size ≤ out.size) :
    (inflateFinishFirst Model.Infl.flagIgnoreAdler z out).1.status = rStreamEnd ∧
    (inflateFinishFirst Model.Infl.flagIgnoreAdler z out).1.consumed = (res.bitsUsed + 7) / 8 :=
  let h := (C13.finish_first_call_raw z out res hspec).1 hfit
  ⟨h.1, h.2.2.2⟩

/-- … and zlib. -/
theorem finish_first_call_consumes_exactly_zlib (z out : Array UInt8) (zr : ZInflated)
    (hspec : zlibSpec #[] 32768 z true = .accept zr) (hfit : zr.inner.out.size ≤ out.size) :
    (inflateFinishFirst (Model.Infl.flagParseZlib + Model.Infl.flagComputeAdler) z out).1.status = rStreamEnd ∧
    (inflateFinishFirst (Model.Infl.flagParseZlib + Model.Infl.flagComputeAdler) z out).1.consumed = (zr.inner.bitsUsed + 7) / 8 + 4 := by
  have h := (C13.finish_first_call_zlib z out zr hspec).1 hfit
  exact ⟨h.1, by rw [h.2.2.2]; exact zlib_length #[] 32768 _ zr hspec⟩

end C06
