/-
C04 — the decoder never reports success on an invalid stream.
Proved here over definitions REGENERATED from the source: the failure states are exactly the ten
states after `DoneForever` (so the automaton's catch-all `_ => Failed` arm covers exactly them);
`end_of_input` answers needs-more-input iff more input was announced and cannot-make-progress
otherwise, for every flags word; the status codes keep the sign convention the wrappers rely on
(negative = failure, 0 = done). And over the specification: what the reference decoder accepts
as a code-length set (complete, or the ≤1-bit degenerate case for literal/length and distance
codes only). Acceptance by the real automaton is compared with the reference decoder on every
run, on mutated, truncated and targeted-invalid streams (oracle leg).
-/
import MinizProof.Gen.All
import MinizProof.Spec.Inflate
import MinizProof.Lemmas.Finite
import MinizProof.Lemmas.CoreSound
import MinizProof.Lemmas.CoreConverse
import MinizProof.Lemmas.SpecFuel
import MinizProof.Lemmas.CoreFull
import MinizProof.Lemmas.CoreExt
import MinizProof.Props.C07
set_option maxRecDepth 1000000
open Fin'

namespace C04
open Gen.InflCore Gen.InflMod

theorem failure_states_exact : ∀ s ∈ State.all,
    State_is_failure s = decide (State.DoneForever < s) := by
  have h : allIn State.all (fun s => State_is_failure s == decide (State.DoneForever < s)) = true := by
    decide +kernel
  intro s hs
  simpa using allIn_spec h s hs

theorem state_numbering : State.all = (List.range 35).map Int.ofNat ∧ State.Start = 0 ∧ State.DoneForever = 24 := by
  decide +kernel

/-- Input exhausted: needs-more-input iff TINFL_FLAG_HAS_MORE_INPUT is set, for every flags byte. -/
theorem end_of_input_truthful : ∀ flags, flags < 256 →
    end_of_input (Int.ofNat flags) =
      G.Action.fin (if flags / 2 % 2 = 1 then TINFLStatus.NeedsMoreInput else TINFLStatus.FailedCannotMakeProgress) := by
  have h : allBelow 256 (fun f => end_of_input (Int.ofNat f) ==
      G.Action.fin (if f / 2 % 2 = 1 then TINFLStatus.NeedsMoreInput else TINFLStatus.FailedCannotMakeProgress)) = true := by
    decide +kernel
  intro flags hf
  simpa using allBelow_spec h flags hf

theorem status_codes :
    TINFLStatus.Done = 0 ∧ TINFLStatus.NeedsMoreInput = 1 ∧ TINFLStatus.HasMoreOutput = 2 ∧
    TINFLStatus.Failed = -1 ∧ TINFLStatus.Adler32Mismatch = -2 ∧ TINFLStatus.BadParam = -3 ∧
    TINFLStatus.FailedCannotMakeProgress = -4 := by decide +kernel

/-- Specification side: a literal/length or distance code may be incomplete only when no code is
    longer than one bit; the code-length code must be complete. Examples on both sides of the rule. -/
theorem code_validity_examples :
    Spec.codeValid .litlen #[1, 1] = true ∧ Spec.codeValid .litlen #[1] = true ∧
    Spec.codeValid .dist #[0] = true ∧ Spec.codeValid .clen #[1] = false ∧
    Spec.codeValid .litlen #[2, 2] = false ∧ Spec.codeValid .litlen #[1, 1, 1] = false ∧
    Spec.codeValid .litlen #[2, 2, 2, 2] = true ∧ Spec.codeValid .dist #[16] = false := by
  decide +kernel

/-! ### The decoder's validity checks, regenerated from the source

`init_tree` and `decompress_fast` are not translated as a whole (loops over lookup tables); the
CONDITIONS of their validity checks are: the translator finds the one `if` that leads to each failure
state and emits its condition as a predicate over the locals it reads. The theorems below pin each of
them to the rule the reference decoder (and the decoder model) applies, for every value of the locals,
so an edit to one of these checks breaks a proof whatever inputs the generators happen to produce. -/

/-- the last stage of `Spec.codeValid`: complete, or a non-code-length alphabet with no code longer than one bit -/
def specAccepts (complete isClen : Bool) (maxLen : Nat) : Bool := complete || (!isClen && decide (maxLen ≤ 1))

/-- `Spec.codeValid` factors through that rule. -/
theorem codeValid_factors (k : Spec.CodeKind) (lens : Array Nat) :
    Spec.codeValid k lens =
      (lens.all (· ≤ 15) && match Spec.kraftLeft (Spec.countLens lens) with
        | none => false
        | some l => specAccepts (l == 0) (k == .clen) (Spec.maxLen lens)) := by
  unfold Spec.codeValid specAccepts
  cases Spec.kraftLeft (Spec.countLens lens) with
  | none => rfl
  | some l =>
    cases l with
    | zero => simp
    | succ l => cases k <;> rfl

/-- THE SOURCE'S INCOMPLETE-CODE CHECK IS THE SPECIFICATION'S RULE, for every value of the three
    locals it reads (`total` = 65536 exactly for a complete code; `bt` = table index, 2 = code-length
    alphabet; `max_code_len`). -/
theorem source_incomplete_check_is_spec_rule (total bt maxLen : Nat) :
    tree_incomplete_rejects total bt maxLen = !specAccepts (total == 65536) (bt == 2) maxLen := by
  -- case analysis on the three facts the rule reads, so that the proof does not depend on how the
  -- source spells the condition (a local for "complete", `1 << 16` for 65536, `>=`/`>` …)
  unfold tree_incomplete_rejects specAccepts
  have e : G.shl (.u 32) 1 16 = 65536 := by decide
  rw [Bool.eq_iff_iff]
  simp only [Id.run, pure, e, HUFFLEN_TABLE, Bool.and_eq_true, Bool.or_eq_true, Bool.not_eq_true', ← Bool.not_eq_true,
    beq_iff_eq, bne_iff_ne, decide_eq_true_eq, ne_eq]
  omega

/-- The over-subscription check: the running Kraft remainder went negative. -/
theorem source_oversubscription_check (left : Int) : tree_oversubscribed left = decide (left < 0) := rfl

/-- The fast path's symbol checks are the specification's: literal/length symbols above 285 and
    distance symbols above 29 are rejected. -/
theorem source_symbol_checks (c s : Nat) :
    fast_litlen_invalid c = decide (c > 285) ∧ fast_dist_invalid s = decide (s > 29) := by
  unfold fast_litlen_invalid fast_dist_invalid
  constructor <;> simp <;> omega

example : tree_incomplete_rejects 32768 2 1 = true ∧ tree_incomplete_rejects 32768 0 1 = false ∧
    tree_incomplete_rejects 65536 2 7 = false ∧ tree_incomplete_rejects 49152 1 2 = true := by decide

/-! ### Over the decoder model (`Model.Core`, ICALL correspondence)

Two groups of theorems. (1) `proper_prefix_is_never_rejected`: the "conversely" clause of the property,
proved from the refinement theorem (C03), the input-split machinery (C07) and uniqueness of run
results. (2) The local acceptance conditions: each format violation the property lists sends the
automaton to a failure state (`reject_*`), failure states stop the run with `Failed`
(`failure_state_stops_run`), and stay failed (C05 `failed_is_sticky`).
(3) The global converse `done_implies_valid_raw` / `done_implies_valid_zlib` below ("Done ⇒ the consumed
bytes are a stream the reference decoder accepts, and the written bytes are its plaintext"), for one
call on a fresh decoder with a flat buffer. For other buffer modes and call schedules the C07 theorems
reduce every schedule to the single call. Acceptance by the real automaton is also compared with the
reference decoder on every run (mutated, truncated and targeted-invalid streams) and by the call replay. -/
open Model.Core Spec in
/-- A proper prefix of a valid raw stream is never rejected as corrupt: all of it is consumed and the
    answer is needs-more-input (has-more-output when the window is exactly full) if more input was
    announced, cannot-make-progress if not. -/
theorem proper_prefix_is_never_rejected (r : Regs) (a b out : Array UInt8) (outPos budget flags maxDist : Nat)
    (res : Inflated)
    (hstart : r.state = sStart) (hshape : r.rawHeader.size = 4 ∧ r.tableSizes.size = 3 ∧ r.lenCodes.size = 512)
    (hflat : hasFlag flags fNonWrapping = true) (hz : hasFlag flags fParseZlib = false)
    (hstop : hasFlag flags fStopOnBlockBoundary = false) (hpos : outPos ≤ out.size)
    (hspec : inflateSpec (out.extract 0 outPos) maxDist (a ++ b) 0 = .accept res)
    (hroom : outPos + res.out.size ≤ min (outPos + budget) out.size)
    (hproper : a.size < (res.bitsUsed + 7) / 8) :
    (decompress r a out outPos budget flags).consumed = a.size ∧
    (if hasFlag flags fHasMoreInput then
        (decompress r a out outPos budget flags).status = stNeedsMoreInput ∨
        (decompress r a out outPos budget flags).status = stHasMoreOutput
     else (decompress r a out outPos budget flags).status = stFailedCannotMakeProgress) :=
  proper_prefix_not_rejected r a b out outPos budget flags maxDist res hstart hshape hflat hz hstop hpos hspec hroom hproper

section
open Model.Core Spec
/-! ### The global converse: `Done` ⇒ valid

For EVERY input, output buffer, window and flag word (flat buffer, one call on a decoder at `Start`):
if the model of `decompress_with_limit` reports `Done`, the RFC reference decoder accepts the input,
the accepted stream is what was consumed, and its plaintext is what was written. Together with the
refinement theorems of C03 this makes `Done` EQUIVALENT to "the reference decoder accepts and the
plaintext fits the granted window". Proved by contraposition along the reference decoder's own control
structure (`Lemmas/CoreConverse`): the forward lemmas carry the model over the accepted part of the
stream; for each of the ways the reference decoder stops — 13 reject reasons, the data ending inside any
field, symbol, stored body or trailer — and for each place the granted window can run out (literal,
match, stored bytes), the model's next transitions end in a failure state, a starved exit or a full
window, never in `Done`. Two facts carry the places where the real decoder is more permissive than its
own checks suggest: a COMPLETE code-length code decodes every bit pattern (Kraft argument,
`decodeSym_complete`), so the filler symbol the real decoder would accept there never arises; and the
reference decoder never stops for lack of fuel (`Spec.inflateSpec_ne_fuel`), so "not accepted" means
rejected or truncated. -/

/-- DONE ⇒ VALID, raw DEFLATE. -/
theorem done_implies_valid_raw (r : Regs) (inp out : Array UInt8) (outPos budget flags : Nat)
    (hstart : r.state = sStart) (hshape : r.rawHeader.size = 4 ∧ r.tableSizes.size = 3 ∧ r.lenCodes.size = 512)
    (hflat : hasFlag flags fNonWrapping = true) (hz : hasFlag flags fParseZlib = false)
    (hstop : hasFlag flags fStopOnBlockBoundary = false) (hpos : outPos ≤ out.size)
    (hdone : (decompress r inp out outPos budget flags).status = stDone) :
    ∃ res, inflateSpec (out.extract 0 outPos) 32768 inp 0 = .accept res ∧
      (decompress r inp out outPos budget flags).written = res.out.size ∧
      (decompress r inp out outPos budget flags).consumed = (res.bitsUsed + 7) / 8 ∧
      (∀ i, i < res.out.size → (decompress r inp out outPos budget flags).out[outPos + i]? = res.out[i]?) := by
  rcases done_raw_flat r inp out outPos budget flags hstart hshape hflat hz hstop hpos hdone with ⟨res, hacc, hroom⟩ | hfuel
  · have := refine_raw_flat r inp out outPos budget flags 32768 res hstart hshape hflat hz hstop hpos hacc hroom
    exact ⟨res, hacc, this.2.1, this.2.2.1, this.2.2.2⟩
  · exact absurd hfuel (inflateSpec_ne_fuel _ _ _ _)

/-- `Done` is EQUIVALENT to: the reference decoder accepts and the plaintext fits the granted window. -/
theorem done_iff_valid_raw (r : Regs) (inp out : Array UInt8) (outPos budget flags : Nat)
    (hstart : r.state = sStart) (hshape : r.rawHeader.size = 4 ∧ r.tableSizes.size = 3 ∧ r.lenCodes.size = 512)
    (hflat : hasFlag flags fNonWrapping = true) (hz : hasFlag flags fParseZlib = false)
    (hstop : hasFlag flags fStopOnBlockBoundary = false) (hpos : outPos ≤ out.size) :
    (decompress r inp out outPos budget flags).status = stDone ↔
    ∃ res, inflateSpec (out.extract 0 outPos) 32768 inp 0 = .accept res ∧
      outPos + res.out.size ≤ min (outPos + budget) out.size := by
  constructor
  · intro hdone
    rcases done_raw_flat r inp out outPos budget flags hstart hshape hflat hz hstop hpos hdone with h | hfuel
    · exact h
    · exact absurd hfuel (inflateSpec_ne_fuel _ _ _ _)
  · rintro ⟨res, hacc, hroom⟩
    exact (refine_raw_flat r inp out outPos budget flags 32768 res hstart hshape hflat hz hstop hpos hacc hroom).1

/-- The property as stated: a raw stream the reference decoder does not accept is never reported `Done`. -/
theorem invalid_raw_stream_is_never_done (r : Regs) (inp out : Array UInt8) (outPos budget flags : Nat)
    (hstart : r.state = sStart) (hshape : r.rawHeader.size = 4 ∧ r.tableSizes.size = 3 ∧ r.lenCodes.size = 512)
    (hflat : hasFlag flags fNonWrapping = true) (hz : hasFlag flags fParseZlib = false)
    (hstop : hasFlag flags fStopOnBlockBoundary = false) (hpos : outPos ≤ out.size)
    (hinvalid : ∀ res, inflateSpec (out.extract 0 outPos) 32768 inp 0 ≠ .accept res) :
    (decompress r inp out outPos budget flags).status ≠ stDone := by
  intro hdone
  obtain ⟨res, hacc, _⟩ := done_implies_valid_raw r inp out outPos budget flags hstart hshape hflat hz hstop hpos hdone
  exact hinvalid res hacc

/-- DONE ⇒ VALID, zlib format: header, body and — unless the caller asked to ignore it — the Adler-32
    trailer. -/
theorem done_implies_valid_zlib (r : Regs) (inp out : Array UInt8) (outPos budget flags : Nat)
    (hstart : r.state = sStart) (hshape : r.rawHeader.size = 4 ∧ r.tableSizes.size = 3 ∧ r.lenCodes.size = 512)
    (hflat : hasFlag flags fNonWrapping = true) (hz : hasFlag flags fParseZlib = true)
    (hstop : hasFlag flags fStopOnBlockBoundary = false) (hpos : outPos ≤ out.size)
    (hdone : (decompress r inp out outPos budget flags).status = stDone) :
    ∃ zr, zlibSpec (out.extract 0 outPos) 32768 inp (!hasFlag flags fIgnoreAdler) = .accept zr ∧
      (decompress r inp out outPos budget flags).written = zr.inner.out.size ∧
      (decompress r inp out outPos budget flags).consumed = zr.bytesUsed ∧
      (∀ i, i < zr.inner.out.size → (decompress r inp out outPos budget flags).out[outPos + i]? = zr.inner.out[i]?) := by
  rcases done_zlib_flat r inp out outPos budget flags hstart hshape hflat hz hstop hpos hdone with ⟨zr, hacc, hroom⟩ | hfuel
  · obtain ⟨cmf, flg, a, b, c, d, h0, h1, hv, hi, ha, hb, hc, hd, _, hused⟩ := zlibSpec_inv hacc
    have h := refine_zlib_flat r inp out outPos budget flags 32768 zr.inner cmf flg a b c d hstart hshape hflat hz hstop
      hpos h0 h1 hv hi ha hb hc hd hroom
    exact ⟨zr, hacc, h.2.1, by rw [h.2.2.1, hused], h.2.2.2⟩
  · exact absurd hfuel (inflateSpec_ne_fuel _ _ _ _)

/-- … a zlib stream the reference decoder does not accept is never reported `Done`. -/
theorem invalid_zlib_stream_is_never_done (r : Regs) (inp out : Array UInt8) (outPos budget flags : Nat)
    (hstart : r.state = sStart) (hshape : r.rawHeader.size = 4 ∧ r.tableSizes.size = 3 ∧ r.lenCodes.size = 512)
    (hflat : hasFlag flags fNonWrapping = true) (hz : hasFlag flags fParseZlib = true)
    (hstop : hasFlag flags fStopOnBlockBoundary = false) (hpos : outPos ≤ out.size)
    (hinvalid : ∀ zr, zlibSpec (out.extract 0 outPos) 32768 inp (!hasFlag flags fIgnoreAdler) ≠ .accept zr) :
    (decompress r inp out outPos budget flags).status ≠ stDone := by
  intro hdone
  obtain ⟨zr, hacc, _⟩ := done_implies_valid_zlib r inp out outPos budget flags hstart hshape hflat hz hstop hpos hdone
  exact hinvalid zr hacc

/-- THE PREFIX CLAUSE FOR EVERY WINDOW: whatever part `a` of a stream `a ++ b` that the reference
    decoder accepts has been supplied (none, some, all of it, or more), and whatever the output window,
    the call is never reported as a failure: it is `Done`, or asks for more room, or is starved
    ("needs more input" with the more-input flag, "cannot make progress" without it). From the input
    extension lemma (a run that does not starve is the run over the longer input) and the
    window-decides-the-status theorems. -/
theorem prefix_of_valid_stream_never_fails (r : Regs) (a b out : Array UInt8) (outPos budget flags maxDist : Nat)
    (res : Inflated)
    (hstart : r.state = sStart) (hshape : r.rawHeader.size = 4 ∧ r.tableSizes.size = 3 ∧ r.lenCodes.size = 512)
    (hflat : hasFlag flags fNonWrapping = true) (hz : hasFlag flags fParseZlib = false)
    (hstop : hasFlag flags fStopOnBlockBoundary = false) (hpos : outPos ≤ out.size)
    (hspec : inflateSpec (out.extract 0 outPos) maxDist (a ++ b) 0 = .accept res) :
    (decompress r a out outPos budget flags).status = stDone ∨
    (decompress r a out outPos budget flags).status = stHasMoreOutput ∨
    (decompress r a out outPos budget flags).status = stNeedsMoreInput ∨
    (decompress r a out outPos budget flags).status = stFailedCannotMakeProgress := by
  have hg : badGeometry flags out.size outPos = false := by
    unfold badGeometry; simp [hflat]; omega
  by_cases he : isEoi (callRun r a out outPos budget flags).1 = true
  · rw [decompress_eq _ _ _ _ _ _ hg]
    rcases (epilogue_eoi flags outPos (min (outPos + budget) out.size) _ (callRun r a out outPos budget flags).2.1
      (callRun r a out outPos budget flags).2.2 he).1 with h | h | h
    · exact .inr (.inr (.inl h))
    · exact .inr (.inl h)
    · exact .inr (.inr (.inr h))
  · have hne : (callRun r a out outPos budget flags).1 ≠ endOfInput flags := by
      intro h; rw [h, eoi_isEoi] at he; exact he rfl
    rw [← decompress_ext_same r a b out outPos budget flags hne]
    by_cases hfit : outPos + res.out.size ≤ min (outPos + budget) out.size
    · exact .inl (refine_raw_flat r (a ++ b) out outPos budget flags maxDist res hstart hshape hflat hz hstop hpos hspec hfit).1
    · exact .inr (.inl (full_raw_flat r (a ++ b) out outPos budget flags maxDist res hstart hshape hflat hz hstop hpos hspec (by omega)))

/-- UNDER ANY CALL SCHEDULE (with C07): a fresh decoder fed a raw stream in any chunks with any
    non-shrinking output grants (flat buffer), whose calls before the last were suspended and whose
    last call reports `Done`, has been fed a stream the reference decoder accepts; the calls together
    wrote exactly its plaintext and consumed exactly ⌈bits/8⌉ bytes. -/
theorem done_under_any_schedule_implies_valid (flags : Nat) (calls : List (Array UInt8 × Nat)) (out : Array UInt8)
    (c : Array UInt8) (g : Nat)
    (hflat : hasFlag flags fNonWrapping = true) (hz : hasFlag flags fParseZlib = false)
    (hstop : hasFlag flags fStopOnBlockBoundary = false)
    (hmono : grantsMono ((c, g) :: calls))
    (hsus : ∀ r ∈ (runCalls flags 0 {} out 0 #[] ((c, g) :: calls)).dropLast, suspended r)
    (last : Res) (hlast : (runCalls flags 0 {} out 0 #[] ((c, g) :: calls)).getLast? = some last)
    (hdone : last.status = stDone) :
    ∃ res, inflateSpec (out.extract 0 0) 32768 (#[] ++ catChunks ((c, g) :: calls)) 0 = .accept res ∧
      sumWritten (runCalls flags 0 {} out 0 #[] ((c, g) :: calls)) = res.out.size ∧
      sumConsumed (runCalls flags 0 {} out 0 #[] ((c, g) :: calls)) = (res.bitsUsed + 7) / 8 ∧
      (∀ i, i < res.out.size → last.out[0 + i]? = res.out[i]?) := by
  have hgeo : badGeometry flags out.size 0 = false := by
    simp [badGeometry, hflat]
  obtain ⟨h1, h2, h3, h4, _⟩ := C07.any_number_of_calls_equal_one_call flags 0 calls {} out 0 #[] c g Bnd_fresh hgeo hmono hsus last hlast
  have hone : (decompress {} (#[] ++ catChunks ((c, g) :: calls)) out 0 (0 + lastGrant ((c, g) :: calls) - 0) flags).status = stDone := by
    rw [h1]; exact hdone
  obtain ⟨res, hacc, o2, o3, o4⟩ := done_implies_valid_raw {} _ out 0 _ flags rfl ⟨rfl, rfl, rfl⟩ hflat hz hstop (Nat.zero_le _) hone
  refine ⟨res, hacc, by rw [← h3]; exact o2, ?_, fun i hi => by rw [← h2]; exact o4 i hi⟩
  rw [← h4 (by rw [hone]; decide)]; exact o3

/-- The same for the zlib format (header, body and trailer cut anywhere). -/
theorem done_under_any_schedule_implies_valid_zlib (flags : Nat) (calls : List (Array UInt8 × Nat)) (out : Array UInt8)
    (c : Array UInt8) (g : Nat)
    (hflat : hasFlag flags fNonWrapping = true) (hz : hasFlag flags fParseZlib = true)
    (hstop : hasFlag flags fStopOnBlockBoundary = false)
    (hmono : grantsMono ((c, g) :: calls))
    (hsus : ∀ r ∈ (runCalls flags 0 {} out 0 #[] ((c, g) :: calls)).dropLast, suspended r)
    (last : Res) (hlast : (runCalls flags 0 {} out 0 #[] ((c, g) :: calls)).getLast? = some last)
    (hdone : last.status = stDone) :
    ∃ zr, zlibSpec (out.extract 0 0) 32768 (#[] ++ catChunks ((c, g) :: calls)) (!hasFlag flags fIgnoreAdler) = .accept zr ∧
      sumWritten (runCalls flags 0 {} out 0 #[] ((c, g) :: calls)) = zr.inner.out.size ∧
      sumConsumed (runCalls flags 0 {} out 0 #[] ((c, g) :: calls)) = zr.bytesUsed ∧
      (∀ i, i < zr.inner.out.size → last.out[0 + i]? = zr.inner.out[i]?) := by
  have hgeo : badGeometry flags out.size 0 = false := by
    simp [badGeometry, hflat]
  obtain ⟨h1, h2, h3, h4, _⟩ := C07.any_number_of_calls_equal_one_call flags 0 calls {} out 0 #[] c g Bnd_fresh hgeo hmono hsus last hlast
  have hone : (decompress {} (#[] ++ catChunks ((c, g) :: calls)) out 0 (0 + lastGrant ((c, g) :: calls) - 0) flags).status = stDone := by
    rw [h1]; exact hdone
  obtain ⟨zr, hacc, o2, o3, o4⟩ := done_implies_valid_zlib {} _ out 0 _ flags rfl ⟨rfl, rfl, rfl⟩ hflat hz hstop (Nat.zero_le _) hone
  refine ⟨zr, hacc, by rw [← h3]; exact o2, ?_, fun i hi => by rw [← h2]; exact o4 i hi⟩
  rw [← h4 (by rw [hone]; decide)]; exact o3

/-- The reference decoder's verdict is never "out of fuel": not accepted = rejected or truncated. -/
theorem reference_decoder_always_decides (pre : Array UInt8) (maxDist : Nat) (data : Array UInt8) (startBit : Nat) :
    inflateSpec pre maxDist data startBit ≠ .fuel ∧ ∀ chk, zlibSpec pre maxDist data chk ≠ .fuel :=
  ⟨inflateSpec_ne_fuel pre maxDist data startBit, fun chk => zlibSpec_ne_fuel pre maxDist data chk⟩

/-- A complete code-length code decodes every bit pattern. -/
theorem complete_code_decodes_everything (lens : Array Nat) (hv : codeValid .clen lens = true) (data : Array UInt8)
    (pos : Nat) : decodeSym (mkCode lens) data pos ≠ .invalid :=
  decodeSym_complete hv data pos

/-- the hypotheses are those of a fresh decoder -/
example : ({} : Regs).state = sStart ∧ ({} : Regs).rawHeader.size = 4 ∧ ({} : Regs).tableSizes.size = 3 ∧
    ({} : Regs).lenCodes.size = 512 := by decide
/-- the invalid stream of seeded change C04d (a code-length code with one 1-bit symbol) is rejected by the reference decoder -/
example : (match inflateSpec #[] 32768 #[0x05, 0xe0, 0x01, 0x00, 0x00, 0x00, 0x00, 0x00, 0x10, 0xb4, 0xf9, 0x9f, 0x02, 0x01] 0 with
    | .reject .clenCode => true | _ => false) = true := by
  decide +kernel
end

section
open Model.Core Spec
/-! ### Local acceptance conditions: each invalid construct sends the automaton to a failure state -/
variable {e : Model.Core.Env} {c : Model.Core.Ctx} {out : Array UInt8}

theorem failure_state_stops_run (h : sDoneForever < c.r.state) (f : Nat) :
    run e (f + 1) c out = (stFailed, c, out) := by
  rw [run]; unfold step; rw [stepAt_failed _ h]

/-- reserved block type 3 -/
theorem reject_block_type_3 {c1 : Ctx} {bits : Nat} (hs : c.r.state = sReadBlockHeader)
    (hr : readBits e.inp 3 c = (c1, some bits)) (h3 : bits / 2 % 4 = 3) :
    ∃ c', step e c out = .cont c' out ∧ c'.r.state = sBlockTypeUnexpected := by
  rw [step_ReadBlockHeader hs]; unfold stReadBlockHeader; rw [hr]
  have a : ¬ bits / 2 % 4 = 0 := by omega
  have b : ¬ bits / 2 % 4 = 1 := by omega
  have d : ¬ bits / 2 % 4 = 2 := by omega
  simp only [a, b, d, ↓reduceIte]
  exact ⟨_, rfl, rfl⟩

/-- stored block whose LEN is not the complement of NLEN -/
theorem reject_stored_len_mismatch (hs : c.r.state = sRawHeader) (hc : ¬ c.r.counter < 4)
    (hbad : (c.r.rawHeader.getD 0 0 + 256 * c.r.rawHeader.getD 1 0) +
            (c.r.rawHeader.getD 2 0 + 256 * c.r.rawHeader.getD 3 0) ≠ 65535) :
    ∃ c', step e c out = .cont c' out ∧ c'.r.state = sBadRawLength := by
  rw [step_RawHeader hs]; unfold stRawHeader
  simp only [hc, ↓reduceIte, hbad, ne_eq, not_false_eq_true]
  exact ⟨_, rfl, rfl⟩

/-- HLIT > 286 or HDIST > 30 -/
theorem reject_table_sizes (hs : c.r.state = sReadTableSizes) (hc : ¬ c.r.counter < 3)
    (hbad : ¬ (c.r.tableSizes.getD 0 0 ≤ 286 ∧ c.r.tableSizes.getD 1 0 ≤ 30)) :
    ∃ c', step e c out = .cont c' out ∧ c'.r.state = sBadDistOrLiteralTableLength := by
  rw [step_ReadTableSizes hs]; unfold stReadTableSizes
  simp only [hc, ↓reduceIte, hbad]
  exact ⟨_, rfl, rfl⟩

/-- over-subscribed or incomplete code-length code -/
theorem reject_bad_clen_code (hs : c.r.state = sReadHufflenTableCodeSize) (hc : ¬ c.r.counter < c.r.tableSizes.getD 2 0)
    (hbt : c.r.blockType = 2) (hbad : codeValid .clen c.r.clenLens = false) :
    ∃ c', step e c out = .cont c' out ∧ c'.r.state = sBadTotalSymbols := by
  rw [step_ReadHufflenTableCodeSize hs]; unfold stReadHufflenTableCodeSize
  simp only [hc, ↓reduceIte]
  unfold initTree
  simp only [hbt, ↓reduceIte, hbad, Bool.false_eq_true]
  exact ⟨_, rfl, rfl⟩

/-- over-subscribed or incomplete literal/length or distance code (other than the ≤ 1-bit case) -/
theorem reject_bad_litlen_dist_code (hs : c.r.state = sReadLitlenDistTablesCodeSize)
    (hc : c.r.counter = c.r.tableSizes.getD 0 0 + c.r.tableSizes.getD 1 0) (hbt : c.r.blockType = 2)
    (hbad : codeValid .litlen (c.r.lenCodes.extract 0 (c.r.tableSizes.getD 0 0)) = false ∨
            codeValid .dist (c.r.lenCodes.extract (c.r.tableSizes.getD 0 0)
              (c.r.tableSizes.getD 0 0 + c.r.tableSizes.getD 1 0)) = false) :
    ∃ c', step e c out = .cont c' out ∧ c'.r.state = sBadTotalSymbols := by
  rw [step_ReadLitlenDistTablesCodeSize hs]; unfold stReadLitlenDistTablesCodeSize
  have h1 : ¬ c.r.counter < c.r.tableSizes.getD 0 0 + c.r.tableSizes.getD 1 0 := by omega
  have h2 : ¬ c.r.counter ≠ c.r.tableSizes.getD 0 0 + c.r.tableSizes.getD 1 0 := by omega
  simp only [h1, h2, ↓reduceIte]
  unfold initTree
  simp only [hbt, Nat.add_one_sub_one, Nat.reduceSub, Nat.reduceEqDiff, Nat.succ_ne_self, ↓reduceIte]
  by_cases hd : codeValid .dist (c.r.lenCodes.extract (c.r.tableSizes.getD 0 0)
      (c.r.tableSizes.getD 0 0 + c.r.tableSizes.getD 1 0)) = true
  · have hl : codeValid .litlen (c.r.lenCodes.extract 0 (c.r.tableSizes.getD 0 0)) = false := by
      rcases hbad with h | h
      · exact h
      · rw [hd] at h; simp at h
    simp only [hd, Bool.not_true, Bool.false_eq_true, ↓reduceIte, hl, Bool.not_false]
    exact ⟨_, rfl, rfl⟩
  · simp only [Bool.not_eq_true] at hd
    simp only [hd, Bool.not_false, ↓reduceIte]
    exact ⟨_, rfl, rfl⟩

/-- more code lengths than HLIT + HDIST announced -/
theorem reject_code_length_overrun (hs : c.r.state = sReadLitlenDistTablesCodeSize)
    (hc : c.r.counter > c.r.tableSizes.getD 0 0 + c.r.tableSizes.getD 1 0) :
    ∃ c', step e c out = .cont c' out ∧ c'.r.state = sBadCodeSizeSum := by
  rw [step_ReadLitlenDistTablesCodeSize hs]; unfold stReadLitlenDistTablesCodeSize
  have h1 : ¬ c.r.counter < c.r.tableSizes.getD 0 0 + c.r.tableSizes.getD 1 0 := by omega
  have h2 : c.r.counter ≠ c.r.tableSizes.getD 0 0 + c.r.tableSizes.getD 1 0 := by omega
  simp only [h1, h2, ↓reduceIte, ne_eq, not_false_eq_true]
  exact ⟨_, rfl, rfl⟩

/-- repeat-previous code with no previous length -/
theorem reject_repeat_without_previous {c1 : Ctx} (hs : c.r.state = sReadLitlenDistTablesCodeSize)
    (hc : c.r.counter < c.r.tableSizes.getD 0 0 + c.r.tableSizes.getD 1 0)
    (hd : decodeHuff e.inp c.r.clenCode c = (c1, some 16)) (h0 : c1.r.counter = 0) :
    ∃ c', step e c out = .cont c' out ∧ c'.r.state = sBadCodeSizeDistPrevLookup := by
  rw [step_ReadLitlenDistTablesCodeSize hs]; unfold stReadLitlenDistTablesCodeSize
  simp only [hc, ↓reduceIte, hd, Nat.lt_irrefl, h0, and_self]
  exact ⟨_, rfl, rfl⟩

/-- literal/length symbols 286 and 287 (and the filler of an incomplete code) -/
theorem reject_bad_litlen_symbol (hs : c.r.state = sHuffDecodeOuterLoop1) (h1 : c.r.counter % 512 ≠ 256)
    (h2 : c.r.counter % 512 > 285) :
    ∃ c', step e c out = .cont c' out ∧ c'.r.state = sInvalidLitlen := by
  rw [step_HuffDecodeOuterLoop1 hs]; unfold stHuffDecodeOuterLoop1
  simp only [h1, ↓reduceIte, h2]
  exact ⟨_, rfl, rfl⟩

/-- distance symbols 30 and 31 -/
theorem reject_bad_distance_symbol {c1 : Ctx} {sym : Nat} (hs : c.r.state = sDecodeDistance)
    (hd : decodeHuff e.inp c.r.distCode c = (c1, some sym)) (h : sym > 29) :
    ∃ c', step e c out = .cont c' out ∧ c'.r.state = sInvalidDist := by
  rw [step_DecodeDistance hs]; unfold stDecodeDistance
  simp only [hd, h, ↓reduceIte]
  exact ⟨_, rfl, rfl⟩

/-- with a flat output buffer, a distance reaching before the start of the output -/
theorem reject_distance_before_start (hs : c.r.state = sHuffDecodeOuterLoop2) (hflat : e.ring = false)
    (h : c.r.dist > c.outPos) :
    ∃ c', step e c out = .cont c' out ∧ c'.r.state = sDistanceOutOfBounds := by
  rw [step_Match1 hs]; unfold stMatch
  simp only [h, hflat, Bool.not_false, and_self, true_or, ↓reduceIte]
  exact ⟨_, rfl, rfl⟩

/-- invalid zlib header (method, window field, preset dictionary, check bits) -/
theorem reject_bad_zlib_header {b : UInt8} (hs : c.r.state = sReadZlibFlg) (hb : e.inp[c.inPos]? = some b)
    (hbad : zlibHeaderValid c.r.zHeader0 b.toNat = false) :
    ∃ c', step e c out = .cont c' out ∧ c'.r.state = sBadZlibHeader := by
  rw [step_ReadZlibFlg hs]; unfold stReadZlibFlg; rw [hb]
  simp only [hbad, Bool.not_false, Bool.true_or, ↓reduceIte]
  exact ⟨_, rfl, rfl⟩

/-- all of the above are failure states -/
theorem rejection_states_are_failures :
    sDoneForever < sBlockTypeUnexpected ∧ sDoneForever < sBadRawLength ∧ sDoneForever < sBadDistOrLiteralTableLength ∧
    sDoneForever < sBadTotalSymbols ∧ sDoneForever < sBadCodeSizeSum ∧ sDoneForever < sBadCodeSizeDistPrevLookup ∧
    sDoneForever < sInvalidLitlen ∧ sDoneForever < sInvalidDist ∧ sDoneForever < sDistanceOutOfBounds ∧
    sDoneForever < sBadZlibHeader := by decide

end


end C04
