/-
C04 — the decoder never reports success on an invalid stream.
Proved here over definitions REGENERATED from the source: the failure states are exactly the ten
states after `DoneForever` (so the automaton's catch-all `_ => Failed` arm covers exactly them);
`end_of_input` answers needs-more-input iff more input was announced and cannot-make-progress
otherwise, for every flags word; the status codes keep the sign convention the wrappers rely on
(negative = failure, 0 = done). And over the specification: what the reference decoder accepts
as a code-length set (complete, or the ≤1-bit degenerate case for literal/length and distance
codes only). Acceptance by the real automaton is compared with the reference decoder on every
run, on mutated, truncated and targeted-invalid streams (oracle leg).
-/
import MinizProof.Gen.All
import MinizProof.Spec.Inflate
import MinizProof.Lemmas.Finite
import MinizProof.Lemmas.CoreSound
set_option maxRecDepth 1000000
open Fin'

namespace C04
open Gen.InflCore Gen.InflMod

theorem failure_states_exact : ∀ s ∈ State.all,
    State_is_failure s = decide (State.DoneForever < s) := by
  have h : allIn State.all (fun s => State_is_failure s == decide (State.DoneForever < s)) = true := by
    decide +kernel
  intro s hs
  simpa using allIn_spec h s hs

theorem state_numbering : State.all = (List.range 35).map Int.ofNat ∧ State.Start = 0 ∧ State.DoneForever = 24 := by
  decide +kernel

/-- Input exhausted: needs-more-input iff TINFL_FLAG_HAS_MORE_INPUT is set, for every flags byte. -/
theorem end_of_input_truthful : ∀ flags, flags < 256 →
    end_of_input (Int.ofNat flags) =
      G.Action.fin (if flags / 2 % 2 = 1 then TINFLStatus.NeedsMoreInput else TINFLStatus.FailedCannotMakeProgress) := by
  have h : allBelow 256 (fun f => end_of_input (Int.ofNat f) ==
      G.Action.fin (if f / 2 % 2 = 1 then TINFLStatus.NeedsMoreInput else TINFLStatus.FailedCannotMakeProgress)) = true := by
    decide +kernel
  intro flags hf
  simpa using allBelow_spec h flags hf

theorem status_codes :
    TINFLStatus.Done = 0 ∧ TINFLStatus.NeedsMoreInput = 1 ∧ TINFLStatus.HasMoreOutput = 2 ∧
    TINFLStatus.Failed = -1 ∧ TINFLStatus.Adler32Mismatch = -2 ∧ TINFLStatus.BadParam = -3 ∧
    TINFLStatus.FailedCannotMakeProgress = -4 := by decide +kernel

/-- Specification side: a literal/length or distance code may be incomplete only when no code is
    longer than one bit; the code-length code must be complete. Examples on both sides of the rule. -/
theorem code_validity_examples :
    Spec.codeValid .litlen #[1, 1] = true ∧ Spec.codeValid .litlen #[1] = true ∧
    Spec.codeValid .dist #[0] = true ∧ Spec.codeValid .clen #[1] = false ∧
    Spec.codeValid .litlen #[2, 2] = false ∧ Spec.codeValid .litlen #[1, 1, 1] = false ∧
    Spec.codeValid .litlen #[2, 2, 2, 2] = true ∧ Spec.codeValid .dist #[16] = false := by
  decide +kernel

/-! ### Over the decoder model (`Model.Core`, ICALL correspondence)

Two groups of theorems. (1) `proper_prefix_is_never_rejected`: the "conversely" clause of the property,
proved from the refinement theorem (C03), the input-split machinery (C07) and uniqueness of run
results. (2) The local acceptance conditions: each format violation the property lists sends the
automaton to a failure state (`reject_*`), failure states stop the run with `Failed`
(`failure_state_stops_run`), and stay failed (C05 `failed_is_sticky`).
Not yet a theorem: the global converse "Done ⇒ the consumed bytes are a stream the reference decoder
accepts"; it is checked on every run (mutated, truncated and targeted-invalid streams against the
reference decoder's verdict) and by the call replay. -/
open Model.Core Spec in
/-- A proper prefix of a valid raw stream is never rejected as corrupt: all of it is consumed and the
    answer is needs-more-input (has-more-output when the window is exactly full) if more input was
    announced, cannot-make-progress if not. -/
theorem proper_prefix_is_never_rejected (r : Regs) (a b out : Array UInt8) (outPos budget flags maxDist : Nat)
    (res : Inflated)
    (hstart : r.state = sStart) (hshape : r.rawHeader.size = 4 ∧ r.tableSizes.size = 3 ∧ r.lenCodes.size = 512)
    (hflat : hasFlag flags fNonWrapping = true) (hz : hasFlag flags fParseZlib = false)
    (hstop : hasFlag flags fStopOnBlockBoundary = false) (hpos : outPos ≤ out.size)
    (hspec : inflateSpec (out.extract 0 outPos) maxDist (a ++ b) 0 = .accept res)
    (hroom : outPos + res.out.size ≤ min (outPos + budget) out.size)
    (hproper : a.size < (res.bitsUsed + 7) / 8) :
    (decompress r a out outPos budget flags).consumed = a.size ∧
    (if hasFlag flags fHasMoreInput then
        (decompress r a out outPos budget flags).status = stNeedsMoreInput ∨
        (decompress r a out outPos budget flags).status = stHasMoreOutput
     else (decompress r a out outPos budget flags).status = stFailedCannotMakeProgress) :=
  proper_prefix_not_rejected r a b out outPos budget flags maxDist res hstart hshape hflat hz hstop hpos hspec hroom hproper

section
open Model.Core Spec
/-! ### Local acceptance conditions: each invalid construct sends the automaton to a failure state -/
variable {e : Model.Core.Env} {c : Model.Core.Ctx} {out : Array UInt8}

theorem failure_state_stops_run (h : sDoneForever < c.r.state) (f : Nat) :
    run e (f + 1) c out = (stFailed, c, out) := by
  rw [run]; unfold step; rw [stepAt_failed _ h]

/-- reserved block type 3 -/
theorem reject_block_type_3 {c1 : Ctx} {bits : Nat} (hs : c.r.state = sReadBlockHeader)
    (hr : readBits e.inp 3 c = (c1, some bits)) (h3 : bits / 2 % 4 = 3) :
    ∃ c', step e c out = .cont c' out ∧ c'.r.state = sBlockTypeUnexpected := by
  rw [step_ReadBlockHeader hs]; unfold stReadBlockHeader; rw [hr]
  have a : ¬ bits / 2 % 4 = 0 := by omega
  have b : ¬ bits / 2 % 4 = 1 := by omega
  have d : ¬ bits / 2 % 4 = 2 := by omega
  simp only [a, b, d, ↓reduceIte]
  exact ⟨_, rfl, rfl⟩

/-- stored block whose LEN is not the complement of NLEN -/
theorem reject_stored_len_mismatch (hs : c.r.state = sRawHeader) (hc : ¬ c.r.counter < 4)
    (hbad : (c.r.rawHeader.getD 0 0 + 256 * c.r.rawHeader.getD 1 0) +
            (c.r.rawHeader.getD 2 0 + 256 * c.r.rawHeader.getD 3 0) ≠ 65535) :
    ∃ c', step e c out = .cont c' out ∧ c'.r.state = sBadRawLength := by
  rw [step_RawHeader hs]; unfold stRawHeader
  simp only [hc, ↓reduceIte, hbad, ne_eq, not_false_eq_true]
  exact ⟨_, rfl, rfl⟩

/-- HLIT > 286 or HDIST > 30 -/
theorem reject_table_sizes (hs : c.r.state = sReadTableSizes) (hc : ¬ c.r.counter < 3)
    (hbad : ¬ (c.r.tableSizes.getD 0 0 ≤ 286 ∧ c.r.tableSizes.getD 1 0 ≤ 30)) :
    ∃ c', step e c out = .cont c' out ∧ c'.r.state = sBadDistOrLiteralTableLength := by
  rw [step_ReadTableSizes hs]; unfold stReadTableSizes
  simp only [hc, ↓reduceIte, hbad]
  exact ⟨_, rfl, rfl⟩

/-- over-subscribed or incomplete code-length code -/
theorem reject_bad_clen_code (hs : c.r.state = sReadHufflenTableCodeSize) (hc : ¬ c.r.counter < c.r.tableSizes.getD 2 0)
    (hbt : c.r.blockType = 2) (hbad : codeValid .clen c.r.clenLens = false) :
    ∃ c', step e c out = .cont c' out ∧ c'.r.state = sBadTotalSymbols := by
  rw [step_ReadHufflenTableCodeSize hs]; unfold stReadHufflenTableCodeSize
  simp only [hc, ↓reduceIte]
  unfold initTree
  simp only [hbt, ↓reduceIte, hbad, Bool.false_eq_true]
  exact ⟨_, rfl, rfl⟩

/-- over-subscribed or incomplete literal/length or distance code (other than the ≤ 1-bit case) -/
theorem reject_bad_litlen_dist_code (hs : c.r.state = sReadLitlenDistTablesCodeSize)
    (hc : c.r.counter = c.r.tableSizes.getD 0 0 + c.r.tableSizes.getD 1 0) (hbt : c.r.blockType = 2)
    (hbad : codeValid .litlen (c.r.lenCodes.extract 0 (c.r.tableSizes.getD 0 0)) = false ∨
            codeValid .dist (c.r.lenCodes.extract (c.r.tableSizes.getD 0 0)
              (c.r.tableSizes.getD 0 0 + c.r.tableSizes.getD 1 0)) = false) :
    ∃ c', step e c out = .cont c' out ∧ c'.r.state = sBadTotalSymbols := by
  rw [step_ReadLitlenDistTablesCodeSize hs]; unfold stReadLitlenDistTablesCodeSize
  have h1 : ¬ c.r.counter < c.r.tableSizes.getD 0 0 + c.r.tableSizes.getD 1 0 := by omega
  have h2 : ¬ c.r.counter ≠ c.r.tableSizes.getD 0 0 + c.r.tableSizes.getD 1 0 := by omega
  simp only [h1, h2, ↓reduceIte]
  unfold initTree
  simp only [hbt, Nat.add_one_sub_one, Nat.reduceSub, Nat.reduceEqDiff, Nat.succ_ne_self, ↓reduceIte]
  by_cases hd : codeValid .dist (c.r.lenCodes.extract (c.r.tableSizes.getD 0 0)
      (c.r.tableSizes.getD 0 0 + c.r.tableSizes.getD 1 0)) = true
  · have hl : codeValid .litlen (c.r.lenCodes.extract 0 (c.r.tableSizes.getD 0 0)) = false := by
      rcases hbad with h | h
      · exact h
      · rw [hd] at h; simp at h
    simp only [hd, Bool.not_true, Bool.false_eq_true, ↓reduceIte, hl, Bool.not_false]
    exact ⟨_, rfl, rfl⟩
  · simp only [Bool.not_eq_true] at hd
    simp only [hd, Bool.not_false, ↓reduceIte]
    exact ⟨_, rfl, rfl⟩

/-- more code lengths than HLIT + HDIST announced -/
theorem reject_code_length_overrun (hs : c.r.state = sReadLitlenDistTablesCodeSize)
    (hc : c.r.counter > c.r.tableSizes.getD 0 0 + c.r.tableSizes.getD 1 0) :
    ∃ c', step e c out = .cont c' out ∧ c'.r.state = sBadCodeSizeSum := by
  rw [step_ReadLitlenDistTablesCodeSize hs]; unfold stReadLitlenDistTablesCodeSize
  have h1 : ¬ c.r.counter < c.r.tableSizes.getD 0 0 + c.r.tableSizes.getD 1 0 := by omega
  have h2 : c.r.counter ≠ c.r.tableSizes.getD 0 0 + c.r.tableSizes.getD 1 0 := by omega
  simp only [h1, h2, ↓reduceIte, ne_eq, not_false_eq_true]
  exact ⟨_, rfl, rfl⟩

/-- repeat-previous code with no previous length -/
theorem reject_repeat_without_previous {c1 : Ctx} (hs : c.r.state = sReadLitlenDistTablesCodeSize)
    (hc : c.r.counter < c.r.tableSizes.getD 0 0 + c.r.tableSizes.getD 1 0)
    (hd : decodeHuff e.inp c.r.clenCode c = (c1, some 16)) (h0 : c1.r.counter = 0) :
    ∃ c', step e c out = .cont c' out ∧ c'.r.state = sBadCodeSizeDistPrevLookup := by
  rw [step_ReadLitlenDistTablesCodeSize hs]; unfold stReadLitlenDistTablesCodeSize
  simp only [hc, ↓reduceIte, hd, Nat.lt_irrefl, h0, and_self]
  exact ⟨_, rfl, rfl⟩

/-- literal/length symbols 286 and 287 (and the filler of an incomplete code) -/
theorem reject_bad_litlen_symbol (hs : c.r.state = sHuffDecodeOuterLoop1) (h1 : c.r.counter % 512 ≠ 256)
    (h2 : c.r.counter % 512 > 285) :
    ∃ c', step e c out = .cont c' out ∧ c'.r.state = sInvalidLitlen := by
  rw [step_HuffDecodeOuterLoop1 hs]; unfold stHuffDecodeOuterLoop1
  simp only [h1, ↓reduceIte, h2]
  exact ⟨_, rfl, rfl⟩

/-- distance symbols 30 and 31 -/
theorem reject_bad_distance_symbol {c1 : Ctx} {sym : Nat} (hs : c.r.state = sDecodeDistance)
    (hd : decodeHuff e.inp c.r.distCode c = (c1, some sym)) (h : sym > 29) :
    ∃ c', step e c out = .cont c' out ∧ c'.r.state = sInvalidDist := by
  rw [step_DecodeDistance hs]; unfold stDecodeDistance
  simp only [hd, h, ↓reduceIte]
  exact ⟨_, rfl, rfl⟩

/-- with a flat output buffer, a distance reaching before the start of the output -/
theorem reject_distance_before_start (hs : c.r.state = sHuffDecodeOuterLoop2) (hflat : e.ring = false)
    (h : c.r.dist > c.outPos) :
    ∃ c', step e c out = .cont c' out ∧ c'.r.state = sDistanceOutOfBounds := by
  rw [step_Match1 hs]; unfold stMatch
  simp only [h, hflat, Bool.not_false, and_self, true_or, ↓reduceIte]
  exact ⟨_, rfl, rfl⟩

/-- invalid zlib header (method, window field, preset dictionary, check bits) -/
theorem reject_bad_zlib_header {b : UInt8} (hs : c.r.state = sReadZlibFlg) (hb : e.inp[c.inPos]? = some b)
    (hbad : zlibHeaderValid c.r.zHeader0 b.toNat = false) :
    ∃ c', step e c out = .cont c' out ∧ c'.r.state = sBadZlibHeader := by
  rw [step_ReadZlibFlg hs]; unfold stReadZlibFlg; rw [hb]
  simp only [hbad, Bool.not_false, Bool.true_or, ↓reduceIte]
  exact ⟨_, rfl, rfl⟩

/-- all of the above are failure states -/
theorem rejection_states_are_failures :
    sDoneForever < sBlockTypeUnexpected ∧ sDoneForever < sBadRawLength ∧ sDoneForever < sBadDistOrLiteralTableLength ∧
    sDoneForever < sBadTotalSymbols ∧ sDoneForever < sBadCodeSizeSum ∧ sDoneForever < sBadCodeSizeDistPrevLookup ∧
    sDoneForever < sInvalidLitlen ∧ sDoneForever < sInvalidDist ∧ sDoneForever < sDistanceOutOfBounds ∧
    sDoneForever < sBadZlibHeader := by decide

end


end C04
