/-
C04 — the decoder never reports success on an invalid stream.
Proved here over definitions REGENERATED from the source: the failure states are exactly the ten
states after `DoneForever` (so the automaton's catch-all `_ => Failed` arm covers exactly them);
`end_of_input` answers needs-more-input iff more input was announced and cannot-make-progress
otherwise, for every flags word; the status codes keep the sign convention the wrappers rely on
(negative = failure, 0 = done). And over the specification: what the reference decoder accepts
as a code-length set (complete, or the ≤1-bit degenerate case for literal/length and distance
codes only). Acceptance by the real automaton is compared with the reference decoder on every
run, on mutated, truncated and targeted-invalid streams (oracle leg).
-/
import MinizProof.Gen.All
import MinizProof.Spec.Inflate
import MinizProof.Lemmas.Finite
set_option maxRecDepth 1000000
open Fin'

namespace C04
open Gen.InflCore Gen.InflMod

theorem failure_states_exact : ∀ s ∈ State.all,
    State_is_failure s = decide (State.DoneForever < s) := by
  have h : allIn State.all (fun s => State_is_failure s == decide (State.DoneForever < s)) = true := by
    decide +kernel
  intro s hs
  simpa using allIn_spec h s hs

theorem state_numbering : State.all = (List.range 35).map Int.ofNat ∧ State.Start = 0 ∧ State.DoneForever = 24 := by
  decide +kernel

/-- Input exhausted: needs-more-input iff TINFL_FLAG_HAS_MORE_INPUT is set, for every flags byte. -/
theorem end_of_input_truthful : ∀ flags, flags < 256 →
    end_of_input (Int.ofNat flags) =
      G.Action.fin (if flags / 2 % 2 = 1 then TINFLStatus.NeedsMoreInput else TINFLStatus.FailedCannotMakeProgress) := by
  have h : allBelow 256 (fun f => end_of_input (Int.ofNat f) ==
      G.Action.fin (if f / 2 % 2 = 1 then TINFLStatus.NeedsMoreInput else TINFLStatus.FailedCannotMakeProgress)) = true := by
    decide +kernel
  intro flags hf
  simpa using allBelow_spec h flags hf

theorem status_codes :
    TINFLStatus.Done = 0 ∧ TINFLStatus.NeedsMoreInput = 1 ∧ TINFLStatus.HasMoreOutput = 2 ∧
    TINFLStatus.Failed = -1 ∧ TINFLStatus.Adler32Mismatch = -2 ∧ TINFLStatus.BadParam = -3 ∧
    TINFLStatus.FailedCannotMakeProgress = -4 := by decide +kernel

/-- Specification side: a literal/length or distance code may be incomplete only when no code is
    longer than one bit; the code-length code must be complete. Examples on both sides of the rule. -/
theorem code_validity_examples :
    Spec.codeValid .litlen #[1, 1] = true ∧ Spec.codeValid .litlen #[1] = true ∧
    Spec.codeValid .dist #[0] = true ∧ Spec.codeValid .clen #[1] = false ∧
    Spec.codeValid .litlen #[2, 2] = false ∧ Spec.codeValid .litlen #[1, 1, 1] = false ∧
    Spec.codeValid .litlen #[2, 2, 2, 2] = true ∧ Spec.codeValid .dist #[16] = false := by
  decide +kernel

end C04
