/-
C02 — streaming compression is lossless under every call schedule and configuration.
Proved here: the usage guard of `compress_inner` (Finish is sticky; a failed compressor stays
failed), over the guard REGENERATED from the source. Staging (`flush_output_buffer`) and the
engines are covered by the model/oracle legs; see DESIGN.md §7 C02 for what remains by contract.
-/
import MinizProof.Gen.All
import MinizProof.Lemmas.Finite
set_option maxRecDepth 1000000
open Fin'

namespace C02
open Gen.DeflCore

/-- The guard rejects exactly when the previous call did not end `Okay`, or Finish was requested
    earlier and the current request is not Finish — for all 4 statuses × 8 × 8 flush modes. -/
theorem finish_sticky_guard :
    ∀ st ∈ TDEFLStatus.all, ∀ prev ∈ TDEFLFlush.all, ∀ cur ∈ TDEFLFlush.all,
      guard_rejects st prev cur =
        (st != TDEFLStatus.Okay || (prev == TDEFLFlush.Finish && cur != TDEFLFlush.Finish)) := by
  have h : allIn TDEFLStatus.all (fun st => allIn TDEFLFlush.all (fun prev => allIn TDEFLFlush.all (fun cur =>
      guard_rejects st prev cur ==
        (st != TDEFLStatus.Okay || (prev == TDEFLFlush.Finish && cur != TDEFLFlush.Finish))))) = true := by
    decide +kernel
  intro st hst prev hp cur hc
  have := allIn_spec (allIn_spec (allIn_spec h st hst) prev hp) cur hc
  simpa using this

/-- A legal schedule (previous status Okay, Finish kept once issued) is never rejected. -/
theorem legal_never_rejected :
    ∀ prev ∈ TDEFLFlush.all, ∀ cur ∈ TDEFLFlush.all,
      (prev = TDEFLFlush.Finish → cur = TDEFLFlush.Finish) →
      guard_rejects TDEFLStatus.Okay prev cur = false := by
  intro prev hp cur hc hlegal
  rw [finish_sticky_guard _ (by decide +kernel) prev hp cur hc]
  by_cases h : prev = TDEFLFlush.Finish
  · simp [h, hlegal h]
  · simp [h]

/-- The eight flush modes and four statuses have the discriminants the C header documents. -/
theorem discriminants :
    TDEFLFlush.all = [0, 1, 2, 3, 4, 5, 6, 7] ∧ TDEFLStatus.all = [-2, -1, 0, 1] := by decide +kernel

example : guard_rejects TDEFLStatus.Okay TDEFLFlush.Finish TDEFLFlush.None = true := by decide +kernel
example : guard_rejects TDEFLStatus.Okay TDEFLFlush.Sync TDEFLFlush.Finish = false := by decide +kernel

end C02
