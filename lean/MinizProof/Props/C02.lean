/-
C02 — streaming compression is lossless under every call schedule and configuration.
Proved here: the usage guard of `compress_inner` (Finish is sticky; a failed compressor stays
failed), over the guard REGENERATED from the source. Staging (`flush_output_buffer`) and the
engines are covered by the model/oracle legs; see DESIGN.md §7 C02 for what remains by contract.
-/
import MinizProof.Gen.All
import MinizProof.Gen.Facts
import MinizProof.Lemmas.Finite
import MinizProof.Lemmas.DeflOut
set_option maxRecDepth 1000000
open Fin'

namespace C02
open Gen.DeflCore

/-- The guard rejects exactly when the previous call did not end `Okay`, or Finish was requested
    earlier and the current request is not Finish — for all 4 statuses × 8 × 8 flush modes. -/
theorem finish_sticky_guard :
    ∀ st ∈ TDEFLStatus.all, ∀ prev ∈ TDEFLFlush.all, ∀ cur ∈ TDEFLFlush.all,
      guard_rejects st prev cur =
        (st != TDEFLStatus.Okay || (prev == TDEFLFlush.Finish && cur != TDEFLFlush.Finish)) := by
  have h : allIn TDEFLStatus.all (fun st => allIn TDEFLFlush.all (fun prev => allIn TDEFLFlush.all (fun cur =>
      guard_rejects st prev cur ==
        (st != TDEFLStatus.Okay || (prev == TDEFLFlush.Finish && cur != TDEFLFlush.Finish))))) = true := by
    decide +kernel
  intro st hst prev hp cur hc
  have := allIn_spec (allIn_spec (allIn_spec h st hst) prev hp) cur hc
  simpa using this

/-- A legal schedule (previous status Okay, Finish kept once issued) is never rejected. -/
theorem legal_never_rejected :
    ∀ prev ∈ TDEFLFlush.all, ∀ cur ∈ TDEFLFlush.all,
      (prev = TDEFLFlush.Finish → cur = TDEFLFlush.Finish) →
      guard_rejects TDEFLStatus.Okay prev cur = false := by
  intro prev hp cur hc hlegal
  rw [finish_sticky_guard _ (by decide +kernel) prev hp cur hc]
  by_cases h : prev = TDEFLFlush.Finish
  · simp [h, hlegal h]
  · simp [h]

/-- The eight flush modes and four statuses have the discriminants the C header documents. -/
theorem discriminants :
    TDEFLFlush.all = [0, 1, 2, 3, 4, 5, 6, 7] ∧ TDEFLStatus.all = [-2, -1, 0, 1] := by decide +kernel

def maxOf (a : Array Int) : Int := a.foldl max 0

/-- `compress_lz_codes` accumulates codes in a 64-bit buffer and flushes whole bytes after each
    group, leaving at most 7 bits pending. With the code-size limits REGENERATED from the calls to
    `optimize_table`, the extra-bit tables and the literal batch size of the source, the largest
    group (a batch of literals, or one length + distance pair with their extra bits) always fits:
    7 + max(batch·15, 15 + 5 + 15 + 13) ≤ 64. A larger batch silently drops bits in release builds. -/
theorem lz_bitbuffer_never_overflows :
    let codeMax := max (maxOf DYN_CODE_SIZE_LIMITS) (maxOf STATIC_CODE_SIZE_LIMITS)
    7 + max (LZ_LITERAL_BATCH * codeMax)
            (codeMax + maxOf LEN_EXTRA + codeMax + max (maxOf SMALL_DIST_EXTRA) (maxOf LARGE_DIST_EXTRA)) ≤ 64 ∧
    codeMax ≤ 15 ∧ G.idx DYN_CODE_SIZE_LIMITS 2 ≤ 7 := by decide +kernel

/-- The token engines append to the 64 KiB LZ code buffer (`lz.codes`, indexed through `as u16`, so an
    overflow wraps silently onto the first flag byte) and hand the block over as soon as
    `code_position > LZ_CODE_BUF_SIZE - N`. With N and the number of code bytes written per recorded
    literal / match REGENERATED from the source: between two such tests `compress_normal` records at
    most one deferred literal and one match (plus at most one new flag byte: a flag byte serves 8
    codes), `compress_fast` one literal or one match; from every position that passes the test, every
    byte such a step writes lies inside the buffer — for every position, symbolically. -/
theorem lz_code_buffer_never_overflows :
    (∀ N ∈ LZ_TIGHT_SLACK_NORMAL.toList, ∀ pos : Int, 0 ≤ pos → pos ≤ Gen.Buffer.LZ_CODE_BUF_SIZE - N →
        pos + (RECORD_LITERAL_CODES + RECORD_MATCH_CODES + 1) ≤ Gen.Buffer.LZ_CODE_BUF_SIZE) ∧
    (∀ N ∈ LZ_TIGHT_SLACK_FAST.toList, ∀ pos : Int, 0 ≤ pos → pos ≤ Gen.Buffer.LZ_CODE_BUF_SIZE - N →
        pos + (max RECORD_LITERAL_CODES RECORD_MATCH_CODES + 1) ≤ Gen.Buffer.LZ_CODE_BUF_SIZE) ∧
    LZ_TIGHT_SLACK_NORMAL.size ≥ 1 ∧ LZ_TIGHT_SLACK_FAST.size ≥ 2 := by
  have h1 : LZ_TIGHT_SLACK_NORMAL.toList.all (fun N => decide (RECORD_LITERAL_CODES + RECORD_MATCH_CODES + 1 ≤ N)) = true := by
    decide +kernel
  have h2 : LZ_TIGHT_SLACK_FAST.toList.all (fun N => decide (max RECORD_LITERAL_CODES RECORD_MATCH_CODES + 1 ≤ N)) = true := by
    decide +kernel
  refine ⟨fun N hN pos _ hp => ?_, fun N hN pos _ hp => ?_, by decide +kernel, by decide +kernel⟩
  · have := List.all_eq_true.mp h1 N hN
    simp only [decide_eq_true_eq] at this
    omega
  · have := List.all_eq_true.mp h2 N hN
    simp only [decide_eq_true_eq] at this
    omega

/-- The three token engines keep hot registers (`src_pos`, `lookahead_size`, `lookahead_pos`, and in
    `compress_normal` the deferred lazy match `saved_lit / saved_match_dist / saved_match_len`) in
    locals. PROGRAM-TEXT fact regenerated from the source: at EVERY exit of every engine — the
    early returns taken when a block flush in the middle of the input could not hand all its bytes
    to the caller, and the normal end — every such local declared before the exit is stored back
    to the field it caches. A suspended call therefore resumes with exactly the loop's state
    (DESIGN.md §7 C02, `lazy_state_saved`); dropping one store loses or duplicates input bytes. -/
theorem engine_exits_store_all_cached_registers :
    Gen.Facts.engineExits.all (fun e => e.2.2.2.1.all (fun f => e.2.2.2.2.contains f)) = true ∧
    Gen.Facts.engineExits.length ≥ 9 ∧
    (Gen.Facts.engineExits.filter (fun e => e.2.2.2.1.length ≥ 6)).length ≥ 2 := by
  decide +kernel

/-! ### The output staging model (`Model.DeflOut`, tied to the code by the STG correspondence)

`Model.DeflOut.compressInner` mirrors `compress_inner`'s guards, the buffer-sink `flush_output`
(direct write when ≥ OUT_BUF_SIZE bytes of room are left, otherwise `local_buf` with the rest kept
pending), the rule that an engine stops when a block leaves bytes pending, the guarded epilogue
block and `flush_output_buffer`. The engines are a SCRIPT, so the theorems hold for every engine
behaviour, every output buffer size (including zero) and every flush sequence. The correspondence
replays every `compress` call of every generated schedule (≈ 70 000 calls per quick run) with the
`flush_block` events recorded by the hooks: status, bytes written, blocks flushed, epilogue block,
bytes left pending must agree. -/
open Model.DeflOut in
/-- TIES to the regenerated source: the model's staging threshold is the source's `OUT_BUF_SIZE`,
    and the model refuses a call exactly when the regenerated guard of `compress_inner` does
    (all 4 statuses × 8 × 8 flush modes). -/
theorem staging_model_constants_are_source :
    (Model.DeflOut.OUT_BUF_SIZE : Int) = Gen.Buffer.OUT_BUF_SIZE ∧
    (∀ st ∈ TDEFLStatus.all, ∀ pf ∈ TDEFLFlush.all, ∀ cf ∈ TDEFLFlush.all,
      ((compressInner (Stage.mk [] false st pf.toNat) 10 cf.toNat (EngineCall.mk [] false [])).status == stBadParam)
        = guard_rejects st pf cf) := by
  refine ⟨by decide +kernel, ?_⟩
  have h : allIn TDEFLStatus.all (fun st => allIn TDEFLFlush.all (fun pf => allIn TDEFLFlush.all (fun cf =>
      ((compressInner (Stage.mk [] false st pf.toNat) 10 cf.toNat (EngineCall.mk [] false [])).status == stBadParam)
        == guard_rejects st pf cf))) = true := by
    decide +kernel
  intro st hst pf hp cf hc
  have := allIn_spec (allIn_spec (allIn_spec h st hst) pf hp) cf hc
  simpa using this

open Model.DeflOut in
/-- Per call: never more bytes written than the space offered (down to an empty buffer). -/
theorem staging_counts_within_space (s : Stage) (c : Call) (h : c.eng.WF) :
    (compressInner s c.outLen c.flush c.eng).delivered.length ≤ c.outLen := call_within_space s c h

open Model.DeflOut in
/-- EVERY HISTORY of calls, any buffer sizes, any flush modes, any engine behaviour: the bytes the
    caller received so far followed by the bytes still pending in `local_buf` are exactly the
    concatenation of all blocks that went through `flush_block`, in order — nothing lost,
    duplicated or reordered by the staging. -/
theorem staging_conserves_bytes (cs : List Call) (h : ∀ c ∈ cs, c.eng.WF) :
    (runCalls {} cs).2.1 ++ (runCalls {} cs).1.pending = (runCalls {} cs).2.2.1 := by
  have := history_conservation cs {} h
  simpa using this

open Model.DeflOut in
/-- A block is handed to `flush_block` only when nothing is pending and the stream is not finished
    (the `debug_assert!(flush_remaining == 0)` of `flush_block`, as a theorem of the model). -/
theorem staging_flushes_only_when_drained (s : Stage) (c : Call) (h : c.eng.WF) :
    let r := compressInner s c.outLen c.flush c.eng
    (r.flushed ≠ 0 ∨ r.epilogue = true) → s.pending = [] ∧ s.finished = false :=
  flush_only_when_drained s c h

open Model.DeflOut in
/-- `Done` exactly when finished and drained; finished only by a Finish request; afterwards (and after
    any refused call) every call is refused; a non-Finish request after Finish is refused. -/
theorem staging_protocol (s : Stage) (c : Call) (h : c.eng.WF) :
    (let r := compressInner s c.outLen c.flush c.eng
     (r.status = stDone ↔ (r.stage.finished = true ∧ r.stage.pending = [] ∧ r.status ≠ stBadParam)) ∧
     (r.stage.finished = true → s.finished = true ∨ c.flush = flFinish)) ∧
    ((s.prev = stDone ∨ s.prev = stBadParam) → (compressInner s c.outLen c.flush c.eng).status = stBadParam) ∧
    (s.lastFlush = flFinish → c.flush ≠ flFinish → (compressInner s c.outLen c.flush c.eng).status = stBadParam) :=
  ⟨done_iff_finished_and_drained s c h, fun hp => (after_done_or_badparam s c hp).1, nonfinish_after_finish s c⟩

/-- Non-vacuity: a concrete two-call history through a 3-byte buffer. -/
example : (Model.DeflOut.runCalls {}
    [⟨3, 0, { blocks := [[1, 2, 3, 4, 5]], drained := true, finalBlk := [] }⟩,
     ⟨3, 4, { blocks := [], drained := true, finalBlk := [9] }⟩]).2.1 = [1, 2, 3, 4, 5] := by decide

example : guard_rejects TDEFLStatus.Okay TDEFLFlush.Finish TDEFLFlush.None = true := by decide +kernel
example : guard_rejects TDEFLStatus.Okay TDEFLFlush.Sync TDEFLFlush.Finish = false := by decide +kernel

end C02
