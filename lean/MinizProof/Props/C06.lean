/-
C06 — end of stream is detected exactly; bytes after it are never consumed.
Proved here, about a hand-written model of the decoder's input accounting (`undo_bytes` and the
`consumed = bytes read − bytes returned` arithmetic at the end of `decompress_with_limit`): with
`nb` bits in the bit buffer after reading `c` bytes in this call, returning `min(nb/8, c)` whole
bytes keeps the logical bit position `8·consumed − pending bits` unchanged, leaves fewer than 8
bits pending whenever the buffered whole bytes all come from this call, and then reports exactly
⌈logical position / 8⌉ bytes consumed — the last byte holding a bit of the stream. The reference
decoder's encoded length (`Spec.inflateSpec`/`zlibSpec`: ⌈bits/8⌉, + 4 for the zlib trailer) is
compared with the count every entry point reports, with 0..64 trailing bytes (oracle leg).
-/
import MinizProof.Spec.Inflate
import MinizProof.Lemmas.CoreRefine
namespace C06

/-- `undo_bytes(l, max)`: returns the number of whole bytes given back and the new bit count. -/
def undoBytes (numBits max : Nat) : Nat × Nat :=
  let res := min (numBits / 8) max
  (res, numBits - 8 * res)

/-- The logical position (bits of the stream actually used) is what was read minus what is pending. -/
def logicalBits (bytesRead numBits : Nat) : Nat := 8 * bytesRead - numBits

theorem undo_preserves_position (read nb : Nat) (h : nb ≤ 8 * read) :
    let (res, nb') := undoBytes nb read
    logicalBits (read - res) nb' = logicalBits read nb ∧ res ≤ read := by
  unfold undoBytes logicalBits
  simp only
  omega

/-- If every whole byte in the bit buffer was read in this call (`nb / 8 ≤ read`), fewer than 8
    bits stay pending and the bytes reported consumed are exactly ⌈logical position / 8⌉. -/
theorem undo_exact (read nb : Nat) (h : nb ≤ 8 * read) :
    let (res, nb') := undoBytes nb read
    nb' < 8 ∧ read - res = (logicalBits read nb + 7) / 8 := by
  unfold undoBytes logicalBits
  simp only
  omega

/-- Encoded length of a zlib stream = header (2) + body + trailer (4), as the reference decoder
    defines it: an accepted stream reports `bytesUsed = ⌈bitsUsed / 8⌉ + 4` with `bitsUsed ≥ 16`. -/
theorem zlib_length (pre : Array UInt8) (maxDist : Nat) (data : Array UInt8) (r : Spec.ZInflated)
    (h : Spec.zlibSpec pre maxDist data = .accept r) : r.bytesUsed = (r.inner.bitsUsed + 7) / 8 + 4 := by
  unfold Spec.zlibSpec at h
  split at h
  · split at h
    · simp at h
    · split at h
      · dsimp only at h
        split at h
        · split at h
          · simp at h
          · simp only [Spec.Verdict.accept.injEq] at h
            rw [← h]
        · simp at h
      all_goals simp at h
  · simp at h

open Model.Core in
/-- END OF STREAM, exactly: when the RFC reference decoder accepts the raw stream that starts the
    input, one call of the decoder model reports `Done` having consumed exactly ⌈bits used / 8⌉
    bytes — the last byte holding a bit of the final block — however many unrelated bytes follow
    in `inp` (the hypothesis is about the whole `inp`, trailing bytes included). -/
theorem stream_end_consumed_exactly (r : Regs) (inp out : Array UInt8) (outPos budget flags maxDist : Nat)
    (res : Spec.Inflated) (hstart : r.state = sStart)
    (hshape : r.rawHeader.size = 4 ∧ r.tableSizes.size = 3 ∧ r.lenCodes.size = 512)
    (hflat : hasFlag flags fNonWrapping = true) (hz : hasFlag flags fParseZlib = false)
    (hstop : hasFlag flags fStopOnBlockBoundary = false) (hpos : outPos ≤ out.size)
    (hspec : Spec.inflateSpec (out.extract 0 outPos) maxDist inp 0 = .accept res)
    (hroom : outPos + res.out.size ≤ min (outPos + budget) out.size) :
    (decompress r inp out outPos budget flags).status = stDone ∧
    (decompress r inp out outPos budget flags).consumed = (res.bitsUsed + 7) / 8 := by
  have h := refine_raw_flat r inp out outPos budget flags maxDist res hstart hshape hflat hz hstop hpos hspec hroom
  exact ⟨h.1, h.2.2.1⟩

example : undoBytes 19 5 = (2, 3) := by decide
example : logicalBits 5 19 = 21 ∧ (21 + 7) / 8 = 3 := by decide

end C06
