/-
C06 — end of stream is detected exactly; bytes after it are never consumed.
Proved here, about a hand-written model of the decoder's input accounting (`undo_bytes` and the
`consumed = bytes read − bytes returned` arithmetic at the end of `decompress_with_limit`): with
`nb` bits in the bit buffer after reading `c` bytes in this call, returning `min(nb/8, c)` whole
bytes keeps the logical bit position `8·consumed − pending bits` unchanged, leaves fewer than 8
bits pending whenever the buffered whole bytes all come from this call, and then reports exactly
⌈logical position / 8⌉ bytes consumed — the last byte holding a bit of the stream. The reference
decoder's encoded length (`Spec.inflateSpec`/`zlibSpec`: ⌈bits/8⌉, + 4 for the zlib trailer) is
compared with the count every entry point reports, with 0..64 trailing bytes (oracle leg).
-/
import MinizProof.Spec.Inflate
import MinizProof.Lemmas.CoreRefine
import MinizProof.Lemmas.CoreExt
import MinizProof.Lemmas.SpecFuel
set_option maxRecDepth 100000
namespace C06

/-- `undo_bytes(l, max)`: returns the number of whole bytes given back and the new bit count. -/
def undoBytes (numBits max : Nat) : Nat × Nat :=
  let res := min (numBits / 8) max
  (res, numBits - 8 * res)

/-- The logical position (bits of the stream actually used) is what was read minus what is pending. -/
def logicalBits (bytesRead numBits : Nat) : Nat := 8 * bytesRead - numBits

theorem undo_preserves_position (read nb : Nat) (h : nb ≤ 8 * read) :
    let (res, nb') := undoBytes nb read
    logicalBits (read - res) nb' = logicalBits read nb ∧ res ≤ read := by
  unfold undoBytes logicalBits
  simp only
  omega

/-- If every whole byte in the bit buffer was read in this call (`nb / 8 ≤ read`), fewer than 8
    bits stay pending and the bytes reported consumed are exactly ⌈logical position / 8⌉. -/
theorem undo_exact (read nb : Nat) (h : nb ≤ 8 * read) :
    let (res, nb') := undoBytes nb read
    nb' < 8 ∧ read - res = (logicalBits read nb + 7) / 8 := by
  unfold undoBytes logicalBits
  simp only
  omega

/-- Encoded length of a zlib stream = header (2) + body + trailer (4), as the reference decoder
    defines it: an accepted stream reports `bytesUsed = ⌈bitsUsed / 8⌉ + 4` with `bitsUsed ≥ 16`. -/
theorem zlib_length (pre : Array UInt8) (maxDist : Nat) (data : Array UInt8) (r : Spec.ZInflated)
    (h : Spec.zlibSpec pre maxDist data = .accept r) : r.bytesUsed = (r.inner.bitsUsed + 7) / 8 + 4 := by
  unfold Spec.zlibSpec at h
  split at h
  · split at h
    · simp at h
    · split at h
      · dsimp only at h
        split at h
        · split at h
          · simp at h
          · simp only [Spec.Verdict.accept.injEq] at h
            rw [← h]
        · simp at h
      all_goals simp at h
  · simp at h

open Model.Core in
/-- END OF STREAM, exactly: when the RFC reference decoder accepts the raw stream that starts the
    input, one call of the decoder model reports `Done` having consumed exactly ⌈bits used / 8⌉
    bytes — the last byte holding a bit of the final block — however many unrelated bytes follow
    in `inp` (the hypothesis is about the whole `inp`, trailing bytes included). -/
theorem stream_end_consumed_exactly (r : Regs) (inp out : Array UInt8) (outPos budget flags maxDist : Nat)
    (res : Spec.Inflated) (hstart : r.state = sStart)
    (hshape : r.rawHeader.size = 4 ∧ r.tableSizes.size = 3 ∧ r.lenCodes.size = 512)
    (hflat : hasFlag flags fNonWrapping = true) (hz : hasFlag flags fParseZlib = false)
    (hstop : hasFlag flags fStopOnBlockBoundary = false) (hpos : outPos ≤ out.size)
    (hspec : Spec.inflateSpec (out.extract 0 outPos) maxDist inp 0 = .accept res)
    (hroom : outPos + res.out.size ≤ min (outPos + budget) out.size) :
    (decompress r inp out outPos budget flags).status = stDone ∧
    (decompress r inp out outPos budget flags).consumed = (res.bitsUsed + 7) / 8 := by
  have h := refine_raw_flat r inp out outPos budget flags maxDist res hstart hshape hflat hz hstop hpos hspec hroom
  exact ⟨h.1, h.2.2.1⟩

/-! ### Whatever follows the stream does not matter

One call on `a ++ b` IS the call on `a` whenever the run over `a` did not end starved
(`Lemmas/CoreExt`, from the per-state input-extension lemmas of `Lemmas/CoreSplit`): same status,
same counts, same buffer, same saved registers. With the refinement theorem this gives the property
for every valid stream and every continuation; with the converse of C04 it even transfers to the
reference decoder itself. -/
open Model.Core in
/-- NO MATTER WHAT FOLLOWS, raw DEFLATE: if the reference decoder accepts `a`, the call on `a ++ b`
    — for EVERY `b` — is the call on `a`: `Done`, exactly ⌈bits/8⌉ bytes consumed. -/
theorem trailing_bytes_do_not_matter (r : Regs) (a b out : Array UInt8) (outPos budget flags maxDist : Nat)
    (res : Spec.Inflated) (hstart : r.state = sStart)
    (hshape : r.rawHeader.size = 4 ∧ r.tableSizes.size = 3 ∧ r.lenCodes.size = 512)
    (hflat : hasFlag flags fNonWrapping = true) (hz : hasFlag flags fParseZlib = false)
    (hstop : hasFlag flags fStopOnBlockBoundary = false) (hpos : outPos ≤ out.size)
    (hspec : Spec.inflateSpec (out.extract 0 outPos) maxDist a 0 = .accept res)
    (hroom : outPos + res.out.size ≤ min (outPos + budget) out.size) :
    decompress r (a ++ b) out outPos budget flags = decompress r a out outPos budget flags ∧
    (decompress r (a ++ b) out outPos budget flags).status = stDone ∧
    (decompress r (a ++ b) out outPos budget flags).consumed = (res.bitsUsed + 7) / 8 := by
  have h := refine_raw_flat r a out outPos budget flags maxDist res hstart hshape hflat hz hstop hpos hspec hroom
  have he := done_ext_same r a b out outPos budget flags h.1
  exact ⟨he, by rw [he]; exact h.1, by rw [he]; exact h.2.2.1⟩

open Model.Core in
/-- The same for a zlib stream: exactly header + body + trailer bytes, whatever follows. -/
theorem trailing_bytes_do_not_matter_zlib (r : Regs) (a b out : Array UInt8) (outPos budget flags maxDist : Nat)
    (zr : Spec.ZInflated) (hstart : r.state = sStart)
    (hshape : r.rawHeader.size = 4 ∧ r.tableSizes.size = 3 ∧ r.lenCodes.size = 512)
    (hflat : hasFlag flags fNonWrapping = true) (hz : hasFlag flags fParseZlib = true)
    (hstop : hasFlag flags fStopOnBlockBoundary = false) (hpos : outPos ≤ out.size)
    (hspec : Spec.zlibSpec (out.extract 0 outPos) maxDist a true = .accept zr)
    (hroom : outPos + zr.inner.out.size ≤ min (outPos + budget) out.size) :
    decompress r (a ++ b) out outPos budget flags = decompress r a out outPos budget flags ∧
    (decompress r (a ++ b) out outPos budget flags).status = stDone ∧
    (decompress r (a ++ b) out outPos budget flags).consumed = (zr.inner.bitsUsed + 7) / 8 + 4 := by
  obtain ⟨cmf, flg, x0, x1, x2, x3, h0, h1, hv, hi, ha, hb, hc, hd, hadl, hused⟩ := zlibSpec_inv hspec
  have h := refine_zlib_flat r a out outPos budget flags maxDist zr.inner cmf flg x0 x1 x2 x3 hstart hshape hflat hz hstop
    hpos h0 h1 hv hi ha hb hc hd hroom
  have hst : (decompress r a out outPos budget flags).status = stDone := by
    rw [h.1, if_neg]
    intro hh
    exact hh.2 (hadl rfl)
  have he := done_ext_same r a b out outPos budget flags hst
  exact ⟨he, by rw [he]; exact hst, by rw [he]; exact h.2.2.1⟩

open Model.Core in
/-- … and so the REFERENCE DECODER itself does not care what follows a stream it accepts (obtained
    through the decoder model: forward refinement on `a`, input extension, converse on `a ++ b`):
    it accepts `a ++ b` with the same plaintext and the same encoded length in bytes. -/
theorem reference_decoder_ignores_trailing_bytes (pre a b : Array UInt8) (res : Spec.Inflated)
    (h : Spec.inflateSpec pre 32768 a 0 = .accept res) :
    ∃ res', Spec.inflateSpec pre 32768 (a ++ b) 0 = .accept res' ∧ res'.out = res.out ∧
      (res'.bitsUsed + 7) / 8 = (res.bitsUsed + 7) / 8 := by
  -- a flat buffer holding the history, with room for exactly the plaintext
  have hsz : (pre ++ Array.replicate res.out.size (0 : UInt8)).size = pre.size + res.out.size := by simp
  have hpre : (pre ++ Array.replicate res.out.size (0 : UInt8)).extract 0 pre.size = pre := by
    apply Array.ext_getElem?
    intro i
    rw [Array.getElem?_extract]
    by_cases hi : i < pre.size
    · have : i < min pre.size (pre ++ Array.replicate res.out.size (0 : UInt8)).size - 0 := by rw [hsz]; omega
      simp only [this, ↓reduceIte, Nat.zero_add]
      exact Array.getElem?_append_left hi
    · have : ¬ i < min pre.size (pre ++ Array.replicate res.out.size (0 : UInt8)).size - 0 := by rw [hsz]; omega
      simp only [this, ↓reduceIte]
      rw [Array.getElem?_eq_none (by omega)]
  have hfl : hasFlag 4 fNonWrapping = true ∧ hasFlag 4 fParseZlib = false ∧ hasFlag 4 fStopOnBlockBoundary = false := by decide
  have hroom : pre.size + res.out.size ≤ min (pre.size + res.out.size) (pre ++ Array.replicate res.out.size (0 : UInt8)).size := by
    rw [hsz]; omega
  have hfw := refine_raw_flat {} a (pre ++ Array.replicate res.out.size 0) pre.size res.out.size 4 32768 res rfl ⟨rfl, rfl, rfl⟩
    hfl.1 hfl.2.1 hfl.2.2 (by rw [hsz]; omega) (by rw [hpre]; exact h) hroom
  have he := done_ext_same {} a b (pre ++ Array.replicate res.out.size 0) pre.size res.out.size 4 hfw.1
  have hdone : (decompress {} (a ++ b) (pre ++ Array.replicate res.out.size 0) pre.size res.out.size 4).status = stDone := by
    rw [he]; exact hfw.1
  rcases done_raw_flat {} (a ++ b) (pre ++ Array.replicate res.out.size 0) pre.size res.out.size 4 rfl ⟨rfl, rfl, rfl⟩
    hfl.1 hfl.2.1 hfl.2.2 (by rw [hsz]; omega) hdone with ⟨res', hacc, hroom'⟩ | hfuel
  · rw [hpre] at hacc
    have hbw := refine_raw_flat {} (a ++ b) (pre ++ Array.replicate res.out.size 0) pre.size res.out.size 4 32768 res' rfl ⟨rfl, rfl, rfl⟩
      hfl.1 hfl.2.1 hfl.2.2 (by rw [hsz]; omega) (by rw [hpre]; exact hacc) hroom'
    rw [he] at hbw
    have hsize : res'.out.size = res.out.size := by rw [← hbw.2.1, hfw.2.1]
    refine ⟨res', hacc, ?_, by rw [← hbw.2.2.1, hfw.2.2.1]⟩
    apply Array.ext_getElem?
    intro i
    by_cases hi : i < res.out.size
    · rw [← hbw.2.2.2 i (by omega), ← hfw.2.2.2 i hi]
    · rw [Array.getElem?_eq_none (by omega), Array.getElem?_eq_none (by omega)]
  · exact absurd hfuel (Spec.inflateSpec_ne_fuel _ _ _ _)

example : undoBytes 19 5 = (2, 3) := by decide
example : logicalBits 5 19 = 21 ∧ (21 + 7) / 8 = 3 := by decide

end C06
