/-
C08 — the decoder writes only inside the granted window; status codes are truthful.
Proved here, over `OutputBuffer::from_slice_pos_and_max` REGENERATED from the source: for every
slice length, start position inside the slice and budget, the end of the write window is
min(out_pos + budget, len) — the window lies inside the slice and spans at most the budget — and
`bytes_left()` (end − position) cannot underflow at construction. That every write of the
automaton goes through this window, that `HasMoreOutput`/`NeedsMoreInput` are truthful and that
the size-limited vector functions respect their limit are checked on every run with poisoned
buffers around the window for every call (harness oracles in release and debug profiles).
-/
import MinizProof.Props.C05
namespace C08

/-- End of the window, for all `len, pos ≤ len, budget` below 2^64 (symbolic). -/
theorem window_end_exact (len pos budget : Nat) (hl : len < 2 ^ 64) (hp : pos ≤ len) (hb : budget < 2 ^ 64) :
    Gen.OutBuf.window_end len pos budget = (((if pos + budget ≤ len then pos + budget else len) : Nat) : Int) :=
  C05.window_within_slice len pos budget hl hp hb

/-- The window is inside the slice, starts at `pos`, and is at most `budget` bytes long. -/
theorem window_bounds (len pos budget : Nat) (hl : len < 2 ^ 64) (hp : pos ≤ len) (hb : budget < 2 ^ 64) :
    (pos : Int) ≤ Gen.OutBuf.window_end len pos budget ∧
    Gen.OutBuf.window_end len pos budget ≤ len ∧
    Gen.OutBuf.window_end len pos budget - pos ≤ budget := by
  rw [window_end_exact len pos budget hl hp hb]
  by_cases h : pos + budget ≤ len
  · simp only [h, ↓reduceIte]; omega
  · simp only [h, ↓reduceIte]; omega

/-- With the unlimited budget `decompress` passes (`usize::MAX`), the window is the rest of the slice. -/
theorem window_unlimited (len pos : Nat) (hl : len < 2 ^ 64) (hp : pos ≤ len) :
    Gen.OutBuf.window_end len pos ((2 ^ 64 - 1 : Nat) : Int) = len := by
  rw [window_end_exact len pos (2 ^ 64 - 1) hl hp (by omega)]
  by_cases h : pos + (2 ^ 64 - 1) ≤ len
  · simp only [h, ↓reduceIte]; omega
  · simp only [h, ↓reduceIte]

theorem usize_max : G.tyMax (.u 64) = ((2 ^ 64 - 1 : Nat) : Int) := by decide +kernel

example : Gen.OutBuf.window_end 10 4 3 = 7 := by decide +kernel
example : Gen.OutBuf.window_end 10 4 100 = 10 := by decide +kernel

end C08
