/-
C08 — the decoder writes only inside the granted window; status codes are truthful.
Proved here, over `OutputBuffer::from_slice_pos_and_max` REGENERATED from the source: for every
slice length, start position inside the slice and budget, the end of the write window is
min(out_pos + budget, len) — the window lies inside the slice and spans at most the budget — and
`bytes_left()` (end − position) cannot underflow at construction. That every write of the
automaton goes through this window, that `HasMoreOutput`/`NeedsMoreInput` are truthful and that
the size-limited vector functions respect their limit are checked on every run with poisoned
buffers around the window for every call (harness oracles in release and debug profiles).
-/
import MinizProof.Props.C05
import MinizProof.Lemmas.CoreCall
import MinizProof.Lemmas.VecLoops
import MinizProof.Lemmas.CoreFull
import MinizProof.Lemmas.SpecFuel
import MinizProof.Props.C07
namespace C08

/-- End of the window, for all `len, pos ≤ len, budget` below 2^64 (symbolic). -/
theorem window_end_exact (len pos budget : Nat) (hl : len < 2 ^ 64) (hp : pos ≤ len) (hb : budget < 2 ^ 64) :
    Gen.OutBuf.window_end len pos budget = (((if pos + budget ≤ len then pos + budget else len) : Nat) : Int) :=
  C05.window_within_slice len pos budget hl hp hb

/-- The window is inside the slice, starts at `pos`, and is at most `budget` bytes long. -/
theorem window_bounds (len pos budget : Nat) (hl : len < 2 ^ 64) (hp : pos ≤ len) (hb : budget < 2 ^ 64) :
    (pos : Int) ≤ Gen.OutBuf.window_end len pos budget ∧
    Gen.OutBuf.window_end len pos budget ≤ len ∧
    Gen.OutBuf.window_end len pos budget - pos ≤ budget := by
  rw [window_end_exact len pos budget hl hp hb]
  by_cases h : pos + budget ≤ len
  · simp only [h, ↓reduceIte]; omega
  · simp only [h, ↓reduceIte]; omega

/-- With the unlimited budget `decompress` passes (`usize::MAX`), the window is the rest of the slice. -/
theorem window_unlimited (len pos : Nat) (hl : len < 2 ^ 64) (hp : pos ≤ len) :
    Gen.OutBuf.window_end len pos ((2 ^ 64 - 1 : Nat) : Int) = len := by
  rw [window_end_exact len pos (2 ^ 64 - 1) hl hp (by omega)]
  by_cases h : pos + (2 ^ 64 - 1) ≤ len
  · simp only [h, ↓reduceIte]; omega
  · simp only [h, ↓reduceIte]

theorem usize_max : G.tyMax (.u 64) = ((2 ^ 64 - 1 : Nat) : Int) := by decide +kernel

/-! ### The decoder model (`Model.Core.decompress`, tied to the code by the ICALL correspondence)

The theorems below hold for EVERY register state (reachable or not), every input, every buffer
geometry and every flags word: they are consequences of a per-transition invariant
(`Lemmas/CoreFrame`: every one of the 24 working states keeps the cursors inside the offered input
and the granted window and writes only between the old and the new output position), lifted to
whole runs by induction on the number of transitions. -/
open Model.Core

/-- TIE to the regenerated source: the end of the model's write window is the `max` computed by
    `OutputBuffer::from_slice_pos_and_max`. -/
theorem model_window_is_source (len pos budget : Nat) (hl : len < 2 ^ 64) (hp : pos ≤ len) (hb : budget < 2 ^ 64) :
    ((min (pos + budget) len : Nat) : Int) = Gen.OutBuf.window_end len pos budget := by
  rw [window_end_exact len pos budget hl hp hb]
  by_cases h : pos + budget ≤ len
  · simp only [h, ↓reduceIte]; congr 1; omega
  · simp only [h, ↓reduceIte]; congr 1; omega

/-- A call writes only inside `[outPos, outPos + written)`, which lies inside the budget and inside
    the slice; every other byte of the buffer is unchanged and the buffer keeps its length. -/
theorem writes_only_inside_window (r : Regs) (inp out : Array UInt8) (outPos budget flags : Nat) :
    let res := decompress r inp out outPos budget flags
    res.out.size = out.size ∧ res.written ≤ budget ∧ res.written ≤ out.size - outPos ∧
    ∀ i, (i < outPos ∨ outPos + res.written ≤ i) → res.out[i]? = out[i]? := by
  have h := decompress_facts r inp out outPos budget flags
  exact ⟨h.size, h.wBudget, h.room, h.frame⟩

/-- "Has more output" is reported only when the granted region is completely full. -/
theorem has_more_output_means_full (r : Regs) (inp out : Array UInt8) (outPos budget flags : Nat) :
    let res := decompress r inp out outPos budget flags
    res.status = stHasMoreOutput → res.written = min budget (out.size - outPos) :=
  (decompress_facts r inp out outPos budget flags).hmo

/-- "Needs more input" (and "cannot make progress") only when all offered input was consumed. -/
theorem needs_more_input_means_all_consumed (r : Regs) (inp out : Array UInt8) (outPos budget flags : Nat) :
    let res := decompress r inp out outPos budget flags
    (res.status = stNeedsMoreInput ∨ res.status = stFailedCannotMakeProgress) → res.consumed = inp.size :=
  (decompress_facts r inp out outPos budget flags).nmi

/-- Hence a driver loop makes progress: with non-empty input and a non-empty grant, a call that
    asks for more input or more output has consumed or produced at least one byte. -/
theorem driver_loop_progress (r : Regs) (inp out : Array UInt8) (outPos budget flags : Nat)
    (hi : 0 < inp.size) (ho : 0 < min budget (out.size - outPos)) :
    let res := decompress r inp out outPos budget flags
    (res.status = stNeedsMoreInput ∨ res.status = stHasMoreOutput) → 0 < res.consumed + res.written := by
  intro res hs
  have h := decompress_facts r inp out outPos budget flags
  show 0 < (decompress r inp out outPos budget flags).consumed + (decompress r inp out outPos budget flags).written
  rcases hs with hs | hs
  · have := h.nmi (Or.inl hs); omega
  · have := h.hmo hs; omega

/-! ### A valid stream in every window: `Done` iff it fits, "has more output" iff it does not

With the refinement (C03: fits ⇒ `Done`) and the converse (C04: `Done` ⇒ accepted and fits) the
theorems below close the case left open: a stream the reference decoder accepts whose plaintext does
NOT fit the granted window is reported as "has more output" (`Lemmas/CoreFull`: the run is carried
over the accepted tokens and blocks for as long as they fit; the first literal, match or stored byte
run that does not fit fills the window and stops there). So the status a caller sees for a valid
stream is decided by the window alone, and a limited call never fails, never claims completion, and
hands out a prefix of the plaintext. -/
open Model.Core in
/-- VALID BUT TOO BIG: "has more output", the window completely filled. -/
theorem valid_stream_too_big_is_has_more_output (r : Regs) (inp out : Array UInt8) (outPos budget flags maxDist : Nat)
    (res : Spec.Inflated) (hstart : r.state = sStart)
    (hshape : r.rawHeader.size = 4 ∧ r.tableSizes.size = 3 ∧ r.lenCodes.size = 512)
    (hflat : hasFlag flags fNonWrapping = true) (hz : hasFlag flags fParseZlib = false)
    (hstop : hasFlag flags fStopOnBlockBoundary = false) (hpos : outPos ≤ out.size)
    (hspec : Spec.inflateSpec (out.extract 0 outPos) maxDist inp 0 = .accept res)
    (hbig : min (outPos + budget) out.size < outPos + res.out.size) :
    (decompress r inp out outPos budget flags).status = stHasMoreOutput ∧
    (decompress r inp out outPos budget flags).written = min budget (out.size - outPos) := by
  have h := full_raw_flat r inp out outPos budget flags maxDist res hstart hshape hflat hz hstop hpos hspec hbig
  exact ⟨h, has_more_output_means_full r inp out outPos budget flags h⟩

open Model.Core in
/-- THE STATUS OF A VALID STREAM IS DECIDED BY THE WINDOW: `Done` exactly when the plaintext fits,
    "has more output" exactly when it does not; nothing else is ever reported. -/
theorem valid_stream_status_is_decided_by_the_window (r : Regs) (inp out : Array UInt8) (outPos budget flags : Nat)
    (res : Spec.Inflated) (hstart : r.state = sStart)
    (hshape : r.rawHeader.size = 4 ∧ r.tableSizes.size = 3 ∧ r.lenCodes.size = 512)
    (hflat : hasFlag flags fNonWrapping = true) (hz : hasFlag flags fParseZlib = false)
    (hstop : hasFlag flags fStopOnBlockBoundary = false) (hpos : outPos ≤ out.size)
    (hspec : Spec.inflateSpec (out.extract 0 outPos) 32768 inp 0 = .accept res) :
    ((decompress r inp out outPos budget flags).status = stDone ↔
      outPos + res.out.size ≤ min (outPos + budget) out.size) ∧
    ((decompress r inp out outPos budget flags).status = stHasMoreOutput ↔
      min (outPos + budget) out.size < outPos + res.out.size) ∧
    ((decompress r inp out outPos budget flags).status = stDone ∨
      (decompress r inp out outPos budget flags).status = stHasMoreOutput) := by
  by_cases hfit : outPos + res.out.size ≤ min (outPos + budget) out.size
  · have hd := (refine_raw_flat r inp out outPos budget flags 32768 res hstart hshape hflat hz hstop hpos hspec hfit).1
    refine ⟨⟨fun _ => hfit, fun _ => hd⟩, ⟨fun h => ?_, fun h => by omega⟩, .inl hd⟩
    rw [hd] at h; exact absurd h (by decide)
  · have hb : min (outPos + budget) out.size < outPos + res.out.size := by omega
    have hm := full_raw_flat r inp out outPos budget flags 32768 res hstart hshape hflat hz hstop hpos hspec hb
    refine ⟨⟨fun h => ?_, fun h => absurd h hfit⟩, ⟨fun _ => hb, fun _ => hm⟩, .inr hm⟩
    rw [hm] at h; exact absurd h (by decide)

open Model.Core in
/-- … and what a limited call hands out is a PREFIX of the plaintext (buffer large enough for all of
    it, budget too small): with the C07 call composition — the limited call followed by a call with
    the remaining budget is the single call with all the budget, and the second call does not touch
    what the first wrote. -/
theorem limited_output_is_a_prefix_of_the_plaintext (r : Regs) (inp out : Array UInt8) (outPos budget flags maxDist : Nat)
    (res : Spec.Inflated) (hb : Bnd r) (hstart : r.state = sStart)
    (hshape : r.rawHeader.size = 4 ∧ r.tableSizes.size = 3 ∧ r.lenCodes.size = 512)
    (hflat : hasFlag flags fNonWrapping = true) (hz : hasFlag flags fParseZlib = false)
    (hstop : hasFlag flags fStopOnBlockBoundary = false)
    (hspec : Spec.inflateSpec (out.extract 0 outPos) maxDist inp 0 = .accept res)
    (hsize : outPos + res.out.size ≤ out.size) (hsmall : budget < res.out.size) :
    (decompress r inp out outPos budget flags).status = stHasMoreOutput ∧
    (decompress r inp out outPos budget flags).written = budget ∧
    ∀ i, i < budget → (decompress r inp out outPos budget flags).out[outPos + i]? = res.out[i]? := by
  have hpos : outPos ≤ out.size := by omega
  have hg : badGeometry flags out.size outPos = false := by
    unfold badGeometry; simp [hflat]; omega
  obtain ⟨h1, h2⟩ := valid_stream_too_big_is_has_more_output r inp out outPos budget flags maxDist res hstart hshape hflat hz hstop
    hpos hspec (by omega)
  have hw : (decompress r inp out outPos budget flags).written = budget := by rw [h2]; omega
  refine ⟨h1, hw, fun i hi => ?_⟩
  -- second call with the rest of the budget
  have hcomp := C07.two_calls_equal_one_call r inp #[] out outPos budget (res.out.size - budget) flags hb hg (.inr h1)
    (by rw [hw]; omega)
  simp only at hcomp
  obtain ⟨_, hout, _, _, _, _, _⟩ := hcomp
  rw [hw, Array.append_empty] at hout
  have hone := refine_raw_flat r inp out outPos (budget + (res.out.size - budget)) flags maxDist res hstart hshape hflat hz hstop hpos
    hspec (by omega)
  have hbyte := hone.2.2.2 i (by omega)
  rw [hout] at hbyte
  -- the second call leaves the first call's bytes alone
  have hframe := (writes_only_inside_window (decompress r inp out outPos budget flags).r
    ((inp.extract (decompress r inp out outPos budget flags).consumed inp.size) ++ #[])
    (decompress r inp out outPos budget flags).out (outPos + budget) (res.out.size - budget) flags).2.2.2 (outPos + i) (.inl (by omega))
  rw [← hframe]
  exact hbyte

open Model.Core in
/-- The same for the zlib format: a zlib stream the reference decoder accepts (header, body, trailer)
    whose plaintext does not fit the window is reported as "has more output"; one that fits, as `Done`. -/
theorem valid_zlib_stream_status_is_decided_by_the_window (r : Regs) (inp out : Array UInt8) (outPos budget flags : Nat)
    (zr : Spec.ZInflated) (hstart : r.state = sStart)
    (hshape : r.rawHeader.size = 4 ∧ r.tableSizes.size = 3 ∧ r.lenCodes.size = 512)
    (hflat : hasFlag flags fNonWrapping = true) (hz : hasFlag flags fParseZlib = true)
    (hstop : hasFlag flags fStopOnBlockBoundary = false) (hpos : outPos ≤ out.size)
    (hspec : Spec.zlibSpec (out.extract 0 outPos) 32768 inp true = .accept zr) :
    ((decompress r inp out outPos budget flags).status = stDone ↔
      outPos + zr.inner.out.size ≤ min (outPos + budget) out.size) ∧
    ((decompress r inp out outPos budget flags).status = stHasMoreOutput ↔
      min (outPos + budget) out.size < outPos + zr.inner.out.size) := by
  obtain ⟨cmf, flg, a, b, c, d, h0, h1, hv, hi, ha, hb, hc, hd, hadl, hused⟩ := zlibSpec_inv hspec
  by_cases hfit : outPos + zr.inner.out.size ≤ min (outPos + budget) out.size
  · have hd' : (decompress r inp out outPos budget flags).status = stDone := by
      have h := refine_zlib_flat r inp out outPos budget flags 32768 zr.inner cmf flg a b c d hstart hshape hflat hz hstop
        hpos h0 h1 hv hi ha hb hc hd hfit
      rw [h.1, if_neg]
      intro hh
      exact hh.2 (hadl rfl)
    refine ⟨⟨fun _ => hfit, fun _ => hd'⟩, ⟨fun h => ?_, fun h => by omega⟩⟩
    rw [hd'] at h; exact absurd h (by decide)
  · have hbg : min (outPos + budget) out.size < outPos + zr.inner.out.size := by omega
    have hm := full_zlib_flat r inp out outPos budget flags 32768 zr.inner cmf flg hstart hshape hflat hz hstop hpos h0 h1 hv hi hbg
    refine ⟨⟨fun h => ?_, fun h => absurd h hfit⟩, ⟨fun _ => hbg, fun _ => hm⟩⟩
    rw [hm] at h; exact absurd h (by decide)

/-! ### The size-limited vector functions (`Model.Vec.decompressToVec`, tied by the VECI correspondence) -/
/-- `decompress_to_vec*_with_limit` never returns more than the limit — neither as a result nor as
    the partial output carried by an error — for EVERY behaviour of the inner decoder (the inner
    calls are a script), every input length and every limit. -/
theorem vec_limit_respected (inLen maxOut : Nat) (script : List Model.Vec.Resp) :
    (Model.Vec.decompressToVec inLen maxOut script).len ≤ maxOut :=
  Model.Vec.decompressToVec_len_le inLen maxOut script

/-- The doubling loop cannot spin: starting from a non-empty buffer, after at most `limit − len + 1`
    has-more-output answers it has returned. -/
theorem vec_doubling_terminates (maxOut n : Nat) (rs : List Model.Vec.Resp) (inLeft bufLen outPos : Nat)
    (calls : List Model.Vec.Call) (hpos : 0 < bufLen) (hn : maxOut - bufLen < n) (hl : n ≤ rs.length) :
    ∀ cs, Model.Vec.inflLoop maxOut inLeft bufLen outPos calls rs ≠ .stuck cs :=
  Model.Vec.inflLoop_terminates maxOut n rs inLeft bufLen outPos calls hpos hn hl

example : Model.Vec.decompressToVec 3 5 [⟨2, 1, 5⟩, ⟨2, 0, 0⟩] = .err 2 5 [(3, 5, 0)] := by decide
example : Model.Vec.decompressToVec 3 50 [⟨2, 1, 6⟩, ⟨0, 2, 3⟩] = .ok 9 [(3, 6, 0), (2, 12, 6)] := by decide

example : (decompress {} #[0x01, 0x01, 0x00, 0xfe, 0xff, 0x41] (Array.replicate 4 0) 1 8 4).written = 1 := by
  decide +kernel

example : Gen.OutBuf.window_end 10 4 3 = 7 := by decide +kernel
example : Gen.OutBuf.window_end 10 4 100 = 10 := by decide +kernel

end C08
