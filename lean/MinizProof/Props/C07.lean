/-
C07 — decoding can be suspended and resumed anywhere without changing the result.
Three layers, all about the hand model of `decompress_with_limit` (`Model.Core`, tied to the code by
the per-call replay `ICALL`):
 1. L0: reading a field of the bit stream is monotone in the available input (`bitsAt_mono`, …).
 2. Runs of the automaton: a run that stops starved / for lack of room reaches, when resumed over
    more input / a larger window, what the uninterrupted run reaches — every state, flat and ring.
 3. Calls: `decompress` called twice — or any number of times, with any chunks and any non-shrinking
    output grants — reports what `decompress` called once on all the input reports: status, buffer,
    counts, registers; for EVERY input, valid or not. With C03: valid raw and zlib streams decode to
    the specified bytes under every such schedule.
Not proved (compared on runs by the correspondence / oracle legs): a ring window handed back to its
start between calls, a flags word that changes between calls, shrinking windows, the streaming
wrapper `inflate()` on top (C13's model), agreement across buffer modes for valid streams.
-/
import MinizProof.Spec.Inflate
import MinizProof.Lemmas.CoreGrow
import MinizProof.Lemmas.CoreSession
import MinizProof.Lemmas.CoreRingCalls
import MinizProof.Lemmas.CoreRingRun
import MinizProof.Lemmas.CoreFlags
import MinizProof.Props.C03
import MinizProof.Props.C06
import MinizProof.Lemmas.CoreRingValid
set_option maxRecDepth 100000
namespace C07
open Spec

/-- `a` is a prefix of `b` (as arrays). -/
def IsPrefix (a b : Array UInt8) : Prop := a.size ≤ b.size ∧ ∀ i, (h : i < a.size) → b[i]? = some a[i]

theorem getElem?_of_prefix {a b : Array UInt8} (h : IsPrefix a b) {i : Nat} {x : UInt8}
    (hx : a[i]? = some x) : b[i]? = some x := by
  have hi : i < a.size := by
    by_cases hlt : i < a.size
    · exact hlt
    · simp [Array.getElem?_eq_none (Nat.le_of_not_lt hlt)] at hx
  rw [h.2 i hi]
  simp [Array.getElem?_eq_getElem hi] at hx
  rw [hx]

/-- A bit that is available stays the same when more input arrives. -/
theorem bitAt_mono {a b : Array UInt8} (h : IsPrefix a b) {i v : Nat} (hv : bitAt a i = some v) :
    bitAt b i = some v := by
  unfold bitAt at hv ⊢
  cases hx : a[i / 8]? with
  | none => simp [hx] at hv
  | some x =>
    rw [getElem?_of_prefix h hx]
    simpa [hx] using hv

/-- An `n`-bit field that can be read stays the same when more input arrives. -/
theorem bitsAt_mono {a b : Array UInt8} (h : IsPrefix a b) (n : Nat) {i v : Nat}
    (hv : bitsAt a i n = some v) : bitsAt b i n = some v := by
  induction n generalizing i v with
  | zero => simpa [bitsAt] using hv
  | succ n ih =>
    unfold bitsAt at hv ⊢
    cases hb : bitAt a i with
    | none => simp [hb] at hv
    | some bv =>
      cases hr : bitsAt a (i + 1) n with
      | none => simp [hb, hr] at hv
      | some rv =>
        rw [bitAt_mono h hb, ih hr]
        simpa [hb, hr] using hv

/-- Symbol decoding is monotone as well: a decoded symbol (and the position after it) does not
    depend on bytes that arrive later. -/
theorem decodeSymAux_mono {a b : Array UInt8} (h : IsPrefix a b) (c : Code) (fuel : Nat) :
    ∀ len pos code first index s p,
      decodeSymAux c a fuel len pos code first index = .sym s p →
      decodeSymAux c b fuel len pos code first index = .sym s p := by
  induction fuel with
  | zero => intro len pos code first index s p hs; simp [decodeSymAux] at hs
  | succ fuel ih =>
    intro len pos code first index s p hs
    unfold decodeSymAux at hs ⊢
    split at hs
    · simp at hs
    · rename_i hidx
      simp only [hidx, ↓reduceIte]
      cases hb : bitAt a pos with
      | none => simp [hb] at hs
      | some bv =>
        rw [bitAt_mono h hb]
        simp only [hb] at hs
        simp only
        split at hs
        · rename_i hlt; simp only [hlt, ↓reduceIte]; exact hs
        · rename_i hlt; simp only [hlt, ↓reduceIte]; exact ih _ _ _ _ _ _ _ hs

theorem decodeSym_mono {a b : Array UInt8} (h : IsPrefix a b) (c : Code) (pos s p : Nat)
    (hs : decodeSym c a pos = .sym s p) : decodeSym c b pos = .sym s p :=
  decodeSymAux_mono h c 15 1 pos 0 0 0 s p hs

/-! ### Suspension and resumption of the decoder model's automaton

`Model.Core.run e fuel c out` is the automaton of one call (`e`: offered input, flags, output window;
`c`: registers and cursors; `out`: the output buffer). `Final e c out R` says the run from `(c, out)`
ends with result `R = (status, context, buffer)`; it is unique (`Final.unique`).
The two theorems hold for EVERY register state (reachable or not), input, buffer, window and flags
word, flat and ring mode alike. They are proved state by state (`Lemmas/CoreSplit`, `CoreGrow`):
reads from a prefix of the input are reads from the whole input; a starved read leaves the bit buffer
exactly where the whole-input read passes through; a stored-block or match copy cut short by the end
of the chunk / window is completed by the resumed run in the same place (`copyIn_add`,
`copyBytes_add`, ring source positions modulo the ring size).

These two are statements about one run of the automaton. The glue of `decompress` between two calls
— the next call restarts its input cursor at 0 on the next chunk, masks the bit buffer, gives back
read-ahead bytes and updates the running Adler-32 per call — is covered by the call-level theorems
at the end of this file (`two_calls_equal_one_call`, `any_number_of_calls_equal_one_call`). -/
open Model.Core in
/-- INPUT SPLIT. If the automaton run over the chunk `e.inp` stops starved ("needs more input")
    in `(c1, out1)`, then the run over the whole input `e.inp ++ b` resumed from `(c1, out1)` and the
    run over the whole input from the start end with the same result. -/
theorem resume_after_starved_input_partial (e : Env) (b : Array UInt8) (f : Nat) (c : Ctx) (out : Array UInt8)
    (c1 : Ctx) (out1 : Array UInt8) (g : Geo e c out) (h : run e f c out = (e.eoi, c1, out1))
    (R : Int × Ctx × Array UInt8) (hR : Final (e.ext b) c1 out1 R) : Final (e.ext b) c out R :=
  run_split e b f c out c1 out1 g h R hR

open Model.Core in
/-- OUTPUT SPLIT. If the run with output window end `e.outEnd` stops for lack of room ("has more
    output") in `(c1, out1)`, then the run with a larger window `E2` resumed from `(c1, out1)` and
    the run with the larger window from the start end with the same result — stored-block and match
    copies interrupted by the end of the window included, in flat and in ring mode. -/
theorem resume_after_full_window_partial (e : Env) (E2 : Nat) (hE : e.outEnd ≤ E2) (hL : e.outEnd ≤ e.outLen)
    (f : Nat) (c : Ctx) (out : Array UInt8) (c1 : Ctx) (out1 : Array UInt8) (g : Geo e c out)
    (h : run e f c out = (stHasMoreOutput, c1, out1))
    (R : Int × Ctx × Array UInt8) (hR : Final (e.grow E2) c1 out1 R) : Final (e.grow E2) c out R :=
  run_grow e E2 hE hL f c out c1 out1 g h R hR

open Model.Core in
/-- The result of a run is unique, so "the same result" above is THE result of the whole run. -/
theorem final_result_unique (e : Env) (c : Ctx) (out : Array UInt8) (R R' : Int × Ctx × Array UInt8)
    (h : Final e c out R) (h' : Final e c out R') : R = R' := Final.unique h h'

/-- The hypotheses are satisfiable: a run that starves inside a stored-block header, and one that
    stops with a full window inside a stored block. -/
example : (Model.Core.run { inp := #[0x01, 0x02], flags := 6, outLen := 4, outEnd := 4 } 100
    { r := {}, inPos := 0, outPos := 0 } (Array.replicate 4 0)).1 = Model.Core.stNeedsMoreInput := by decide +kernel
example : (Model.Core.run { inp := #[0x01, 0x02, 0x00, 0xfd, 0xff, 0x41, 0x42], flags := 6, outLen := 4, outEnd := 1 } 100
    { r := {}, inPos := 0, outPos := 0 } (Array.replicate 4 0)).1 = Model.Core.stHasMoreOutput := by decide +kernel

example : IsPrefix #[1, 2] #[1, 2, 3] := ⟨by decide, by intro i hi; match i, hi with | 0, _ => rfl | 1, _ => rfl⟩
example : bitsAt #[0xA5] 0 8 = some 0xA5 := by decide +kernel

/-! ### Call level: `decompress` called repeatedly against `decompress` called once

`Bnd r` is the bit-buffer discipline of the registers a call starts from (`Lemmas/CoreBnd`): the bit
buffer holds nothing above its `numBits` bits; fewer than 8 bits are buffered unless the previous call
stopped starved inside a read that needs more bits than are buffered; byte-reading states have an
empty bit buffer; the code-length code is decided by 7 bits. A fresh decoder satisfies it
(`fresh_decoder_is_disciplined`) and every suspended call re-establishes it (last conjuncts below), so
it holds at every call boundary of every call sequence that starts from a fresh decoder.
Proved from: re-basing of a run onto a longer input (`Lemmas/CoreShift`, one equation per state), the
discipline as an invariant of every transition (`Lemmas/CoreBnd`), the two run-level theorems above,
"a run that does not stop for lack of room is the same under a larger window", uniqueness and
existence of run results, and the algebra of the epilogue (Adler-32 of a concatenation).

Scope: the same flags word in every call; flat or ring buffer as long as the calls write to
consecutive positions of ONE buffer (no wrap-around between calls: the ring case of a window handed
back to the start is compared on runs, not proved); windows never shrink. Total input consumed and
the saved registers are stated for every outcome except a failed stream (after a failure the real
decoder, too, cannot give back bytes it took in an earlier call), the registers also not for input
truncated without the more-input flag (the checksum register then differs by the first call's part). -/
open Model.Core in
theorem fresh_decoder_is_disciplined : Bnd ({} : Regs) := Bnd_fresh

open Model.Core in
/-- TWO CALLS = ONE CALL, for EVERY input (valid or not), split point, budgets and flags. -/
theorem two_calls_equal_one_call (r : Regs) (a b out : Array UInt8) (pos budget1 budget2 flags : Nat)
    (hb : Bnd r) (hg : badGeometry flags out.size pos = false)
    (hs : (decompress r a out pos budget1 flags).status = stNeedsMoreInput ∨
          (decompress r a out pos budget1 flags).status = stHasMoreOutput)
    (hbud : budget1 ≤ (decompress r a out pos budget1 flags).written + budget2) :
    let res1 := decompress r a out pos budget1 flags
    let res2 := decompress res1.r (a.extract res1.consumed a.size ++ b) res1.out (pos + res1.written) budget2 flags
    let res := decompress r (a ++ b) out pos (res1.written + budget2) flags
    res.status = res2.status ∧ res.out = res2.out ∧ res.written = res1.written + res2.written ∧
    (res.status ≠ stFailed → res.consumed = res1.consumed + res2.consumed) ∧
    (res.status ≠ stFailed → res.status ≠ stFailedCannotMakeProgress → res.r = res2.r) ∧
    Bnd res1.r ∧
    (res2.status = stNeedsMoreInput ∨ res2.status = stHasMoreOutput → Bnd res2.r) :=
  decompress_resume r a b out pos budget1 budget2 flags hb hg hs hbud

open Model.Core in
/-- ANY NUMBER OF CALLS = ONE CALL. `runCalls` is the driver: each call is offered what the previous
    call left unconsumed followed by a new chunk of any length (empty included), writes where the
    previous call stopped, and may fill the buffer up to the total grant so far. For every such
    schedule whose calls but the last are suspended, the last call reports what the single call on
    all the input with the final grant reports. -/
theorem any_number_of_calls_equal_one_call (flags pos0 : Nat) (calls : List (Array UInt8 × Nat)) (r : Regs)
    (out : Array UInt8) (pos : Nat) (carry c : Array UInt8) (g : Nat)
    (hb : Bnd r) (hg : badGeometry flags out.size pos = false) (hmono : grantsMono ((c, g) :: calls))
    (hsus : ∀ res ∈ (runCalls flags pos0 r out pos carry ((c, g) :: calls)).dropLast, suspended res)
    (last : Res) (hlast : (runCalls flags pos0 r out pos carry ((c, g) :: calls)).getLast? = some last) :
    let one := decompress r (carry ++ catChunks ((c, g) :: calls)) out pos (pos0 + lastGrant ((c, g) :: calls) - pos) flags
    one.status = last.status ∧ one.out = last.out ∧
    one.written = sumWritten (runCalls flags pos0 r out pos carry ((c, g) :: calls)) ∧
    (one.status ≠ stFailed → one.consumed = sumConsumed (runCalls flags pos0 r out pos carry ((c, g) :: calls))) ∧
    (one.status ≠ stFailed → one.status ≠ stFailedCannotMakeProgress → one.r = last.r) :=
  runCalls_last flags pos0 calls r out pos carry c g hb hg hmono hsus last hlast

open Model.Core in
/-- With C03: a valid raw stream fed to a fresh decoder in ANY chunks with ANY non-shrinking grants
    (flat buffer) ends — whenever the calls before the last were suspended — with `Done`, exactly the
    specified bytes, and exactly ⌈bits/8⌉ bytes consumed in total. -/
theorem valid_stream_under_any_schedule (flags : Nat) (calls : List (Array UInt8 × Nat)) (out : Array UInt8)
    (c : Array UInt8) (g maxDist : Nat) (res : Spec.Inflated)
    (hflat : hasFlag flags fNonWrapping = true) (hz : hasFlag flags fParseZlib = false)
    (hstop : hasFlag flags fStopOnBlockBoundary = false)
    (hspec : Spec.inflateSpec (out.extract 0 0) maxDist (#[] ++ catChunks ((c, g) :: calls)) 0 = .accept res)
    (hroom : 0 + res.out.size ≤ min (0 + (0 + lastGrant ((c, g) :: calls) - 0)) out.size)
    (hmono : grantsMono ((c, g) :: calls))
    (hsus : ∀ r ∈ (runCalls flags 0 {} out 0 #[] ((c, g) :: calls)).dropLast, suspended r)
    (last : Res) (hlast : (runCalls flags 0 {} out 0 #[] ((c, g) :: calls)).getLast? = some last) :
    last.status = stDone ∧
    sumWritten (runCalls flags 0 {} out 0 #[] ((c, g) :: calls)) = res.out.size ∧
    sumConsumed (runCalls flags 0 {} out 0 #[] ((c, g) :: calls)) = (res.bitsUsed + 7) / 8 ∧
    (∀ i, i < res.out.size → last.out[0 + i]? = res.out[i]?) := by
  have hgeo : badGeometry flags out.size 0 = false := by
    simp [badGeometry, hflat]
  obtain ⟨h1, h2, h3, h4, _⟩ := any_number_of_calls_equal_one_call flags 0 calls {} out 0 #[] c g Bnd_fresh hgeo hmono hsus last hlast
  obtain ⟨o1, o2, o3, o4⟩ := C03.valid_raw_stream_decodes_one_shot {} (#[] ++ catChunks ((c, g) :: calls)) out 0
    (0 + lastGrant ((c, g) :: calls) - 0) flags maxDist res rfl ⟨rfl, rfl, rfl⟩ hflat hz hstop (Nat.zero_le _) hspec hroom
  refine ⟨by rw [← h1]; exact o1, by rw [← h3]; exact o2, ?_, fun i hi => by rw [← h2]; exact o4 i hi⟩
  rw [← h4 (by rw [o1]; decide)]; exact o3

open Model.Core in
/-- The same for the zlib format: header, body and the Adler-32 trailer may be cut anywhere; the
    per-call checksums compose to the checksum the trailer is compared with. -/
theorem valid_zlib_stream_under_any_schedule (flags : Nat) (calls : List (Array UInt8 × Nat)) (out : Array UInt8)
    (c : Array UInt8) (g maxDist : Nat) (zr : Spec.ZInflated)
    (hflat : hasFlag flags fNonWrapping = true) (hz : hasFlag flags fParseZlib = true)
    (hstop : hasFlag flags fStopOnBlockBoundary = false)
    (hspec : Spec.zlibSpec (out.extract 0 0) maxDist (#[] ++ catChunks ((c, g) :: calls)) true = .accept zr)
    (hroom : 0 + zr.inner.out.size ≤ min (0 + (0 + lastGrant ((c, g) :: calls) - 0)) out.size)
    (hmono : grantsMono ((c, g) :: calls))
    (hsus : ∀ r ∈ (runCalls flags 0 {} out 0 #[] ((c, g) :: calls)).dropLast, suspended r)
    (last : Res) (hlast : (runCalls flags 0 {} out 0 #[] ((c, g) :: calls)).getLast? = some last) :
    last.status = stDone ∧
    sumWritten (runCalls flags 0 {} out 0 #[] ((c, g) :: calls)) = zr.inner.out.size ∧
    sumConsumed (runCalls flags 0 {} out 0 #[] ((c, g) :: calls)) = zr.bytesUsed ∧
    (∀ i, i < zr.inner.out.size → last.out[0 + i]? = zr.inner.out[i]?) := by
  have hgeo : badGeometry flags out.size 0 = false := by
    simp [badGeometry, hflat]
  obtain ⟨h1, h2, h3, h4, _⟩ := any_number_of_calls_equal_one_call flags 0 calls {} out 0 #[] c g Bnd_fresh hgeo hmono hsus last hlast
  obtain ⟨o1, o2, o3, o4⟩ := C03.valid_zlib_stream_decodes_one_shot {} (#[] ++ catChunks ((c, g) :: calls)) out 0
    (0 + lastGrant ((c, g) :: calls) - 0) flags maxDist zr rfl ⟨rfl, rfl, rfl⟩ hflat hz hstop (Nat.zero_le _) hspec hroom
  refine ⟨by rw [← h1]; exact o1, by rw [← h3]; exact o2, ?_, fun i hi => by rw [← h2]; exact o4 i hi⟩
  rw [← h4 (by rw [o1]; decide)]; exact o3

/-! ### The more-input flag between calls

The call-level theorems above keep one flag word for all calls of a schedule, so a suspended call
necessarily carries `TINFL_FLAG_HAS_MORE_INPUT` (without it a starved call is a failure). Real drivers
drop the flag on the call that offers the last input (`inflate()` does for `Finish`). The flag is read
in one place only — when the input runs dry — and that is proved here from one equation per state
(`Lemmas/CoreFlags`): two calls whose flag words differ only in that flag make the same transitions,
and are the same call unless the input ran dry. -/
open Model.Core in
/-- ONE CALL, FOR EVERY INPUT AND REGISTER STATE: if the call under `fl` ends in a status other than
    the three a starved exit is reported as, the call under any `fl'` that differs from `fl` only in the
    more-input flag returns exactly the same result (status, counts, buffer, saved registers). -/
theorem more_input_flag_read_only_when_starved (fl fl' : Nat) (h : FlagsBut fl fl') (r : Regs) (inp out : Array UInt8)
    (outPos budget : Nat)
    (h1 : (decompress r inp out outPos budget fl).status ≠ stNeedsMoreInput)
    (h2 : (decompress r inp out outPos budget fl).status ≠ stHasMoreOutput)
    (h3 : (decompress r inp out outPos budget fl).status ≠ stFailedCannotMakeProgress) :
    decompress r inp out outPos budget fl' = decompress r inp out outPos budget fl :=
  decompress_flag_same h r inp out outPos budget h1 h2 h3

open Model.Core in
/-- … and a call without the flag that does not report "cannot make progress" is the call with it. -/
theorem dropping_the_more_input_flag (fl fl' : Nat) (h : FlagsBut fl fl') (hno : hasFlag fl' fHasMoreInput = false)
    (r : Regs) (inp out : Array UInt8) (outPos budget : Nat)
    (hs : (decompress r inp out outPos budget fl').status ≠ stFailedCannotMakeProgress) :
    decompress r inp out outPos budget fl = decompress r inp out outPos budget fl' :=
  decompress_drop_more h hno r inp out outPos budget hs

open Model.Core in
/-- When the call without the flag does starve, the call with the flag stopped at the same place:
    same bytes written, same counts, and a status that asks for more input or more room. -/
theorem starved_without_the_flag (fl fl' : Nat) (h : FlagsBut fl fl') (r : Regs) (inp out : Array UInt8)
    (outPos budget : Nat)
    (hs : (decompress r inp out outPos budget fl').status = stFailedCannotMakeProgress) :
    ((decompress r inp out outPos budget fl).status = stNeedsMoreInput ∨
      (decompress r inp out outPos budget fl).status = stHasMoreOutput ∨
      (decompress r inp out outPos budget fl).status = stFailedCannotMakeProgress) ∧
    (decompress r inp out outPos budget fl).out = (decompress r inp out outPos budget fl').out ∧
    (decompress r inp out outPos budget fl).consumed = (decompress r inp out outPos budget fl').consumed ∧
    (decompress r inp out outPos budget fl).written = (decompress r inp out outPos budget fl').written :=
  decompress_starved h r inp out outPos budget hs

open Model.Core in
/-- A VALID RAW STREAM UNDER ANY SCHEDULE WHOSE LAST CALL DROPS THE FLAG (`runCallsFin`: every call
    but the last under `fl`, the last under `fl'`): the driver makes exactly the calls of the one-flag
    driver, ends with `Done`, the specified bytes and ⌈bits/8⌉ bytes consumed. -/
theorem valid_stream_last_call_without_more_input (fl fl' : Nat) (hfl : FlagsBut fl fl')
    (calls : List (Array UInt8 × Nat)) (out : Array UInt8)
    (c : Array UInt8) (g maxDist : Nat) (res : Spec.Inflated)
    (hflat : hasFlag fl fNonWrapping = true) (hz : hasFlag fl fParseZlib = false)
    (hstop : hasFlag fl fStopOnBlockBoundary = false)
    (hspec : Spec.inflateSpec (out.extract 0 0) maxDist (#[] ++ catChunks ((c, g) :: calls)) 0 = .accept res)
    (hroom : 0 + res.out.size ≤ min (0 + (0 + lastGrant ((c, g) :: calls) - 0)) out.size)
    (hmono : grantsMono ((c, g) :: calls))
    (hsus : ∀ r ∈ (runCallsFin fl fl' 0 {} out 0 #[] ((c, g) :: calls)).dropLast, suspended r) :
    runCallsFin fl fl' 0 {} out 0 #[] ((c, g) :: calls) = runCalls fl 0 {} out 0 #[] ((c, g) :: calls) ∧
    ∃ last, (runCallsFin fl fl' 0 {} out 0 #[] ((c, g) :: calls)).getLast? = some last ∧
      last.status = stDone ∧
      sumWritten (runCallsFin fl fl' 0 {} out 0 #[] ((c, g) :: calls)) = res.out.size ∧
      sumConsumed (runCallsFin fl fl' 0 {} out 0 #[] ((c, g) :: calls)) = (res.bitsUsed + 7) / 8 ∧
      (∀ i, i < res.out.size → last.out[0 + i]? = res.out[i]?) := by
  rw [runCallsFin_dropLast] at hsus
  have hne : runCalls fl 0 {} out 0 #[] ((c, g) :: calls) ≠ [] := List.cons_ne_nil _ _
  obtain ⟨last, hlast⟩ : ∃ last, (runCalls fl 0 {} out 0 #[] ((c, g) :: calls)).getLast? = some last :=
    ⟨_, List.getLast?_eq_some_getLast hne⟩
  obtain ⟨o1, o2, o3, o4⟩ := valid_stream_under_any_schedule fl calls out c g maxDist res hflat hz hstop hspec hroom hmono hsus last hlast
  have heq := runCallsFin_eq hfl 0 ((c, g) :: calls) {} out 0 #[] last hlast
    (by rw [o1]; decide) (by rw [o1]; decide) (by rw [o1]; decide)
  rw [heq]
  exact ⟨rfl, last, hlast, o1, o2, o3, o4⟩

open Model.Core in
/-- The same for the zlib format. -/
theorem valid_zlib_stream_last_call_without_more_input (fl fl' : Nat) (hfl : FlagsBut fl fl')
    (calls : List (Array UInt8 × Nat)) (out : Array UInt8)
    (c : Array UInt8) (g maxDist : Nat) (zr : Spec.ZInflated)
    (hflat : hasFlag fl fNonWrapping = true) (hz : hasFlag fl fParseZlib = true)
    (hstop : hasFlag fl fStopOnBlockBoundary = false)
    (hspec : Spec.zlibSpec (out.extract 0 0) maxDist (#[] ++ catChunks ((c, g) :: calls)) true = .accept zr)
    (hroom : 0 + zr.inner.out.size ≤ min (0 + (0 + lastGrant ((c, g) :: calls) - 0)) out.size)
    (hmono : grantsMono ((c, g) :: calls))
    (hsus : ∀ r ∈ (runCallsFin fl fl' 0 {} out 0 #[] ((c, g) :: calls)).dropLast, suspended r) :
    runCallsFin fl fl' 0 {} out 0 #[] ((c, g) :: calls) = runCalls fl 0 {} out 0 #[] ((c, g) :: calls) ∧
    ∃ last, (runCallsFin fl fl' 0 {} out 0 #[] ((c, g) :: calls)).getLast? = some last ∧
      last.status = stDone ∧
      sumWritten (runCallsFin fl fl' 0 {} out 0 #[] ((c, g) :: calls)) = zr.inner.out.size ∧
      sumConsumed (runCallsFin fl fl' 0 {} out 0 #[] ((c, g) :: calls)) = zr.bytesUsed ∧
      (∀ i, i < zr.inner.out.size → last.out[0 + i]? = zr.inner.out[i]?) := by
  rw [runCallsFin_dropLast] at hsus
  have hne : runCalls fl 0 {} out 0 #[] ((c, g) :: calls) ≠ [] := List.cons_ne_nil _ _
  obtain ⟨last, hlast⟩ : ∃ last, (runCalls fl 0 {} out 0 #[] ((c, g) :: calls)).getLast? = some last :=
    ⟨_, List.getLast?_eq_some_getLast hne⟩
  obtain ⟨o1, o2, o3, o4⟩ := valid_zlib_stream_under_any_schedule fl calls out c g maxDist zr hflat hz hstop hspec hroom hmono hsus last hlast
  have heq := runCallsFin_eq hfl 0 ((c, g) :: calls) {} out 0 #[] last hlast
    (by rw [o1]; decide) (by rw [o1]; decide) (by rw [o1]; decide)
  rw [heq]
  exact ⟨rfl, last, hlast, o1, o2, o3, o4⟩

/-- the flag words of `inflate()`: zlib into a flat buffer, with (3 + 4) and without (1 + 4) the more-input flag -/
example : Model.Core.FlagsBut 7 5 := ⟨by decide, by decide, by decide, by decide, by decide⟩
example : Model.Core.hasFlag 5 Model.Core.fHasMoreInput = false := by decide

/-! ### Across buffer modes: a ring buffer against a flat buffer

`RingRel W base p oR oF`: the ring `oR` (size `W`, write cursor `p`, current lap started at flat
position `base`) holds the last `W` bytes of the flat buffer `oF` — below `p` the current lap, from
`p` on the previous one. `FlagsRF`: the two flags words differ only in the buffer-mode bit.
Proved from one equation per non-writing state, a content lemma per writing state (literal, stored
bytes, byte-serial match copy with the ring's modular source index), the invariant that `dist` is a
DEFLATE distance (1..32768) between the distance symbol and the end of the copy, and the epilogue.
The exception is inherent: a distance that reaches before the start of the data is rejected with a
flat buffer, while a ring (which may legitimately hold earlier history) cannot notice it. -/
open Model.Core in
/-- ONE CALL, RING = FLAT, for EVERY input and disciplined register state: unless the flat call
    reports `Failed`, the call into a ring of `W ≥ 32768` bytes reports the same status and counts and
    saves the same registers, and the ring again holds the last `W` bytes of the flat buffer. -/
theorem ring_call_equals_flat_call (r : Regs) (inp oR oF : Array UInt8) (p budget flagsR flagsF W base : Nat)
    (hb : Bnd r) (hfl : FlagsRF flagsR flagsF) (hW : oR.size = W) (hbig : 32768 ≤ W)
    (hgR : badGeometry flagsR oR.size p = false) (hbase : base + W ≤ oF.size)
    (hrel : RingRel W base p oR oF)
    (hno : (decompress r inp oF (base + p) (min budget (W - p)) flagsF).status ≠ stFailed) :
    (decompress r inp oR p budget flagsR).status = (decompress r inp oF (base + p) (min budget (W - p)) flagsF).status ∧
    (decompress r inp oR p budget flagsR).consumed = (decompress r inp oF (base + p) (min budget (W - p)) flagsF).consumed ∧
    (decompress r inp oR p budget flagsR).written = (decompress r inp oF (base + p) (min budget (W - p)) flagsF).written ∧
    (decompress r inp oR p budget flagsR).r = (decompress r inp oF (base + p) (min budget (W - p)) flagsF).r ∧
    RingRel W base (p + (decompress r inp oR p budget flagsR).written) (decompress r inp oR p budget flagsR).out
      (decompress r inp oF (base + p) (min budget (W - p)) flagsF).out :=
  decompress_ring_flat r inp oR oF p budget flagsR flagsF W base hb hfl hW hbig hgR hbase hrel hno

open Model.Core in
/-- A full ring handed back to its start (the caller has taken the `W` bytes): the relation holds
    again with the lap base moved by `W`, so the next call is again covered by the theorem above. -/
theorem ring_hand_back (W base : Nat) (oR oF : Array UInt8) (h : RingRel W base W oR oF) :
    RingRel W (base + W) 0 oR oF := h.handBack

open Model.Core in
/-- At the very start any ring is related to any flat buffer (nothing has been produced yet). -/
theorem ring_start (W : Nat) (oR oF : Array UInt8) (h : oR.size = W) : RingRel W 0 0 oR oF :=
  ⟨h, fun i hi => absurd hi (Nat.not_lt_zero _), fun i _ hiW hb => by omega⟩

open Model.Core in
/-- THE RING DRIVER, call by call. `runRing`: every call is offered the unconsumed rest plus a new
    chunk and may fill the ring up to its end; a full ring is handed back to its start. As long as
    every ring call but the last is suspended and no call of the mirroring flat driver (grants: up to
    the end of the current lap) reports `Failed`, the two drivers agree call by call: status, counts,
    registers, and the bytes the caller takes out of the ring are the bytes the flat call wrote. -/
theorem ring_driver_equals_flat_driver (flagsR flagsF W : Nat) (hfl : FlagsRF flagsR flagsF) (hbig : 32768 ≤ W)
    (chunks : List (Array UInt8)) (r : Regs) (oR oF : Array UInt8) (p base : Nat) (carry : Array UInt8)
    (hb : Bnd r) (hW : oR.size = W) (hg : badGeometry flagsR W 0 = false) (hp : p < W ∨ chunks = [])
    (hrel : RingRel W base p oR oF) (hsz : base + W * (chunks.length + 1) ≤ oF.size)
    (hsus : ∀ x ∈ (runRing flagsR W r oR p carry chunks).dropLast, suspended x.1)
    (hnf : ∀ res ∈ runCalls flagsF 0 r oF (base + p) carry (ringGrants flagsR W r oR p base carry chunks),
      res.status ≠ stFailed) :
    RunsAgree (base + p) (runRing flagsR W r oR p carry chunks)
      (runCalls flagsF 0 r oF (base + p) carry (ringGrants flagsR W r oR p base carry chunks)) :=
  runRing_agrees flagsR flagsF W hfl hbig chunks r oR oF p base carry hb hW hg hp hrel hsz hsus hnf

open Model.Core in
/-- A VALID RAW STREAM THROUGH A RING, any chunking, any number of laps. A fresh decoder, a ring of
    `W ≥ 32768` bytes, the stream cut into any chunks; every ring call but the last is suspended, the
    mirroring flat driver never reports `Failed`, and the last lap reaches the end of the plaintext.
    Then the last ring call reports `Done`, the written and consumed counts add up to the plaintext
    length and the stream length, and the bytes taken out of the ring after each call, concatenated,
    are exactly the bytes the RFC reference decoder defines. -/
theorem valid_stream_through_a_ring (flagsR flagsF W maxDist : Nat) (hfl : FlagsRF flagsR flagsF) (hbig : 32768 ≤ W)
    (c : Array UInt8) (cs : List (Array UInt8)) (oR : Array UInt8) (res : Spec.Inflated)
    (hW : oR.size = W) (hg : badGeometry flagsR W 0 = false)
    (hz : hasFlag flagsR fParseZlib = false) (hstop : hasFlag flagsR fStopOnBlockBoundary = false)
    (hspec : Spec.inflateSpec #[] maxDist (catList (c :: cs)) 0 = .accept res)
    (hroom : res.out.size ≤ lastGrant (ringGrants flagsR W {} oR 0 0 #[] (c :: cs)))
    (hsus : ∀ x ∈ (runRing flagsR W {} oR 0 #[] (c :: cs)).dropLast, suspended x.1)
    (hnf : ∀ r ∈ runCalls flagsF 0 {} (Array.replicate (W * ((c :: cs).length + 1)) 0) (0 + 0) #[]
      (ringGrants flagsR W {} oR 0 0 #[] (c :: cs)), r.status ≠ stFailed)
    (lastR : Res × Nat) (hlast : (runRing flagsR W {} oR 0 #[] (c :: cs)).getLast? = some lastR) :
    lastR.1.status = stDone ∧
    ((runRing flagsR W {} oR 0 #[] (c :: cs)).map (·.1.written)).sum = res.out.size ∧
    ((runRing flagsR W {} oR 0 #[] (c :: cs)).map (·.1.consumed)).sum = (res.bitsUsed + 7) / 8 ∧
    deliveredRing (runRing flagsR W {} oR 0 #[] (c :: cs)) = res.out := by
  have hWpos : 0 < W := by omega
  have hA := runRing_agrees flagsR flagsF W hfl hbig (c :: cs) {} oR (Array.replicate (W * ((c :: cs).length + 1)) 0) 0 0 #[]
    Bnd_fresh hW hg (Or.inl hWpos) (ring_start W oR _ hW) (by simp) hsus hnf
  generalize hfs : runCalls flagsF 0 {} (Array.replicate (W * ((c :: cs).length + 1)) 0) (0 + 0) #[]
    (ringGrants flagsR W {} oR 0 0 #[] (c :: cs)) = fs at hA
  have hfne : fs ≠ [] := RunsAgree.nonempty _ _ _ hA (by simp [runRing])
  obtain ⟨lastF, hlastF⟩ : ∃ lf, fs.getLast? = some lf := by
    cases h : fs.getLast? with
    | none => exact absurd (List.getLast?_eq_none_iff.mp h) hfne
    | some lf => exact ⟨lf, rfl⟩
  have hsusF := RunsAgree.suspended _ _ _ hA hsus
  obtain ⟨hl1, _⟩ := RunsAgree.last _ _ _ hA lastR lastF hlast hlastF
  obtain ⟨hs1, hs2⟩ := RunsAgree.sums _ _ _ hA
  have hdel := RunsAgree.deliver _ _ _ hA
  -- the flat driver against the single flat call
  have hgeoF : badGeometry flagsF (Array.replicate (W * ((c :: cs).length + 1)) (0 : UInt8)).size 0 = false := by
    simp [badGeometry, hfl.flat]
  have hgr : ringGrants flagsR W {} oR 0 0 #[] (c :: cs) =
      (c, 0 + W) :: ringGrants flagsR W (decompress {} (#[] ++ c) oR 0 (W - 0) flagsR).r
        (decompress {} (#[] ++ c) oR 0 (W - 0) flagsR).out (ringNext W (0 + (decompress {} (#[] ++ c) oR 0 (W - 0) flagsR).written))
        (baseNext W 0 (0 + (decompress {} (#[] ++ c) oR 0 (W - 0) flagsR).written))
        ((#[] ++ c).extract (decompress {} (#[] ++ c) oR 0 (W - 0) flagsR).consumed (#[] ++ c).size) cs := rfl
  have hmono := grantsMono_ringGrants flagsR W (c :: cs) {} oR 0 0 #[]
  have hcat := catChunks_ringGrants flagsR W (c :: cs) {} oR 0 0 #[]
  rw [hgr] at hfs hmono hcat hroom
  have hzero : (0 : Nat) + 0 = 0 := rfl
  rw [hzero] at hfs
  have hone := any_number_of_calls_equal_one_call flagsF 0 _ {} (Array.replicate (W * ((c :: cs).length + 1)) 0) 0 #[] c (0 + W)
    Bnd_fresh hgeoF hmono (by rw [hfs]; exact hsusF) lastF (by rw [hfs]; exact hlastF)
  rw [hfs] at hone
  dsimp only at hone
  rw [hcat] at hone
  obtain ⟨o1, o2, o3, o4, _⟩ := hone
  have hflat := C03.valid_raw_stream_decodes_one_shot {} (#[] ++ catList (c :: cs))
    (Array.replicate (W * ((c :: cs).length + 1)) 0) 0
    (0 + lastGrant ((c, 0 + W) :: ringGrants flagsR W (decompress {} (#[] ++ c) oR 0 (W - 0) flagsR).r
        (decompress {} (#[] ++ c) oR 0 (W - 0) flagsR).out (ringNext W (0 + (decompress {} (#[] ++ c) oR 0 (W - 0) flagsR).written))
        (baseNext W 0 (0 + (decompress {} (#[] ++ c) oR 0 (W - 0) flagsR).written))
        ((#[] ++ c).extract (decompress {} (#[] ++ c) oR 0 (W - 0) flagsR).consumed (#[] ++ c).size) cs) - 0)
    flagsF maxDist res rfl ⟨rfl, rfl, rfl⟩ hfl.flat (by rw [hfl.zlib]; exact hz) (by rw [hfl.stop]; exact hstop)
    (Nat.zero_le _) (by simpa using hspec) ?_
  · obtain ⟨f1, f2, f3, f4⟩ := hflat
    refine ⟨by rw [hl1, ← o1]; exact f1, by rw [hs1, ← o3]; exact f2, ?_, ?_⟩
    · rw [hs2, ← o4 (by rw [f1]; decide)]; exact f3
    · rw [hdel, hzero, ← hfs, runCalls_delivered flagsF 0 _ _ _ _ _ lastF (by rw [hfs]; exact hlastF), hfs, ← o3, f2, ← o2]
      have hsz1 := (decompress_facts {} (#[] ++ catList (c :: cs)) (Array.replicate (W * ((c :: cs).length + 1)) 0) 0
        (0 + lastGrant ((c, 0 + W) :: ringGrants flagsR W (decompress {} (#[] ++ c) oR 0 (W - 0) flagsR).r
          (decompress {} (#[] ++ c) oR 0 (W - 0) flagsR).out (ringNext W (0 + (decompress {} (#[] ++ c) oR 0 (W - 0) flagsR).written))
          (baseNext W 0 (0 + (decompress {} (#[] ++ c) oR 0 (W - 0) flagsR).written))
          ((#[] ++ c).extract (decompress {} (#[] ++ c) oR 0 (W - 0) flagsR).consumed (#[] ++ c).size) cs) - 0) flagsF).room
      rw [f2] at hsz1
      have hsz0 := (decompress_facts {} (#[] ++ catList (c :: cs)) (Array.replicate (W * ((c :: cs).length + 1)) 0) 0
        (0 + lastGrant ((c, 0 + W) :: ringGrants flagsR W (decompress {} (#[] ++ c) oR 0 (W - 0) flagsR).r
          (decompress {} (#[] ++ c) oR 0 (W - 0) flagsR).out (ringNext W (0 + (decompress {} (#[] ++ c) oR 0 (W - 0) flagsR).written))
          (baseNext W 0 (0 + (decompress {} (#[] ++ c) oR 0 (W - 0) flagsR).written))
          ((#[] ++ c).extract (decompress {} (#[] ++ c) oR 0 (W - 0) flagsR).consumed (#[] ++ c).size) cs) - 0) flagsF).size
      generalize decompress {} (#[] ++ catList (c :: cs)) (Array.replicate (W * ((c :: cs).length + 1)) 0) 0
        (0 + lastGrant ((c, 0 + W) :: ringGrants flagsR W (decompress {} (#[] ++ c) oR 0 (W - 0) flagsR).r
          (decompress {} (#[] ++ c) oR 0 (W - 0) flagsR).out (ringNext W (0 + (decompress {} (#[] ++ c) oR 0 (W - 0) flagsR).written))
          (baseNext W 0 (0 + (decompress {} (#[] ++ c) oR 0 (W - 0) flagsR).written))
          ((#[] ++ c).extract (decompress {} (#[] ++ c) oR 0 (W - 0) flagsR).consumed (#[] ++ c).size) cs) - 0) flagsF = one at f4 hsz1 hsz0 ⊢
      apply Array.ext_getElem?
      intro i
      rw [Array.getElem?_extract]
      by_cases hi : i < res.out.size
      · have := f4 i hi
        rw [Nat.zero_add] at this
        have hlt : i < min (0 + res.out.size) one.out.size - 0 := by omega
        rw [if_pos hlt, Nat.zero_add, this]
      · have hge : ¬ i < min (0 + res.out.size) one.out.size - 0 := by omega
        rw [if_neg hge]
        exact (Array.getElem?_eq_none (by omega)).symm
  · -- room for the plaintext in the single flat call
    have hle : lastGrant ((c, 0 + W) :: ringGrants flagsR W (decompress {} (#[] ++ c) oR 0 (W - 0) flagsR).r
        (decompress {} (#[] ++ c) oR 0 (W - 0) flagsR).out (ringNext W (0 + (decompress {} (#[] ++ c) oR 0 (W - 0) flagsR).written))
        (baseNext W 0 (0 + (decompress {} (#[] ++ c) oR 0 (W - 0) flagsR).written))
        ((#[] ++ c).extract (decompress {} (#[] ++ c) oR 0 (W - 0) flagsR).consumed (#[] ++ c).size) cs) ≤
        W * ((c :: cs).length + 1) := by
      rw [← hgr]
      have := lastGrant_ringGrants_le flagsR W (c :: cs) {} oR 0 0 #[] (by simp)
      have e : W * ((c :: cs).length + 1) = W * (c :: cs).length + W := Nat.mul_succ _ _
      rw [e]
      omega
    have hsize : (Array.replicate (W * ((c :: cs).length + 1)) (0 : UInt8)).size = W * ((c :: cs).length + 1) :=
      Array.size_replicate
    rw [hsize]
    refine Nat.le_min.mpr ⟨by omega, ?_⟩
    rw [Nat.zero_add]
    exact Nat.le_trans hroom hle

/-- The flag hypotheses are satisfiable: raw ring (0 / with more input 2) against raw flat (4 / 6),
    zlib ring 1 against zlib flat 5. -/
example : Model.Core.FlagsRF 0 4 ∧ Model.Core.FlagsRF 2 6 ∧ Model.Core.FlagsRF 1 5 := by
  refine ⟨⟨?_, ?_, ?_, ?_, ?_, ?_, ?_⟩, ⟨?_, ?_, ?_, ?_, ?_, ?_, ?_⟩, ⟨?_, ?_, ?_, ?_, ?_, ?_, ?_⟩⟩ <;> decide

/-- The hypotheses are satisfiable: a stored block split inside its header with a one-byte first
    grant — first call suspended, second call `Done`. -/
example : ((Model.Core.runCalls 6 0 {} (Array.replicate 4 0) 0 #[]
    [(#[0x01, 0x02, 0x00], 1), (#[0xfd, 0xff, 0x41, 0x42], 4)]).map (·.status)) =
    [Model.Core.stNeedsMoreInput, Model.Core.stDone] := by decide +kernel

open Model.Core in
/-- THE RING DRIVER AGREES WITH ITS FLAT MIRROR ON EVERY PART OF A VALID STREAM — no hypothesis about
    the mirror: whatever part of a valid stream has been supplied and whatever the window, a call is
    never a failure (`Lemmas/CoreRingValid`, from the window theorems of C08 and the input-extension
    lemma through the call composition). -/
theorem ring_driver_on_a_valid_stream (flagsR flagsF W maxDist : Nat) (hfl : FlagsRF flagsR flagsF) (hbig : 32768 ≤ W)
    (oR oF : Array UInt8) (hW : oR.size = W) (hg : badGeometry flagsR W 0 = false)
    (hz : hasFlag flagsR fParseZlib = false) (hstop : hasFlag flagsR fStopOnBlockBoundary = false)
    (chunks : List (Array UInt8)) (b : Array UInt8) (res : Spec.Inflated)
    (hspec : Spec.inflateSpec #[] maxDist (catList chunks ++ b) 0 = .accept res)
    (hsz : W * (chunks.length + 1) ≤ oF.size)
    (hsus : ∀ x ∈ (runRing flagsR W {} oR 0 #[] chunks).dropLast, suspended x.1) :
    RunsAgree 0 (runRing flagsR W {} oR 0 #[] chunks)
      (runCalls flagsF 0 {} oF 0 #[] (ringGrants flagsR W {} oR 0 0 #[] chunks)) :=
  ring_agrees_valid flagsR flagsF W maxDist hfl hbig oR oF hW hg hz hstop _ res hspec chunks.length chunks b rfl rfl hsz hsus

open Model.Core in
/-- A VALID RAW STREAM THROUGH A RING, TO THE END — any chunking, any number of laps, nothing assumed
    about the run except what a driver does: it goes on while calls are suspended. If the last call is
    neither suspended nor "cannot make progress" (the driver stopped for a reason of the decoder's),
    that reason is `Done`: the bytes taken out of the ring after each call, concatenated, are exactly
    the plaintext the reference decoder defines for the stream (whatever follows it in the input), and
    the consumed counts add up to its encoded length. -/
theorem valid_stream_through_a_ring_to_the_end (flagsR flagsF W : Nat) (hfl : FlagsRF flagsR flagsF) (hbig : 32768 ≤ W)
    (c : Array UInt8) (cs : List (Array UInt8)) (b : Array UInt8) (oR : Array UInt8) (res : Spec.Inflated)
    (hW : oR.size = W) (hg : badGeometry flagsR W 0 = false)
    (hz : hasFlag flagsR fParseZlib = false) (hstop : hasFlag flagsR fStopOnBlockBoundary = false)
    (hspec : Spec.inflateSpec #[] 32768 (catList (c :: cs) ++ b) 0 = .accept res)
    (hsus : ∀ x ∈ (runRing flagsR W {} oR 0 #[] (c :: cs)).dropLast, suspended x.1)
    (lastR : Res × Nat) (hlast : (runRing flagsR W {} oR 0 #[] (c :: cs)).getLast? = some lastR)
    (hstopped : ¬ suspended lastR.1) (hnc : lastR.1.status ≠ stFailedCannotMakeProgress) :
    lastR.1.status = stDone ∧
    deliveredRing (runRing flagsR W {} oR 0 #[] (c :: cs)) = res.out ∧
    ((runRing flagsR W {} oR 0 #[] (c :: cs)).map (·.1.consumed)).sum = (res.bitsUsed + 7) / 8 := by
  have hA := ring_driver_on_a_valid_stream flagsR flagsF W 32768 hfl hbig oR (Array.replicate (W * ((c :: cs).length + 1)) 0) hW hg hz hstop
    (c :: cs) b res hspec (by simp) hsus
  generalize hfs : runCalls flagsF 0 {} (Array.replicate (W * ((c :: cs).length + 1)) 0) 0 #[]
    (ringGrants flagsR W {} oR 0 0 #[] (c :: cs)) = fs at hA
  have hfne : fs ≠ [] := RunsAgree.nonempty _ _ _ hA (by simp [runRing])
  obtain ⟨lastF, hlastF⟩ : ∃ lf, fs.getLast? = some lf := by
    cases h : fs.getLast? with
    | none => exact absurd (List.getLast?_eq_none_iff.mp h) hfne
    | some lf => exact ⟨lf, rfl⟩
  have hsusF := RunsAgree.suspended _ _ _ hA hsus
  obtain ⟨hl1, _⟩ := RunsAgree.last _ _ _ hA lastR lastF hlast hlastF
  -- the flat driver against the single flat call on everything supplied
  have hgeoF : badGeometry flagsF (Array.replicate (W * ((c :: cs).length + 1)) (0 : UInt8)).size 0 = false := by
    simp [badGeometry, hfl.flat]
  have hgr : ringGrants flagsR W {} oR 0 0 #[] (c :: cs) =
      (c, 0 + W) :: ringGrants flagsR W (decompress {} (#[] ++ c) oR 0 (W - 0) flagsR).r
        (decompress {} (#[] ++ c) oR 0 (W - 0) flagsR).out (ringNext W (0 + (decompress {} (#[] ++ c) oR 0 (W - 0) flagsR).written))
        (baseNext W 0 (0 + (decompress {} (#[] ++ c) oR 0 (W - 0) flagsR).written))
        ((#[] ++ c).extract (decompress {} (#[] ++ c) oR 0 (W - 0) flagsR).consumed (#[] ++ c).size) cs := rfl
  have hmono := grantsMono_ringGrants flagsR W (c :: cs) {} oR 0 0 #[]
  have hcat := catChunks_ringGrants flagsR W (c :: cs) {} oR 0 0 #[]
  have hroomG := lastGrant_ringGrants_le flagsR W (c :: cs) {} oR 0 0 #[] (by simp)
  rw [hgr] at hfs hmono hcat hroomG
  have hone := any_number_of_calls_equal_one_call flagsF 0 _ {} (Array.replicate (W * ((c :: cs).length + 1)) 0) 0 #[] c (0 + W)
    Bnd_fresh hgeoF hmono (by rw [hfs]; exact hsusF) lastF (by rw [hfs]; exact hlastF)
  dsimp only at hone
  rw [hcat] at hone
  -- that single call is `Done`: it is not a failure, and the driver says it is not suspended or starved
  have hpre : (Array.replicate (W * ((c :: cs).length + 1)) (0 : UInt8)).extract 0 0 = #[] := by simp
  have hnever := prefix_never_fails {} (#[] ++ catList (c :: cs)) b (Array.replicate (W * ((c :: cs).length + 1)) 0) 0
    (0 + lastGrant ((c, 0 + W) :: ringGrants flagsR W (decompress {} (#[] ++ c) oR 0 (W - 0) flagsR).r
        (decompress {} (#[] ++ c) oR 0 (W - 0) flagsR).out (ringNext W (0 + (decompress {} (#[] ++ c) oR 0 (W - 0) flagsR).written))
        (baseNext W 0 (0 + (decompress {} (#[] ++ c) oR 0 (W - 0) flagsR).written))
        ((#[] ++ c).extract (decompress {} (#[] ++ c) oR 0 (W - 0) flagsR).consumed (#[] ++ c).size) cs) - 0)
    flagsF 32768 res rfl ⟨rfl, rfl, rfl⟩ hfl.flat (by rw [hfl.zlib]; exact hz) (by rw [hfl.stop]; exact hstop) (Nat.zero_le _)
    (by rw [hpre, Array.empty_append]; exact hspec)
  rw [hone.1, ← hl1] at hnever
  have hdone : lastR.1.status = stDone := by
    rcases hnever with h | h | h | h
    · exact h
    · exact absurd (.inr h) hstopped
    · exact absurd (.inl h) hstopped
    · exact absurd h hnc
  -- so the reference decoder accepts what was supplied, and it fits the last grant (C04 converse)
  have honeDone : (decompress {} (#[] ++ catList (c :: cs)) (Array.replicate (W * ((c :: cs).length + 1)) 0) 0
      (0 + lastGrant ((c, 0 + W) :: ringGrants flagsR W (decompress {} (#[] ++ c) oR 0 (W - 0) flagsR).r
        (decompress {} (#[] ++ c) oR 0 (W - 0) flagsR).out (ringNext W (0 + (decompress {} (#[] ++ c) oR 0 (W - 0) flagsR).written))
        (baseNext W 0 (0 + (decompress {} (#[] ++ c) oR 0 (W - 0) flagsR).written))
        ((#[] ++ c).extract (decompress {} (#[] ++ c) oR 0 (W - 0) flagsR).consumed (#[] ++ c).size) cs) - 0) flagsF).status = stDone := by
    rw [hone.1, ← hl1]; exact hdone
  rcases done_raw_flat {} _ _ 0 _ flagsF rfl ⟨rfl, rfl, rfl⟩ hfl.flat (by rw [hfl.zlib]; exact hz) (by rw [hfl.stop]; exact hstop)
    (Nat.zero_le _) honeDone with ⟨resA, haccA, hroomA⟩ | hfuel
  · rw [hpre, Array.empty_append] at haccA
    -- the same plaintext and length as for the whole input (C06)
    obtain ⟨res', hacc', hout', hlen'⟩ := C06.reference_decoder_ignores_trailing_bytes #[] (catList (c :: cs)) b resA haccA
    rw [hspec] at hacc'
    simp only [Spec.Verdict.accept.injEq] at hacc'
    subst hacc'
    have hnfAll : ∀ r ∈ runCalls flagsF 0 {} (Array.replicate (W * ((c :: cs).length + 1)) 0) (0 + 0) #[]
        (ringGrants flagsR W {} oR 0 0 #[] (c :: cs)), r.status ≠ stFailed := by
      intro r' hr'
      rw [hgr] at hr'
      have hr'' : r' ∈ fs := by rw [← hfs]; exact hr'
      by_cases hlastq : r' ∈ fs.dropLast
      · exact suspended_ne_failed (hsusF r' hlastq)
      · have : r' = lastF := by
          have hdl := List.dropLast_concat_getLast hfne
          rw [← hdl] at hr''
          rcases List.mem_append.mp hr'' with h | h
          · exact absurd h hlastq
          · simp only [List.mem_singleton] at h
            rw [h]
            have := List.getLast?_eq_some_getLast hfne
            rw [hlastF] at this
            exact (Option.some.inj this).symm
        rw [this, ← hl1, hdone]; decide
    have hfin := valid_stream_through_a_ring flagsR flagsF W 32768 hfl hbig c cs oR resA hW hg hz hstop haccA
      (by rw [hgr]; have := hroomA; simp only [Nat.zero_add, Nat.sub_zero] at this; omega) hsus hnfAll lastR hlast
    exact ⟨hfin.1, by rw [hfin.2.2.2, hout'], by rw [hfin.2.2.1, hlen']⟩
  · exact absurd hfuel (Spec.inflateSpec_ne_fuel _ _ _ _)


open Model.Core in
/-- … and whatever the driver does, on any part of a valid raw stream the last ring call (the earlier
    ones being suspended) ends in one of four statuses — never `Failed`, a checksum or a parameter
    error. -/
theorem ring_last_call_status_on_a_valid_stream (flagsR flagsF W maxDist : Nat) (hfl : FlagsRF flagsR flagsF) (hbig : 32768 ≤ W)
    (oR : Array UInt8) (hW : oR.size = W) (hg : badGeometry flagsR W 0 = false)
    (hz : hasFlag flagsR fParseZlib = false) (hstop : hasFlag flagsR fStopOnBlockBoundary = false)
    (c : Array UInt8) (cs : List (Array UInt8)) (b : Array UInt8) (res : Spec.Inflated)
    (hspec : Spec.inflateSpec #[] maxDist (catList (c :: cs) ++ b) 0 = .accept res)
    (hsus : ∀ x ∈ (runRing flagsR W {} oR 0 #[] (c :: cs)).dropLast, suspended x.1)
    (lastR : Res × Nat) (hlast : (runRing flagsR W {} oR 0 #[] (c :: cs)).getLast? = some lastR) :
    lastR.1.status = stDone ∨ lastR.1.status = stHasMoreOutput ∨ lastR.1.status = stNeedsMoreInput ∨
    lastR.1.status = stFailedCannotMakeProgress :=
  ring_last_status_valid flagsR flagsF W maxDist hfl hbig oR hW hg hz hstop c cs b res hspec hsus lastR hlast

end C07
