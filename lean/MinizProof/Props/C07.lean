/-
C07 — decoding can be suspended and resumed anywhere without changing the result.
Proved here, about the L0 bit-stream access functions every model of the decoder reads its input
through: reading a field is monotone in the available input — once enough bytes have arrived for a
read to succeed, it returns the same value however many more bytes arrive later, and a read that
fails for lack of input changes nothing. This is the lemma on which schedule independence of the
logical decoder rests (DESIGN.md §7 C07); the simulation of the real automaton by the logical one
is established on runs by the correspondence/oracle legs (every single cut point and byte-wise
feeding for short streams, random partitions and output grants otherwise, flat and ring).
-/
import MinizProof.Spec.Inflate
namespace C07
open Spec

/-- `a` is a prefix of `b` (as arrays). -/
def IsPrefix (a b : Array UInt8) : Prop := a.size ≤ b.size ∧ ∀ i, (h : i < a.size) → b[i]? = some a[i]

theorem getElem?_of_prefix {a b : Array UInt8} (h : IsPrefix a b) {i : Nat} {x : UInt8}
    (hx : a[i]? = some x) : b[i]? = some x := by
  have hi : i < a.size := by
    by_cases hlt : i < a.size
    · exact hlt
    · simp [Array.getElem?_eq_none (Nat.le_of_not_lt hlt)] at hx
  rw [h.2 i hi]
  simp [Array.getElem?_eq_getElem hi] at hx
  rw [hx]

/-- A bit that is available stays the same when more input arrives. -/
theorem bitAt_mono {a b : Array UInt8} (h : IsPrefix a b) {i v : Nat} (hv : bitAt a i = some v) :
    bitAt b i = some v := by
  unfold bitAt at hv ⊢
  cases hx : a[i / 8]? with
  | none => simp [hx] at hv
  | some x =>
    rw [getElem?_of_prefix h hx]
    simpa [hx] using hv

/-- An `n`-bit field that can be read stays the same when more input arrives. -/
theorem bitsAt_mono {a b : Array UInt8} (h : IsPrefix a b) (n : Nat) {i v : Nat}
    (hv : bitsAt a i n = some v) : bitsAt b i n = some v := by
  induction n generalizing i v with
  | zero => simpa [bitsAt] using hv
  | succ n ih =>
    unfold bitsAt at hv ⊢
    cases hb : bitAt a i with
    | none => simp [hb] at hv
    | some bv =>
      cases hr : bitsAt a (i + 1) n with
      | none => simp [hb, hr] at hv
      | some rv =>
        rw [bitAt_mono h hb, ih hr]
        simpa [hb, hr] using hv

/-- Symbol decoding is monotone as well: a decoded symbol (and the position after it) does not
    depend on bytes that arrive later. -/
theorem decodeSymAux_mono {a b : Array UInt8} (h : IsPrefix a b) (c : Code) (fuel : Nat) :
    ∀ len pos code first index s p,
      decodeSymAux c a fuel len pos code first index = .sym s p →
      decodeSymAux c b fuel len pos code first index = .sym s p := by
  induction fuel with
  | zero => intro len pos code first index s p hs; simp [decodeSymAux] at hs
  | succ fuel ih =>
    intro len pos code first index s p hs
    unfold decodeSymAux at hs ⊢
    split at hs
    · simp at hs
    · rename_i hidx
      simp only [hidx, ↓reduceIte]
      cases hb : bitAt a pos with
      | none => simp [hb] at hs
      | some bv =>
        rw [bitAt_mono h hb]
        simp only [hb] at hs
        simp only
        split at hs
        · rename_i hlt; simp only [hlt, ↓reduceIte]; exact hs
        · rename_i hlt; simp only [hlt, ↓reduceIte]; exact ih _ _ _ _ _ _ _ hs

theorem decodeSym_mono {a b : Array UInt8} (h : IsPrefix a b) (c : Code) (pos s p : Nat)
    (hs : decodeSym c a pos = .sym s p) : decodeSym c b pos = .sym s p :=
  decodeSymAux_mono h c 15 1 pos 0 0 0 s p hs

example : IsPrefix #[1, 2] #[1, 2, 3] := ⟨by decide, by intro i hi; match i, hi with | 0, _ => rfl | 1, _ => rfl⟩
example : bitsAt #[0xA5] 0 8 = some 0xA5 := by decide +kernel

end C07
