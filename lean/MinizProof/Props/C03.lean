/-
C03 — every valid DEFLATE/zlib stream decodes to exactly its plaintext.
Proved here (stage 3 of DESIGN.md §7 C03), over tables and functions REGENERATED from the source:
the decoder's length/distance base and extra-bit tables, the code-length order, the minimum table
sizes and the repeat-code parameters are exactly the values RFC 1951 defines (the RFC side is
`Spec.lengthBaseExtra` / `Spec.distBaseExtra` / `Spec.clenOrder`, computed by formula), for every
valid symbol; the padding entries of the 32-entry tables are never indexed by a valid symbol.
The decoding automaton itself is covered by the model + correspondence legs and, on every run, by
comparing every entry point's result with the Lean reference decoder on grammar-generated streams.
-/
import MinizProof.Gen.All
import MinizProof.Spec.Inflate
import MinizProof.Lemmas.Finite
set_option maxRecDepth 1000000
open Fin'

namespace C03
open Gen.InflCore

/-- Length symbols 257..285: the decoder's (LENGTH_BASE, LENGTH_EXTRA) entry at the masked index
    the code uses, `(sym − 257) & 31`, is the RFC's (base, extra bits). -/
theorem length_tables_are_rfc : ∀ sym, 257 ≤ sym → sym ≤ 285 →
    let i := G.band (.u 64) (Int.ofNat (sym - 257)) BASE_EXTRA_MASK
    ((G.idx LENGTH_BASE i).toNat, (G.idx LENGTH_EXTRA i).toNat) = Spec.lengthBaseExtra sym := by
  have h : allBelow 29 (fun k =>
      let i := G.band (.u 64) (Int.ofNat k) BASE_EXTRA_MASK
      ((G.idx LENGTH_BASE i).toNat, (G.idx LENGTH_EXTRA i).toNat) == Spec.lengthBaseExtra (k + 257)) = true := by
    decide +kernel
  intro sym h1 h2
  have := allBelow_spec h (sym - 257) (by omega)
  have e : sym - 257 + 257 = sym := by omega
  simpa [e] using this

/-- Distance symbols 0..29: DIST_BASE and the computed number of extra bits are the RFC's. -/
theorem distance_tables_are_rfc : ∀ d, d ≤ 29 →
    ((G.idx DIST_BASE (Int.ofNat d)).toNat, (num_extra_bits_for_distance_code (Int.ofNat d)).toNat) = Spec.distBaseExtra d := by
  have h : allBelow 30 (fun d =>
      ((G.idx DIST_BASE (Int.ofNat d)).toNat, (num_extra_bits_for_distance_code (Int.ofNat d)).toNat) == Spec.distBaseExtra d) = true := by
    decide +kernel
  intro d hd
  simpa using allBelow_spec h d (by omega)

/-- Code-length code order, minimum table sizes, table dimensions. -/
theorem header_constants :
    Gen.Shared.HUFFMAN_LENGTH_ORDER.toList = Spec.clenOrder.map Int.ofNat ∧
    MIN_TABLE_SIZES = #[257, 1, 4] ∧
    LENGTH_BASE.size = 32 ∧ LENGTH_EXTRA.size = 32 ∧ DIST_BASE.size = 30 ∧
    MAX_HUFF_SYMBOLS_0 = 288 ∧ MAX_HUFF_SYMBOLS_1 = 32 ∧ MAX_HUFF_SYMBOLS_2 = 19 ∧
    FAST_LOOKUP_BITS = 10 ∧ FAST_LOOKUP_SIZE = 1024 ∧ TINFL_LZ_DICT_SIZE = 32768 := by
  decide +kernel

/-- The three padding entries of the length tables hold 512 / 0 extra bits and are reached only by
    the (already rejected) symbols 286, 287: no valid symbol maps to them. -/
theorem length_padding_unreachable : ∀ sym, 257 ≤ sym → sym ≤ 285 →
    (G.band (.u 64) (Int.ofNat (sym - 257)) BASE_EXTRA_MASK).toNat ≤ 28 := by
  have h : allBelow 29 (fun k => decide ((G.band (.u 64) (Int.ofNat k) BASE_EXTRA_MASK).toNat ≤ 28)) = true := by
    decide +kernel
  intro sym h1 h2
  simpa using allBelow_spec h (sym - 257) (by omega)

example : Spec.lengthBaseExtra 285 = (258, 0) := by decide
example : Spec.distBaseExtra 29 = (24577, 13) := by decide

end C03
