/-
C03 — every valid DEFLATE/zlib stream decodes to exactly its plaintext.
Proved here (stage 3 of DESIGN.md §7 C03), over tables and functions REGENERATED from the source:
the decoder's length/distance base and extra-bit tables, the code-length order, the minimum table
sizes and the repeat-code parameters are exactly the values RFC 1951 defines (the RFC side is
`Spec.lengthBaseExtra` / `Spec.distBaseExtra` / `Spec.clenOrder`, computed by formula), for every
valid symbol; the padding entries of the 32-entry tables are never indexed by a valid symbol.
The decoding automaton itself is covered by the model + correspondence legs and, on every run, by
comparing every entry point's result with the Lean reference decoder on grammar-generated streams.
-/
import MinizProof.Gen.All
import MinizProof.Spec.Inflate
import MinizProof.Lemmas.Finite
import MinizProof.Lemmas.CoreRefine
import MinizProof.Lemmas.CoreZlib
import MinizProof.Lemmas.CoreRingCalls
set_option maxRecDepth 1000000
open Fin'

namespace C03
open Gen.InflCore

/-- Length symbols 257..285: the decoder's (LENGTH_BASE, LENGTH_EXTRA) entry at the masked index
    the code uses, `(sym − 257) & 31`, is the RFC's (base, extra bits). -/
theorem length_tables_are_rfc : ∀ sym, 257 ≤ sym → sym ≤ 285 →
    let i := G.band (.u 64) (Int.ofNat (sym - 257)) BASE_EXTRA_MASK
    ((G.idx LENGTH_BASE i).toNat, (G.idx LENGTH_EXTRA i).toNat) = Spec.lengthBaseExtra sym := by
  have h : allBelow 29 (fun k =>
      let i := G.band (.u 64) (Int.ofNat k) BASE_EXTRA_MASK
      ((G.idx LENGTH_BASE i).toNat, (G.idx LENGTH_EXTRA i).toNat) == Spec.lengthBaseExtra (k + 257)) = true := by
    decide +kernel
  intro sym h1 h2
  have := allBelow_spec h (sym - 257) (by omega)
  have e : sym - 257 + 257 = sym := by omega
  simpa [e] using this

/-- Distance symbols 0..29: DIST_BASE and the computed number of extra bits are the RFC's. -/
theorem distance_tables_are_rfc : ∀ d, d ≤ 29 →
    ((G.idx DIST_BASE (Int.ofNat d)).toNat, (num_extra_bits_for_distance_code (Int.ofNat d)).toNat) = Spec.distBaseExtra d := by
  have h : allBelow 30 (fun d =>
      ((G.idx DIST_BASE (Int.ofNat d)).toNat, (num_extra_bits_for_distance_code (Int.ofNat d)).toNat) == Spec.distBaseExtra d) = true := by
    decide +kernel
  intro d hd
  simpa using allBelow_spec h d (by omega)

/-- Code-length code order, minimum table sizes, table dimensions. -/
theorem header_constants :
    Gen.Shared.HUFFMAN_LENGTH_ORDER.toList = Spec.clenOrder.map Int.ofNat ∧
    MIN_TABLE_SIZES = #[257, 1, 4] ∧
    LENGTH_BASE.size = 32 ∧ LENGTH_EXTRA.size = 32 ∧ DIST_BASE.size = 30 ∧
    MAX_HUFF_SYMBOLS_0 = 288 ∧ MAX_HUFF_SYMBOLS_1 = 32 ∧ MAX_HUFF_SYMBOLS_2 = 19 ∧
    FAST_LOOKUP_BITS = 10 ∧ FAST_LOOKUP_SIZE = 1024 ∧ TINFL_LZ_DICT_SIZE = 32768 := by
  decide +kernel

/-- The three padding entries of the length tables hold 512 / 0 extra bits and are reached only by
    the (already rejected) symbols 286, 287: no valid symbol maps to them. -/
theorem length_padding_unreachable : ∀ sym, 257 ≤ sym → sym ≤ 285 →
    (G.band (.u 64) (Int.ofNat (sym - 257)) BASE_EXTRA_MASK).toNat ≤ 28 := by
  have h : allBelow 29 (fun k => decide ((G.band (.u 64) (Int.ofNat k) BASE_EXTRA_MASK).toNat ≤ 28)) = true := by
    decide +kernel
  intro sym h1 h2
  simpa using allBelow_spec h (sym - 257) (by omega)

/-! ### Refinement: the decoder model against the RFC reference decoder

`Model.Core.decompress` is the hand model of `decompress_with_limit` (tied to the code by the ICALL
correspondence on every real call of every run); `Spec.inflateSpec` is the reference decoder written
from RFC 1951. The theorem below quantifies over EVERY input byte string, every output buffer, start
position, budget, history `pre` already in the buffer and flags word with a flat buffer: it is proved
by simulation — bit-buffer representation invariant (`Lemmas/CoreBits`), one lemma per automaton
state, induction over the token loop (`Lemmas/CoreTokens`), the code-length loop and the dynamic
header (`Lemmas/CoreDynamic`), stored blocks at any bit alignment (`Lemmas/CoreBlocks`), induction
over the block loop and a fuel argument resting on the termination measure (`Lemmas/CoreRefine`).
It covers everything the property lists: 11–15-bit codes, degenerate one-symbol codes, empty and
stored blocks at any alignment, code-length runs crossing the literal/distance boundary, length-258
and distance-32768 matches, overlapping copies — because it covers every stream the RFC decoder accepts. -/
open Model.Core in
/-- Every raw DEFLATE stream the RFC reference decoder accepts is decoded by ONE call of the model
    (flat output buffer with room for the plaintext, decoder at `Start`) to exactly the specified
    bytes, reported as `Done`, with exactly ⌈bits used / 8⌉ input bytes consumed — whatever follows
    the stream in the input. Bytes before `outPos` are the history matches may reach into. -/
theorem valid_raw_stream_decodes_one_shot (r : Regs) (inp out : Array UInt8) (outPos budget flags maxDist : Nat)
    (res : Spec.Inflated) (hstart : r.state = sStart)
    (hshape : r.rawHeader.size = 4 ∧ r.tableSizes.size = 3 ∧ r.lenCodes.size = 512)
    (hflat : hasFlag flags fNonWrapping = true) (hz : hasFlag flags fParseZlib = false)
    (hstop : hasFlag flags fStopOnBlockBoundary = false) (hpos : outPos ≤ out.size)
    (hspec : Spec.inflateSpec (out.extract 0 outPos) maxDist inp 0 = .accept res)
    (hroom : outPos + res.out.size ≤ min (outPos + budget) out.size) :
    (decompress r inp out outPos budget flags).status = stDone ∧
    (decompress r inp out outPos budget flags).written = res.out.size ∧
    (decompress r inp out outPos budget flags).consumed = (res.bitsUsed + 7) / 8 ∧
    (∀ i, i < res.out.size → (decompress r inp out outPos budget flags).out[outPos + i]? = res.out[i]?) :=
  refine_raw_flat r inp out outPos budget flags maxDist res hstart hshape hflat hz hstop hpos hspec hroom

open Model.Core in
/-- The same for the zlib format (RFC 1950 header, DEFLATE body, big-endian Adler-32 trailer): every
    stream `Spec.zlibSpec` accepts is decoded by one model call to exactly its plaintext, `Done`,
    with exactly header + body + trailer bytes consumed. -/
theorem valid_zlib_stream_decodes_one_shot (r : Regs) (inp out : Array UInt8) (outPos budget flags maxDist : Nat)
    (zr : Spec.ZInflated) (hstart : r.state = sStart)
    (hshape : r.rawHeader.size = 4 ∧ r.tableSizes.size = 3 ∧ r.lenCodes.size = 512)
    (hflat : hasFlag flags fNonWrapping = true) (hz : hasFlag flags fParseZlib = true)
    (hstop : hasFlag flags fStopOnBlockBoundary = false) (hpos : outPos ≤ out.size)
    (hspec : Spec.zlibSpec (out.extract 0 outPos) maxDist inp true = .accept zr)
    (hroom : outPos + zr.inner.out.size ≤ min (outPos + budget) out.size) :
    (decompress r inp out outPos budget flags).status = stDone ∧
    (decompress r inp out outPos budget flags).written = zr.inner.out.size ∧
    (decompress r inp out outPos budget flags).consumed = zr.bytesUsed ∧
    (∀ i, i < zr.inner.out.size → (decompress r inp out outPos budget flags).out[outPos + i]? = zr.inner.out[i]?) := by
  obtain ⟨cmf, flg, a, b, c, d, h0, h1, hv, hi, ha, hb, hc, hd, hadl, hused⟩ := zlibSpec_inv hspec
  have h := refine_zlib_flat r inp out outPos budget flags maxDist zr.inner cmf flg a b c d hstart hshape hflat hz hstop
    hpos h0 h1 hv hi ha hb hc hd hroom
  refine ⟨?_, h.2.1, by rw [h.2.2.1, hused], h.2.2.2⟩
  rw [h.1, if_neg]
  intro hh
  exact hh.2 (hadl rfl)

open Model.Core in
/-- RING BUFFER. Every raw DEFLATE stream the RFC reference decoder accepts whose plaintext fits the
    granted part of a ring buffer of `W ≥ 32768` bytes is decoded by one call of the model INTO THE RING
    to exactly the specified bytes, `Done`, exact count — via the ring/flat theorem (`Lemmas/CoreRing`)
    and the flat refinement above. (Streams longer than the ring: the ring is handed back to its start
    between calls; `C07.ring_call_equals_flat_call` + `C07.ring_hand_back` + the call-composition
    theorem cover every such schedule call by call.) -/
theorem valid_raw_stream_decodes_in_a_ring (inp oR : Array UInt8) (budget flagsR flagsF maxDist W : Nat)
    (res : Spec.Inflated) (hfl : FlagsRF flagsR flagsF) (hz : hasFlag flagsR fParseZlib = false)
    (hstop : hasFlag flagsR fStopOnBlockBoundary = false)
    (hW : oR.size = W) (hbig : 32768 ≤ W) (hgR : badGeometry flagsR oR.size 0 = false)
    (hspec : Spec.inflateSpec #[] maxDist inp 0 = .accept res)
    (hroom : res.out.size ≤ min budget W) :
    (decompress {} inp oR 0 budget flagsR).status = stDone ∧
    (decompress {} inp oR 0 budget flagsR).written = res.out.size ∧
    (decompress {} inp oR 0 budget flagsR).consumed = (res.bitsUsed + 7) / 8 ∧
    (∀ i, i < res.out.size → (decompress {} inp oR 0 budget flagsR).out[i]? = res.out[i]?) := by
  have hflat := valid_raw_stream_decodes_one_shot {} inp (Array.replicate W 0) 0 (min budget (W - 0)) flagsF maxDist res rfl
    ⟨rfl, rfl, rfl⟩ hfl.flat (by rw [hfl.zlib]; exact hz) (by rw [hfl.stop]; exact hstop) (Nat.zero_le _)
    (by simpa using hspec) (by simp; omega)
  obtain ⟨f1, f2, f3, f4⟩ := hflat
  have hring := decompress_ring_flat {} inp oR (Array.replicate W 0) 0 budget flagsR flagsF W 0 Bnd_fresh hfl hW hbig hgR
    (by simp) ⟨hW, fun i hi => absurd hi (Nat.not_lt_zero _), fun i _ hiW hb => by omega⟩
    (by rw [Nat.zero_add, f1]; decide)
  rw [Nat.zero_add] at hring
  obtain ⟨r1, r2, r3, _, r5⟩ := hring
  refine ⟨r1.trans f1, r3.trans f2, r2.trans f3, fun i hi => ?_⟩
  have := r5.2.1 i (by rw [Nat.zero_add, r3, f2]; exact hi)
  rw [this, Nat.zero_add]
  have := f4 i hi
  rw [Nat.zero_add] at this
  exact this

/-- The hypotheses are satisfiable: a fresh decoder is at `Start` with registers of the right shape,
    and the reference decoder accepts concrete stored and fixed-Huffman streams (with a trailing byte). -/
example : ({} : Model.Core.Regs).state = Model.Core.sStart ∧ ({} : Model.Core.Regs).rawHeader.size = 4 ∧
    ({} : Model.Core.Regs).tableSizes.size = 3 ∧ ({} : Model.Core.Regs).lenCodes.size = 512 := by decide
example : (match Spec.inflateSpec #[] 32768 #[0x01, 0x01, 0x00, 0xfe, 0xff, 0x41, 0x99] 0 with
  | .accept r => r.out == #[0x41] && r.bitsUsed == 48 | _ => false) = true := by decide +kernel
example : (match Spec.inflateSpec #[] 32768 #[0x73, 0x04, 0x00] 0 with
  | .accept r => r.out == #[0x41] && r.bitsUsed == 18 | _ => false) = true := by decide +kernel

example : Spec.lengthBaseExtra 285 = (258, 0) := by decide
example : Spec.distBaseExtra 29 = (24577, 13) := by decide

end C03
