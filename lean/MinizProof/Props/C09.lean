/-
C09 — zlib framing is produced correctly and verified on decode.
Over definitions REGENERATED from the source.
Emit side: for every header level and every window_bits a compressor can hold, the two header
bytes satisfy RFC 1950 (`Spec.zlibHeaderValid`, written from the RFC).
Decode side: `validate_zlib_header` accepts exactly the RFC-valid headers (all 65 536 of them) for
a flat buffer, and for a ring buffer additionally requires ring size ≥ declared window.
-/
import MinizProof.Gen.All
import MinizProof.Spec.Inflate
import MinizProof.Lemmas.Finite
import MinizProof.Lemmas.GenArith
import MinizProof.Lemmas.CoreZlib
import MinizProof.Lemmas.EncZlib
import MinizProof.Props.C10
set_option maxRecDepth 1000000
open Fin'

namespace C09
open Gen.Zlib Gen.InflCore

/-- The header level derived from any flags word is one of 0..3 (so `level << 6` fits a byte). -/
theorem level_lt_four (flags : Int) : 0 ≤ zlib_level_from_flags flags ∧ zlib_level_from_flags flags < 4 := by
  unfold zlib_level_from_flags
  simp only [Id.run, pure]
  split <;> split <;> omega

/-- Emitted header: CM = 8, CINFO = max(wb,8) − 8 ≤ 7, FDICT = 0, FCHECK makes CMF·256+FLG a
    multiple of 31 (including the case where the remainder is already 0), FLEVEL = level. -/
theorem header_valid : ∀ level wb, level < 4 → wb < 16 →
    let h := header_from_level (Int.ofNat level) (Int.ofNat wb)
    Spec.zlibHeaderValid (G.idx h 0).toNat (G.idx h 1).toNat = true ∧
    (G.idx h 1).toNat / 64 = level ∧ h.size = 2 := by
  have hh : allBelow 4 (fun l => allBelow 16 (fun w =>
      let h := header_from_level (Int.ofNat l) (Int.ofNat w)
      Spec.zlibHeaderValid (G.idx h 0).toNat (G.idx h 1).toNat && ((G.idx h 1).toNat / 64 == l) && (h.size == 2))) = true := by
    decide +kernel
  intro level wb hl hw
  have := allBelow_spec (allBelow_spec hh level hl) wb hw
  simp only [Bool.and_eq_true, beq_iff_eq] at this
  exact ⟨this.1.1, this.1.2, this.2⟩

def accepts (cmf flg flags mask : Int) : Bool :=
  validate_zlib_header cmf flg flags mask == G.Action.jump State.ReadBlockHeader

def rejects (cmf flg flags mask : Int) : Bool :=
  validate_zlib_header cmf flg flags mask == G.Action.jump State.BadZlibHeader

/-- Flat output buffer (the mask the decoder really passes is `usize::MAX`): accepted iff RFC-valid;
    everything else goes to the `BadZlibHeader` failure state. All 65 536 headers. -/
theorem validate_flat_iff : ∀ cmf flg : Nat, cmf < 256 → flg < 256 →
    accepts cmf flg TINFL_FLAG_USING_NON_WRAPPING_OUTPUT_BUF (G.tyMax (.u 64)) = Spec.zlibHeaderValid cmf flg ∧
    rejects cmf flg TINFL_FLAG_USING_NON_WRAPPING_OUTPUT_BUF (G.tyMax (.u 64)) = !Spec.zlibHeaderValid cmf flg := by
  have h : allBelow 256 (fun c => allBelow 256 (fun f =>
      (accepts c f TINFL_FLAG_USING_NON_WRAPPING_OUTPUT_BUF (G.tyMax (.u 64)) == Spec.zlibHeaderValid c f) &&
      (rejects c f TINFL_FLAG_USING_NON_WRAPPING_OUTPUT_BUF (G.tyMax (.u 64)) == !Spec.zlibHeaderValid c f))) = true := by
    decide +kernel
  intro cmf flg hc hf
  have := allBelow_spec (allBelow_spec h cmf hc) flg hf
  simp only [Bool.and_eq_true, beq_iff_eq] at this
  exact this

theorem flag_clear : (G.band (.u 32) (0:Int) TINFL_FLAG_USING_NON_WRAPPING_OUTPUT_BUF == 0) = true := by decide +kernel
theorem flag_set : (G.band (.u 32) TINFL_FLAG_USING_NON_WRAPPING_OUTPUT_BUF TINFL_FLAG_USING_NON_WRAPPING_OUTPUT_BUF == 0) = false := by decide +kernel
theorem bad_ne_ok : (G.Action.jump State.BadZlibHeader == G.Action.jump State.ReadBlockHeader) = false := by decide +kernel

/-- The window the header declares, as the decoder computes it. -/
def declaredWindow (cmf : Int) : Int := 1 * G.two ^ (G.add (.u 32) (G.shr (.u 32) cmf 4) 8).toNat

/-- Ring buffer (flag clear), for EVERY cmf, flg and mask (no bound): accepted iff the flat rule
    accepts and the ring (mask + 1, as the u64 the code computes) is at least the declared window. -/
theorem validate_ring (cmf flg mask m2 : Int) :
    accepts cmf flg 0 mask =
      (accepts cmf flg TINFL_FLAG_USING_NON_WRAPPING_OUTPUT_BUF m2 &&
       !decide (G.add (.u 64) mask 1 < declaredWindow cmf)) := by
  unfold accepts validate_zlib_header declaredWindow
  simp only [Id.run, pure, flag_clear, flag_set, ↓reduceIte, Bool.false_eq_true]
  split <;> split <;> simp_all [bad_ne_ok] <;> omega

/-- Consequence for the real byte range: a ring of `ring` bytes (mask = ring − 1) accepts a header
    iff it is RFC-valid and `ring ≥ 2^(CINFO+8)`. -/
theorem declaredWindow_table : allBelow 256 (fun c => declaredWindow (Int.ofNat c) == Int.ofNat (2 ^ (c / 16 + 8))) = true := by
    decide +kernel

theorem declaredWindow_eq (cmf : Nat) (hc : cmf < 256) : declaredWindow (cmf : Int) = ((2 ^ (cmf / 16 + 8) : Nat) : Int) := by
    have := allBelow_spec declaredWindow_table cmf hc
    simp only [beq_iff_eq] at this
    exact this

theorem ring_mask_succ (ring : Nat) (hr0 : 0 < ring) (hr : ring < 2^64) : G.add (.u 64) ((ring - 1 : Nat) : Int) 1 = (ring : Int) := by
    rw [G.add_u64_of_lt (by omega) (by omega)]; omega

/-- Consequence for the real byte range: a ring of `ring` bytes (mask = ring − 1) accepts a header
    iff it is RFC-valid and `ring ≥ 2^(CINFO+8)`. -/
theorem validate_ring_iff : ∀ cmf flg : Nat, cmf < 256 → flg < 256 → ∀ ring : Nat, 0 < ring → ring < 2 ^ 64 →
    accepts cmf flg 0 ((ring - 1 : Nat) : Int) =
      (Spec.zlibHeaderValid cmf flg && decide (2 ^ (cmf / 16 + 8) ≤ ring)) := by
  intro cmf flg hc hf ring hr0 hr
  have h1 := validate_ring (cmf:Int) (flg:Int) ((ring - 1 : Nat) : Int) (G.tyMax (.u 64))
  have h2 := (validate_flat_iff cmf flg hc hf).1
  rw [h1, h2, declaredWindow_eq cmf hc, ring_mask_succ ring hr0 hr]
  congr 1
  generalize 2 ^ (cmf / 16 + 8) = w
  by_cases h : w ≤ ring
  · have : ¬ ((ring : Int) < (w : Int)) := by omega
    simp [h, this]
  · have : ((ring : Int) < (w : Int)) := by omega
    simp [h, this]

example : Spec.zlibHeaderValid 0x78 0x9C = true := by decide +kernel
example : accepts 0x78 0x9C 0 32767 = true := by decide +kernel
example : accepts 0x78 0x9C 0 16383 = false := by decide +kernel
example : declaredWindow 0x78 = 32768 := by decide +kernel

/-! ### Decode side, over the decoder model (`Model.Core.decompress`, ICALL correspondence) -/
open Model.Core in
/-- COMPLETION ONLY WITH A MATCHING TRAILER. For every input whose zlib header is valid and whose
    DEFLATE body the RFC reference decoder accepts (flat buffer with room, decoder at Start): the
    call reports `Done` iff the four trailer bytes are the big-endian Adler-32 of exactly the bytes
    produced — any other trailer yields `Adler32Mismatch` — unless the caller set the ignore flag, in
    which case no comparison is made. Counts and bytes are the specification's in all three cases. -/
theorem zlib_trailer_is_verified (r : Regs) (inp out : Array UInt8) (outPos budget flags maxDist : Nat)
    (res : Spec.Inflated) (cmf flg a b c d : UInt8) (hstart : r.state = sStart)
    (hshape : r.rawHeader.size = 4 ∧ r.tableSizes.size = 3 ∧ r.lenCodes.size = 512)
    (hflat : hasFlag flags fNonWrapping = true) (hz : hasFlag flags fParseZlib = true)
    (hstop : hasFlag flags fStopOnBlockBoundary = false) (hpos : outPos ≤ out.size)
    (h0 : inp[0]? = some cmf) (h1 : inp[1]? = some flg) (hv : Spec.zlibHeaderValid cmf.toNat flg.toNat = true)
    (hspec : Spec.inflateSpec (out.extract 0 outPos) maxDist inp 16 = .accept res)
    (ha : inp[(res.bitsUsed + 7) / 8]? = some a) (hb : inp[(res.bitsUsed + 7) / 8 + 1]? = some b)
    (hc : inp[(res.bitsUsed + 7) / 8 + 2]? = some c) (hd : inp[(res.bitsUsed + 7) / 8 + 3]? = some d)
    (hroom : outPos + res.out.size ≤ min (outPos + budget) out.size) :
    (decompress r inp out outPos budget flags).status =
      (if hasFlag flags fIgnoreAdler = false ∧
          Spec.adler32 1 res.out.toList ≠ ((a.toNat * 256 + b.toNat) * 256 + c.toNat) * 256 + d.toNat
       then stAdler32Mismatch else stDone) ∧
    (decompress r inp out outPos budget flags).written = res.out.size ∧
    (decompress r inp out outPos budget flags).consumed = (res.bitsUsed + 7) / 8 + 4 :=
  let h := refine_zlib_flat r inp out outPos budget flags maxDist res cmf flg a b c d hstart hshape hflat hz hstop
    hpos h0 h1 hv hspec ha hb hc hd hroom
  ⟨h.1, h.2.1, h.2.2.1⟩

/-! ### The framing as an encoder specification (see Props/C10 for the DEFLATE body) -/
open Model.Core Spec in
/-- THE REFERENCE ZLIB DECODER INVERTS THE FRAMING: header bytes CMF, FLG (any RFC-valid pair), then any
    well-formed sequence of static / dynamic / stored blocks from bit 16, zero padding to the byte
    boundary, then the Adler-32 of the blocks' expansion most significant byte first — every byte
    string holding these bits is accepted by `Spec.zlibSpec` with the checksum verified, its plaintext
    is the expansion, and exactly header + body + trailer bytes are used (whatever follows). -/
theorem zlib_encoding_round_trip (cmf flg : Nat) (hc : cmf < 256) (hf : flg < 256) (hv : zlibHeaderValid cmf flg = true)
    (maxDist : Nat) (data : Array UInt8) (bs : List EncBlock) (hok : C10.StreamOk maxDist #[] bs)
    (h : HasBits data 0 (zlibBits cmf flg bs)) :
    ∃ zr, zlibSpec #[] maxDist data true = .accept zr ∧ zr.inner.out = expandBlocks #[] #[] bs ∧
      zr.bytesUsed = (16 + (blocksBits 16 bs).length + 7) / 8 + 4 :=
  zlibSpec_enc cmf flg hc hf hv maxDist data bs (hok.blocksOk maxDist bs #[]) h

open Model.Core Spec in
/-- … in particular with the header the COMPRESSOR writes (`header_from_level`, regenerated from the
    source) for every level field 0..3 and every window_bits 0..15. -/
theorem emitted_header_with_a_conforming_body_is_accepted (level wb : Nat) (hl : level < 4) (hw : wb < 16)
    (maxDist : Nat) (data : Array UInt8) (bs : List EncBlock) (hok : C10.StreamOk maxDist #[] bs)
    (h : HasBits data 0 (zlibBits (G.idx (header_from_level (Int.ofNat level) (Int.ofNat wb)) 0).toNat
      (G.idx (header_from_level (Int.ofNat level) (Int.ofNat wb)) 1).toNat bs)) :
    ∃ zr, zlibSpec #[] maxDist data true = .accept zr ∧ zr.inner.out = expandBlocks #[] #[] bs := by
  have hb : allBelow 4 (fun l => allBelow 16 (fun w =>
      decide ((G.idx (header_from_level (Int.ofNat l) (Int.ofNat w)) 0).toNat < 256) &&
      decide ((G.idx (header_from_level (Int.ofNat l) (Int.ofNat w)) 1).toNat < 256))) = true := by decide +kernel
  have hlt := allBelow_spec (allBelow_spec hb level hl) wb hw
  simp only [Bool.and_eq_true, decide_eq_true_eq] at hlt
  obtain ⟨zr, h1, h2, _⟩ := zlib_encoding_round_trip _ _ hlt.1 hlt.2 (header_valid level wb hl hw).1 maxDist data bs hok h
  exact ⟨zr, h1, h2⟩

end C09
