/-
C19 — decoder snapshots resume identically: clone, serialisation, block boundary.
Decided here over the PROGRAM-TEXT facts regenerated from the source: the decoder state structs
derive Clone and (under the serde feature) Serialize + Deserialize; no field is skipped; every
array field longer than 32 elements (serde's built-in limit) carries `serde(with = "BigArray")`
and its length — a constant REGENERATED from the source — is one of the lengths instantiated by
`big_array!`; the boundary record's five fields. So a (de)serialised copy carries every register.
That continuing from a clone / a serialise-deserialise copy / a decoder rebuilt from the boundary
record plus 32 KiB of output gives identical results is checked per run at every inter-call point
and every block boundary; the bit positions of the stops are compared with the block ends of the
Lean reference decoder's trace (exactly one stop per non-final block).
-/
import MinizProof.Gen.Facts
set_option maxRecDepth 1000000
namespace C19
open PT Gen.Facts

def serdeComplete (s : Struct) : Bool :=
  s.deriveSerde && s.deriveClone &&
  s.fields.all (fun f => !f.serdeSkip &&
    match arrLen f.ty with
    | some n => if n > 32 then f.bigArray && bigArrayLens.contains n else !f.bigArray
    | none => !f.bigArray)

theorem decoder_state_fully_serialised :
    (match findStruct structs ty_DecompressorOxide with | some s => serdeComplete s && s.fields.length == 19 | none => false) = true ∧
    (match findStruct structs ty_HuffmanTable with | some s => serdeComplete s && s.fields.length == 2 | none => false) = true ∧
    (match findStruct structs ty_BlockBoundaryState with | some s => s.deriveSerde && s.deriveClone && s.fields.length == 5 | none => false) = true ∧
    (match findStruct structs ty_State with | some s => s.deriveSerde && s.deriveClone && s.isEnum && s.unitOnly | none => false) = true := by
  decide +kernel

/-- The array lengths in use are the constants of the source, and `big_array!` lists exactly the long ones. -/
theorem big_array_lengths :
    bigArrayLens = [288, 512, 576, 1024] ∧
    Gen.InflCore.MAX_HUFF_SYMBOLS_0 = 288 ∧ Gen.InflCore.LEN_CODES_SIZE = 512 ∧
    Gen.InflCore.MAX_HUFF_TREE_SIZE = 576 ∧ Gen.InflCore.FAST_LOOKUP_SIZE = 1024 := by
  decide +kernel

/-- The stop flag is a distinct bit that no other inflate flag uses. -/
theorem stop_flag_distinct :
    Gen.InflCore.TINFL_FLAG_STOP_ON_BLOCK_BOUNDARY = 128 ∧
    [Gen.InflCore.TINFL_FLAG_PARSE_ZLIB_HEADER, Gen.InflCore.TINFL_FLAG_HAS_MORE_INPUT,
     Gen.InflCore.TINFL_FLAG_USING_NON_WRAPPING_OUTPUT_BUF, Gen.InflCore.TINFL_FLAG_COMPUTE_ADLER32,
     Gen.InflCore.TINFL_FLAG_IGNORE_ADLER32] = [1, 2, 4, 8, 64] ∧
    Gen.InflMod.TINFLStatus.BlockBoundary = 3 := by
  decide +kernel

end C19
