/-
C01 — one-shot compress/decompress is lossless for every input and level.
Theorems proved here (see DESIGN.md §7 C01 for the decomposition and what remains by contract).
Subject of the Gen theorems: the functions REGENERATED from /repo's source in Gen/All.lean.
-/
import MinizProof.Gen.All
import MinizProof.Lemmas.Finite
import MinizProof.Props.C02
import MinizProof.Lemmas.VecLoops
set_option maxRecDepth 1000000
open Fin'

namespace C01
open Gen.DeflCore

/-- `compress_to_vec(_zlib)` passes `level.into()` (u8 → i32, so 0..255), `window_bits ∈ {0,1}`
    and strategy 0 to `create_comp_flags_from_zip_params`. -/
def flagsFor (level : Nat) (zlib : Nat) : Int :=
  create_comp_flags_from_zip_params (Int.ofNat level) (Int.ofNat zlib) 0

/-- "values above 10 behave as 10": for every u8 level above 10 the compressor is created with
    exactly the flags of level 10, in both formats, so it is the same compressor. -/
theorem level_clamp : ∀ level zlib, level < 256 → zlib < 2 → 10 < level →
    flagsFor level zlib = flagsFor 10 zlib := by
  have h : allBelow 256 (fun l => allBelow 2 (fun z =>
      if 10 < l then flagsFor l z == flagsFor 10 z else true)) = true := by decide +kernel
  intro level zlib hl hz h10
  have := allBelow_spec (allBelow_spec h level hl) zlib hz
  simpa [h10] using this

/-- Every u8 level yields flags whose probe count is one of the table entries and whose
    format bit follows the requested format (raw: no zlib header; zlib: header). -/
theorem flags_wellformed : ∀ level zlib, level < 256 → zlib < 2 →
    (G.band (.u 32) (flagsFor level zlib) TDEFL_WRITE_ZLIB_HEADER != 0) = (zlib == 1) ∧
    (G.band (.u 32) (flagsFor level zlib) MAX_PROBES_MASK ≤ 1500) ∧
    ((G.band (.u 32) (flagsFor level zlib) TDEFL_FORCE_ALL_RAW_BLOCKS != 0) = (level == 0)) := by
  have h : allBelow 256 (fun l => allBelow 2 (fun z =>
      ((G.band (.u 32) (flagsFor l z) TDEFL_WRITE_ZLIB_HEADER != 0) == (z == 1)) &&
      decide (G.band (.u 32) (flagsFor l z) MAX_PROBES_MASK ≤ 1500) &&
      ((G.band (.u 32) (flagsFor l z) TDEFL_FORCE_ALL_RAW_BLOCKS != 0) == (l == 0)))) = true := by
    decide +kernel
  intro level zlib hl hz
  have := allBelow_spec (allBelow_spec h level hl) zlib hz
  simp only [Bool.and_eq_true, beq_iff_eq, decide_eq_true_eq] at this
  exact ⟨this.1.1, this.1.2, this.2⟩

/-- The grow-and-retry loop of `compress_to_vec` re-enters `compress` after a call that stopped in
    the middle of the input; what makes that lossless is that every engine exit stores all cached
    registers back (program-text theorem proved in Props/C02, re-checked here). -/
theorem engines_resume_exactly :
    Gen.Facts.engineExits.all (fun e => e.2.2.2.1.all (fun f => e.2.2.2.2.contains f)) = true :=
  C02.engine_exits_store_all_cached_registers.1

/-- The LZ code buffer cannot overflow between two of the engines' fullness tests (theorem over
    constants regenerated from the source, proved in Props/C02, re-checked here: an overflow corrupts
    the block for inputs that fill the buffer at one particular alignment). -/
theorem lz_code_buffer_never_overflows :
    (∀ N ∈ Gen.DeflCore.LZ_TIGHT_SLACK_NORMAL.toList, ∀ pos : Int, 0 ≤ pos → pos ≤ Gen.Buffer.LZ_CODE_BUF_SIZE - N →
        pos + (RECORD_LITERAL_CODES + RECORD_MATCH_CODES + 1) ≤ Gen.Buffer.LZ_CODE_BUF_SIZE) :=
  C02.lz_code_buffer_never_overflows.1

-- non-vacuity: level 200 really is a u8 level above 10 and maps to level 10's flags
example : flagsFor 200 1 = flagsFor 10 1 := level_clamp 200 1 (by decide) (by decide) (by decide)
example : flagsFor 10 1 = 0x1000 + 1500 := by decide +kernel

/-! ### The grow-and-retry loop of `compress_to_vec` (`Model.Vec.compressToVec`, VECD correspondence) -/
/-- For EVERY behaviour of the inner `compress` that keeps its contract (status Okay or Done — which
    C02 `staging_protocol` shows is all a Finish-only schedule can get — and never more input reported
    consumed than is left), the loop of `compress_to_vec_inner` never reaches its
    `panic!("Bug! Unexpectedly failed to compress!")` arm, for every input length and however often the
    output vector has to double. -/
theorem compress_to_vec_never_panics (inLen : Nat) (script : List Model.Vec.Resp)
    (h : Model.Vec.Respects inLen script) : ∀ cs, Model.Vec.compressToVec inLen script ≠ .panic cs :=
  Model.Vec.compressToVec_never_panics inLen script h

example : Model.Vec.compressToVec 100 [⟨0, 100, 50⟩, ⟨1, 0, 7⟩] = .ok 57 [(100, 50, 0), (0, 100, 50)] := by decide
example : Model.Vec.Respects 100 [⟨0, 100, 50⟩, ⟨1, 0, 7⟩] := by simp [Model.Vec.Respects, Model.Vec.dOkay, Model.Vec.dDone]

end C01
