/-
C10 — compressor output is valid for independent decoders and honours level/strategy.
Over tables and functions REGENERATED from the source:
 * the compressor's length/distance symbol + extra-bit tables are inverted by the RFC formulas of
   Spec/Inflate (`lengthBaseExtra`, `distBaseExtra`) for EVERY match length 3..258 and EVERY
   distance 1..32768 (the lookup expressions of `compress_lz_codes`/`record_match` are restated
   here as `lenCode`/`distCode`; that restatement is hand-written);
 * routing: which engine each flag word selects, and the mode facts that follow from flags alone.
Validity of the emitted token stream itself is checked by the Lean reference decoder on every run
(oracle leg); see DESIGN.md §7 C10.
-/
import MinizProof.Gen.All
import MinizProof.Spec.Inflate
import MinizProof.Lemmas.Finite
import MinizProof.Props.C02
import MinizProof.Props.C03
import MinizProof.Lemmas.EncDynamic
import MinizProof.Lemmas.EncStored
import MinizProof.Lemmas.DeflRle
import MinizProof.Lemmas.HuffLimit
import MinizProof.Lemmas.HuffValid
set_option maxRecDepth 1000000
open Fin'

namespace C10
open Gen.DeflCore

/-- `compress_lz_codes`: symbol, number of extra bits, extra value for the stored length byte `c = len − 3`. -/
def lenCode (c : Nat) : Nat × Nat × Nat :=
  let sym := (G.band (.u 8) (G.idx LEN_SYM c) 31).toNat + LEN_SYM_OFFSET.toNat
  let ne := (G.idx LEN_EXTRA c).toNat
  let ev := (G.band (.u 64) (Int.ofNat c) (G.idx BITMASKS (G.band (.u 8) (G.idx LEN_EXTRA c) 7))).toNat
  (sym, ne, ev)

/-- `compress_lz_codes`: symbol, number of extra bits, extra value for the stored distance `d = dist − 1`. -/
def distCode (d : Nat) : Nat × Nat × Nat :=
  let sym := if d < 512 then (G.idx SMALL_DIST_SYM d).toNat else (G.idx LARGE_DIST_SYM (d / 256)).toNat
  let ne := if d < 512 then (G.idx SMALL_DIST_EXTRA (d / 4)).toNat else (G.idx LARGE_DIST_EXTRA (d / 256)).toNat
  let ev := (G.band (.u 64) (Int.ofNat d) (G.idx BITMASKS (Int.ofNat (ne % 16)))).toNat
  (sym, ne, ev)

def lenOk (c : Nat) : Bool :=
  let (sym, ne, ev) := lenCode c
  let (base, e) := Spec.lengthBaseExtra sym
  decide (257 ≤ sym) && decide (sym ≤ 285) && (e == ne) && (base + ev == c + 3) && decide (ev < 2 ^ ne)

def distOk (d : Nat) : Bool :=
  let (sym, ne, ev) := distCode d
  let (base, e) := Spec.distBaseExtra sym
  decide (sym ≤ 29) && (e == ne) && (base + ev == d + 1) && decide (ev < 2 ^ ne)

/-- Every match length 3..258 is encoded as a length symbol 257..285 plus extra bits that the
    RFC formula decodes back to the same length. -/
theorem length_codes_inverse : ∀ len, 3 ≤ len → len ≤ 258 → lenOk (len - 3) = true := by
  have h : allBelow 256 lenOk = true := by decide +kernel
  intro len h3 h258
  exact allBelow_spec h (len - 3) (by omega)

/-- One row of the large-distance tables (index `h = d / 256`) is right for all 256 values of
    the low byte. Only per-row lookups; the inner loop is arithmetic. -/
def largeRowOk (h : Nat) : Bool :=
  let sym := (G.idx LARGE_DIST_SYM h).toNat
  let ne := (G.idx LARGE_DIST_EXTRA h).toNat
  let mask := G.idx BITMASKS (Int.ofNat (ne % 16))
  let (base, e) := Spec.distBaseExtra sym
  decide (sym ≤ 29) && (e == ne) &&
  allBelow 256 (fun lo =>
    let d := 256 * h + lo
    let ev := (G.band (.u 64) (Int.ofNat d) mask).toNat
    (base + ev == d + 1) && decide (ev < 2 ^ ne))

theorem small_distances : ∀ d, d < 512 → distOk d = true := by
  have h : allBelow 512 distOk = true := by decide +kernel
  exact fun d hd => allBelow_spec h d hd

theorem large_rows : ∀ h, 2 ≤ h → h < 128 → largeRowOk h = true := by
  have hh : allBelow 128 (fun h => if 2 ≤ h then largeRowOk h else true) = true := by decide +kernel
  intro h h2 h128
  simpa [h2] using allBelow_spec hh h h128

/-- Every distance 1..32768 is encoded as a distance symbol 0..29 plus extra bits that the RFC
    formula decodes back to the same distance. -/
theorem distance_codes_inverse : ∀ dist, 1 ≤ dist → dist ≤ 32768 → distOk (dist - 1) = true := by
  intro dist h1 h2
  by_cases hs : dist - 1 < 512
  · exact small_distances _ hs
  · have hrow := large_rows ((dist - 1) / 256) (by omega) (by omega)
    unfold largeRowOk at hrow
    simp only [Bool.and_eq_true] at hrow
    obtain ⟨⟨hsym, he⟩, hall⟩ := hrow
    have hlo := allBelow_spec hall ((dist - 1) % 256) (Nat.mod_lt _ (by decide))
    have hd : 256 * ((dist - 1) / 256) + (dist - 1) % 256 = dist - 1 := Nat.div_add_mod _ _
    simp only [hd, Bool.and_eq_true] at hlo
    unfold distOk distCode
    simp only [hs, ↓reduceIte, Bool.and_eq_true]
    exact ⟨⟨⟨hsym, he⟩, hlo.1⟩, hlo.2⟩

/-- `record_match` counts the same distance symbol that `compress_lz_codes` later emits
    (its extra `& 127` on the table index is the identity for distances up to 32768). -/
theorem record_match_same_symbol : ∀ d : Nat, d < 32768 →
    (if d < 512 then G.idx SMALL_DIST_SYM (Int.ofNat d) else G.idx LARGE_DIST_SYM (Int.ofNat ((d / 256) % 128))) =
    (if d < 512 then G.idx SMALL_DIST_SYM (Int.ofNat d) else G.idx LARGE_DIST_SYM (Int.ofNat (d / 256))) := by
  intro d hd
  have : (d / 256) % 128 = d / 256 := Nat.mod_eq_of_lt (by omega)
  rw [this]

/-- Flags of every (level 0..10, strategy 0..4, format) as `create_comp_flags_from_zip_params` builds them. -/
def flagsOf (level strategy zlib : Nat) : Int :=
  create_comp_flags_from_zip_params (Int.ofNat level) (Int.ofNat zlib) (Int.ofNat strategy)

/-- Mode facts that follow from the flag word alone, for all 11 × 5 × 2 configurations:
    level 0 is routed to `compress_stored` with FORCE_ALL_RAW_BLOCKS; the Fixed strategy sets
    FORCE_ALL_STATIC_BLOCKS; Huffman-only has zero probes (so `find_match` returns at once) and
    is never routed to `compress_fast`; RLE and Filtered set their flags and are routed to
    `compress_normal`. -/
theorem mode_flags : ∀ level strategy zlib, level < 11 → strategy < 5 → zlib < 2 →
    let f := flagsOf level strategy zlib
    (level = 0 → route f = 0 ∧ G.band (.u 32) f TDEFL_FORCE_ALL_RAW_BLOCKS ≠ 0) ∧
    (level ≠ 0 → route f ≠ 0) ∧
    (level ≠ 0 → strategy = 4 → G.band (.u 32) f TDEFL_FORCE_ALL_STATIC_BLOCKS ≠ 0) ∧
    (level ≠ 0 → strategy = 2 → G.band (.u 32) f MAX_PROBES_MASK = 0 ∧ route f = 2 ∧ G.idx (probes_from_flags f) 0 = 1) ∧
    (level ≠ 0 → strategy = 3 → G.band (.u 32) f TDEFL_RLE_MATCHES ≠ 0 ∧ route f = 2) ∧
    (level ≠ 0 → strategy = 1 → G.band (.u 32) f TDEFL_FILTER_MATCHES ≠ 0 ∧ route f = 2) := by
  have h : allBelow 11 (fun l => allBelow 5 (fun s => allBelow 2 (fun z =>
      let f := flagsOf l s z
      (if l = 0 then (route f == 0) && (G.band (.u 32) f TDEFL_FORCE_ALL_RAW_BLOCKS != 0) else
        (route f != 0) &&
        (if s = 4 then G.band (.u 32) f TDEFL_FORCE_ALL_STATIC_BLOCKS != 0 else true) &&
        (if s = 2 then (G.band (.u 32) f MAX_PROBES_MASK == 0) && (route f == 2) && (G.idx (probes_from_flags f) 0 == 1) else true) &&
        (if s = 3 then (G.band (.u 32) f TDEFL_RLE_MATCHES != 0) && (route f == 2) else true) &&
        (if s = 1 then (G.band (.u 32) f TDEFL_FILTER_MATCHES != 0) && (route f == 2) else true))))) = true := by
    decide +kernel
  intro level strategy zlib hl hs hz
  have := allBelow_spec (allBelow_spec (allBelow_spec h level hl) strategy hs) zlib hz
  by_cases h0 : level = 0
  · simp only [h0, ↓reduceIte, Bool.and_eq_true, beq_iff_eq, bne_iff_ne, ne_eq] at this
    simp [h0, this]
  · simp only [h0, ↓reduceIte, Bool.and_eq_true, bne_iff_ne, ne_eq] at this
    obtain ⟨⟨⟨⟨a, b⟩, c⟩, d⟩, e⟩ := this
    refine ⟨fun x => absurd x h0, fun _ => a, ?_, ?_, ?_, ?_⟩
    · intro _ hs4; simpa [hs4] using b
    · intro _ hs2; subst hs2; simp only [↓reduceIte, Bool.and_eq_true, beq_iff_eq] at c; exact ⟨c.1.1, c.1.2, c.2⟩
    · intro _ hs3; simpa [hs3] using d
    · intro _ hs1; simpa [hs1] using e

example : lenCode 255 = (285, 0, 0) := by decide +kernel
example : distCode 32767 = (29, 13, 8191) := by decide +kernel

/-- The emitted bits are the codes: `compress_lz_codes` never pushes more bits into its 64-bit
    accumulator than it holds (otherwise high bits of a code are silently dropped in release builds
    and the stream is invalid or decodes to other bytes). Same statement as `C02.lz_bitbuffer_never_overflows`,
    over the same regenerated constants (literal batch size, code-size limits, extra-bit tables);
    restated here because validity of the output for independent decoders is this property. -/
theorem emitted_codes_fit_the_bit_buffer :
    let codeMax := max (C02.maxOf Gen.DeflCore.DYN_CODE_SIZE_LIMITS) (C02.maxOf Gen.DeflCore.STATIC_CODE_SIZE_LIMITS)
    7 + max (Gen.DeflCore.LZ_LITERAL_BATCH * codeMax)
            (codeMax + C02.maxOf Gen.DeflCore.LEN_EXTRA + codeMax +
              max (C02.maxOf Gen.DeflCore.SMALL_DIST_EXTRA) (C02.maxOf Gen.DeflCore.LARGE_DIST_EXTRA)) ≤ 64 ∧
    codeMax ≤ 15 ∧ G.idx Gen.DeflCore.DYN_CODE_SIZE_LIMITS 2 ≤ 7 := C02.lz_bitbuffer_never_overflows

/-! ### An encoder specification, and the reference decoder inverts it

Everything the checks conclude about compressed data rests on the Lean reference decoder
(`Spec.inflateSpec`): it defines "valid" and "the plaintext". To make it more than a text to be
believed, here is the other direction of RFC 1951 written down independently — canonical code
assignment (first code of each length + rank), tokens as symbols with extra-bit values, static and
dynamic blocks with their headers, the code-length alphabet with ANY run-length coding of the code
lengths — and the proof that the reference decoder reads every such encoding back to exactly the
LZ77 expansion of its tokens (`Lemmas/HuffCanon, EncTokens, EncBlocks, EncDynamic`). With C03 the
decoder MODEL then decodes every conforming encoding, too. "The stream holds these bits" is the
predicate `HasBits`; nothing is assumed about what follows them. -/
open Model.Core Spec in
/-- THE REFERENCE DECODER INVERTS THE CANONICAL CODE (RFC 1951 §3.2.2): for every set of code lengths
    that is not over-subscribed and every symbol `s` with a non-zero length `L ≤ 15`, if the stream
    holds from bit `pos` the `L` bits of `canonCode lens s` (first code of length `L` + rank of `s`
    among the symbols of that length), most significant first, then the counting decoder returns `s`
    and the position right after them; and that code fits `L` bits. -/
theorem canonical_code_round_trip (lens : Array Nat) (data : Array UInt8) (pos s r : Nat) (hs : s < lens.size)
    (hk : kraftLeft (countLens lens) = some r) (h1 : 1 ≤ lens.getD s 0) (h15 : lens.getD s 0 ≤ 15)
    (hbits : ∀ i, i < lens.getD s 0 → bitAt data (pos + i) = some (codeBit (canonCode lens s) (lens.getD s 0) i)) :
    decodeSym (mkCode lens) data pos = .sym s (pos + lens.getD s 0) ∧ canonCode lens s < 2 ^ lens.getD s 0 :=
  canonical_code_is_decoded lens data pos s r hs hk h1 h15 hbits

open Model.Core in
/-- the blocks an encoder may write: static-Huffman, dynamic-Huffman with a well-formed header, or
    stored (up to 65535 bytes, zero padding to the byte boundary) -/
inductive StdBlock : EncBlock → Prop
  | static (final : Bool) (toks : List SymTok) : StdBlock (encStatic final toks)
  | dynamic (final : Bool) (h : DynHdr) (toks : List SymTok) : h.Ok → StdBlock (encDynamic final h toks)
  | stored (final : Bool) (bytes : List Nat) : bytes.length ≤ 65535 → (∀ b ∈ bytes, b < 256) → StdBlock (encStored final bytes)

open Model.Core in
/-- a well-formed stream of such blocks: tokens expressible with the block's codes, every match
    reaching back over bytes that exist (at most `maxDist`), exactly the last block marked final -/
def StreamOk (maxDist : Nat) : Array UInt8 → List EncBlock → Prop
  | _, [] => False
  | out, [b] => b.final = true ∧ StdBlock b ∧ ToksOk b.litLens b.distLens #[] maxDist out b.toks
  | out, b :: b' :: rest => b.final = false ∧ StdBlock b ∧ ToksOk b.litLens b.distLens #[] maxDist out b.toks ∧
      StreamOk maxDist (expandToks #[] out b.toks) (b' :: rest)

open Model.Core in
theorem StdBlock.decodes {b : EncBlock} (h : StdBlock b) (maxDist : Nat) : b.Decodes #[] maxDist ∧ ∀ p, b.bits p ≠ [] := by
  cases h with
  | static final toks =>
    refine ⟨encStatic_decodes #[] maxDist final toks, fun p hh => ?_⟩
    have := congrArg List.length hh
    simp [encStatic, bitsLE_length] at this
  | dynamic final hd toks hok =>
    refine ⟨encDynamic_decodes #[] maxDist final hd hok toks, fun p hh => ?_⟩
    have := congrArg List.length hh
    simp [encDynamic, bitsLE_length] at this
  | stored final bytes hl hb =>
    refine ⟨encStored_decodes #[] maxDist final bytes hl hb, fun p hh => ?_⟩
    have := congrArg List.length hh
    simp [encStored, bitsLE_length] at this

open Model.Core in
theorem StreamOk.blocksOk (maxDist : Nat) : ∀ (bs : List EncBlock) (out : Array UInt8), StreamOk maxDist out bs →
    BlocksOk #[] maxDist out bs := by
  intro bs
  induction bs with
  | nil => intro out h; exact h
  | cons b rest ih =>
    intro out h
    cases rest with
    | nil =>
      obtain ⟨hf, hs, ht⟩ := h
      exact ⟨hf, (hs.decodes maxDist).2, (hs.decodes maxDist).1, ht⟩
    | cons b' rest' =>
      obtain ⟨hf, hs, ht, hr⟩ := h
      exact ⟨hf, (hs.decodes maxDist).2, (hs.decodes maxDist).1, ht, ih _ hr⟩

open Model.Core Spec in
/-- THE REFERENCE DECODER INVERTS THE ENCODER SPECIFICATION: a byte string that holds, from its first
    bit, the bits of any well-formed sequence of static, dynamic and stored blocks — any tokens, any valid
    code lengths, any run-length coding of them in the header — is accepted by `Spec.inflateSpec`
    with exactly the LZ77 expansion of the tokens as its plaintext and exactly those bits consumed,
    whatever follows. -/
theorem deflate_encoding_round_trip (maxDist : Nat) (data : Array UInt8) (bs : List EncBlock)
    (hok : StreamOk maxDist #[] bs) (h : HasBits data 0 (blocksBits 0 bs)) :
    ∃ res, inflateSpec #[] maxDist data 0 = .accept res ∧ res.out = expandBlocks #[] #[] bs ∧
      res.bitsUsed = (blocksBits 0 bs).length :=
  inflateSpec_enc maxDist data bs (hok.blocksOk maxDist bs #[]) h

open Model.Core Spec in
/-- … AND SO DOES THE DECODER MODEL (with C03): one call on such a byte string, flat buffer with room
    for the expansion, reports `Done`, has written exactly the expansion and consumed exactly the
    encoding (rounded up to a byte). -/
theorem decoder_model_decodes_every_conforming_encoding (data out : Array UInt8) (budget flags : Nat) (bs : List EncBlock)
    (hflat : hasFlag flags fNonWrapping = true) (hz : hasFlag flags fParseZlib = false)
    (hstop : hasFlag flags fStopOnBlockBoundary = false)
    (hok : StreamOk 32768 #[] bs) (h : HasBits data 0 (blocksBits 0 bs))
    (hroom : (expandBlocks #[] #[] bs).size ≤ min budget out.size) :
    (decompress {} data out 0 budget flags).status = stDone ∧
    (decompress {} data out 0 budget flags).written = (expandBlocks #[] #[] bs).size ∧
    (decompress {} data out 0 budget flags).consumed = ((blocksBits 0 bs).length + 7) / 8 ∧
    (∀ i, i < (expandBlocks #[] #[] bs).size →
      (decompress {} data out 0 budget flags).out[i]? = (expandBlocks #[] #[] bs)[i]?) := by
  obtain ⟨res, hacc, hout, hbits⟩ := deflate_encoding_round_trip 32768 data bs hok h
  have := C03.valid_raw_stream_decodes_one_shot {} data out 0 budget flags 32768 res rfl ⟨rfl, rfl, rfl⟩ hflat hz hstop
    (Nat.zero_le _) (by simpa using hacc) (by rw [hout]; simpa using hroom)
  rw [hout, hbits] at this
  obtain ⟨a1, a2, a3, a4⟩ := this
  exact ⟨a1, a2, a3, fun i hi => by have := a4 i hi; rwa [Nat.zero_add] at this⟩

-- non-vacuity: a final static block "a", then a match of length 4 at distance 1; 4b 04 01 00 holds its bits
open Model.Core in
example : HasBits #[0x4b, 0x04, 0x01, 0x00] 0 (blocksBits 0 [encStatic true [.lit 97, .copy 258 0 0 0]]) := by
  intro i hi
  have hlen : (blocksBits 0 [encStatic true [.lit 97, .copy 258 0 0 0]]).length = 30 := by decide +kernel
  rw [hlen] at hi
  have : ∀ j, j < 30 → Spec.bitAt #[0x4b, 0x04, 0x01, 0x00] (0 + j) =
      some ((blocksBits 0 [encStatic true [SymTok.lit 97, SymTok.copy 258 0 0 0]]).getD j 0) := by decide +kernel
  exact this i hi

/-! ### The compressor's code-length packing (`start_dynamic_block`), modelled and proved

`Model/DeflRle` is a line-by-line model of the run-length coder `Rle` (`prev_code_size`,
`zero_code_size`, the loop over the code sizes, the final flush) and of the HCLEN choice. The tie
(`dynhdr`, op ENC) rebuilds the header of every dynamic block the compressor emitted from the
block's code lengths with THIS model and compares it bit for bit with what was emitted, from the
block's first bit to its first token. -/
open Model.Core Model.Rle in
/-- THE RUN-LENGTH CODER IS CORRECT FOR EVERY INPUT: whatever the list of code sizes (each at most
    15), the symbols the packer emits — sizes, "repeat previous 3..6 times", "3..10 zeros",
    "11..138 zeros" — expand under the reference decoder's reading to exactly that list, and every
    symbol is well-formed where it stands (extra-bit values in range, a repeat only after a size). -/
theorem code_length_packing_is_correct (lens : List Nat) (h15 : ∀ l ∈ lens, l ≤ 15) :
    (applyAll #[] (rlePack lens)).toList = lens ∧ SOk #[] (rlePack lens) := rlePack_spec lens h15

open Model.Core Model.Rle in
/-- … AND THE REFERENCE DECODER READS IT BACK: with any usable code-length code that has a code for
    every symbol the packer used, `readLens` on the emitted bits returns exactly the code sizes and
    stops exactly after them. -/
theorem packed_code_lengths_are_read_back (lens : List Nat) (h15 : ∀ l ∈ lens, l ≤ 15) (clens : Array Nat) (hc : CodeOk clens)
    (hcodes : ∀ c ∈ rlePack lens, c.sym < clens.size ∧ 1 ≤ clens.getD c.sym 0)
    (data : Array UInt8) (fuel pos : Nat) (hf : (rlePack lens).length < fuel)
    (h : HasBits data pos (encCSyms clens (rlePack lens))) :
    Spec.readLens (Spec.mkCode clens) data lens.length fuel pos #[] =
      .accept (pos + (encCSyms clens (rlePack lens)).length, lens.toArray) :=
  packed_lens_round_trip lens h15 clens hc hcodes data fuel pos hf h

open Model.Core Model.Rle in
/-- THE DYNAMIC BLOCK THE MODEL OF `start_dynamic_block` WRITES IS A CONFORMING BLOCK — for every output
    of a Huffman builder that delivers usable codes (257..286 literal/length and 1..30 distance code
    sizes ≤ 15, valid as codes, end-of-block coded; 19 code-length-code sizes below 8, valid, with a
    code for every symbol the packer used): the header (HLIT, HDIST, HCLEN with trailing zero entries
    implied, the packed code sizes) followed by any well-formed tokens is one of the blocks of the
    encoder specification, so `deflate_encoding_round_trip` and everything after it applies to it. -/
theorem dynamic_block_of_the_model_is_conforming (final : Bool) (litLens distLens clens : Array Nat) (toks : List SymTok)
    (hl : 257 ≤ litLens.size ∧ litLens.size ≤ 286) (hd : 1 ≤ distLens.size ∧ distLens.size ≤ 30)
    (h15 : ∀ l ∈ litLens.toList ++ distLens.toList, l ≤ 15)
    (hcs : clens.size = 19) (hc8 : ∀ i, clens.getD i 0 < 8)
    (hcv : Spec.codeValid .clen clens = true)
    (hcodes : ∀ c ∈ rlePack (litLens.toList ++ distLens.toList), 1 ≤ clens.getD c.sym 0)
    (hlv : Spec.codeValid .litlen litLens = true) (hdv : Spec.codeValid .dist distLens = true)
    (heob : 1 ≤ litLens.getD 256 0) :
    StdBlock (encDynamic final (header litLens distLens clens) toks) :=
  .dynamic final _ toks (model_header_ok litLens distLens clens hl hd h15 hcs hc8 hcv hcodes hlv hdv heob)


/-! ### The Huffman builder's length limiting (`enforce_max_code_size`) -/
open Model.HuffLimit in
/-- LENGTH LIMITING KEEPS THE CODE COMPLETE — `HuffmanOxide::enforce_max_code_size` (model
    `Model.HuffLimit.enforce`, tied to the source by op `HLIM`: every call the real `optimize_table`
    made in the run, plus generated histograms) for EVERY histogram of a prefix code: `n[i]` codes of
    length `i` (`n[0]` unused, any number of lengths, counts ≥ 0, Kraft sum at most 1), `len` = number
    of codes ≥ 2 and at most `2^max`. Afterwards the counts of the lengths `1..max` are non-negative
    and still add up to `len` (no code lost, none longer than the limit is counted there), the
    Kraft sum of those lengths is at most 1, and it is EXACTLY 1 whenever the histogram was complete
    before — which is what a Huffman tree over ≥ 2 symbols gives — so the limited code is again a
    complete prefix code, the only kind (besides the single-code case) an RFC 1951 decoder accepts.
    Everything outside the lengths `1..max` is left as it is. Induction over the loop with the
    invariant "counts ≥ 0, the levels above the deepest weigh at most a full tree, at most `2^max`
    codes": each round lowers the weight by exactly one. -/
theorem length_limiting_restores_a_complete_code (n : List Int) (len max : Nat) (h2 : 2 ≤ len) (hmax : 1 ≤ max)
    (hlen : max + 1 ≤ n.length) (hnn : ∀ x ∈ n, 0 ≤ x) (hcnt : (n.drop 1).sum = len)
    (hfit : (len : Int) ≤ 2 ^ max) (hk : kraft (n.drop 1) ≤ 2 ^ (n.length - 1)) :
    ∃ lv, enforce n len max = n.take 1 ++ lv ++ n.drop (max + 1) ∧ lv.length = max ∧ (∀ x ∈ lv, 0 ≤ x) ∧
      lv.sum = len ∧ kraft lv ≤ 2 ^ max ∧
      (kraft (n.drop 1) = 2 ^ (n.length - 1) → kraft lv = 2 ^ max) := by
  have hA : (n.take (max + 1)).drop 1 = (n.drop 1).take max := by
    rw [List.drop_take]; rfl
  have hB : n.drop (max + 1) = (n.drop 1).drop max := by
    rw [List.drop_drop, Nat.add_comm]
  have hAB : (n.take (max + 1)).drop 1 ++ n.drop (max + 1) = n.drop 1 := by
    rw [hA, hB, List.take_append_drop]
  have hAl : ((n.take (max + 1)).drop 1).length = max := by
    rw [hA, List.length_take, List.length_drop]; omega
  have hABl : ((n.take (max + 1)).drop 1 ++ n.drop (max + 1)).length = n.length - 1 := by
    rw [hAB, List.length_drop]
  obtain ⟨s1, s2, s3, s4, s5, _⟩ := enforceLv_spec max ((n.take (max + 1)).drop 1) (n.drop (max + 1)) hAl hmax
    (fun x hx => hnn x (List.mem_of_mem_take (List.mem_of_mem_drop hx)))
    (fun x hx => hnn x (List.mem_of_mem_drop hx))
    (by rw [← List.sum_append, hAB, hcnt]; exact hfit)
    (by rw [hABl, hAB]; exact hk)
  refine ⟨enforceLv max ((n.take (max + 1)).drop 1) (n.drop (max + 1)), ?_, s1, s2, ?_, s4, ?_⟩
  · unfold enforce
    rw [if_neg (by omega)]
  · rw [s3, ← List.sum_append, hAB, hcnt]
  · intro hfull
    exact s5 (by rw [hABl, hAB]; exact hfull)

open Model.HuffLimit Spec in
/-- FROM THE BUILDER'S HISTOGRAM TO THE DECODER'S VERDICT: take the histogram `n` of a complete prefix
    code (what a Huffman tree over `len ≥ 2` symbols gives), limit it with `enforce_max_code_size` to
    `max ≤ 15` bits, and let `lens` be ANY assignment of code lengths to symbols (all ≤ 15) that has
    the limited histogram — `lens` then passes the validity rule the reference decoder applies to every
    transmitted code (`Spec.codeValid`: Kraft bookkeeping of RFC 1951 / `inftrees.c`, complete code), for
    every alphabet. (`length_limiting_restores_a_complete_code` + `Lemmas/HuffValid`: the decoder's
    bookkeeping over a complete histogram never reports over-subscription and ends with nothing left.)
    That `optimize_table` hands the lengths out with exactly this histogram is checked per run (the
    reference decoder accepts every emitted code-length set). -/
theorem code_lengths_after_limiting_are_a_valid_code (k : CodeKind) (n : List Int) (len max : Nat) (h2 : 2 ≤ len)
    (hmax1 : 1 ≤ max) (hmax : max ≤ 15) (hlen : max + 1 ≤ n.length) (hnn : ∀ x ∈ n, 0 ≤ x)
    (hcnt : (n.drop 1).sum = len) (hfit : (len : Int) ≤ 2 ^ max) (hfull : kraft (n.drop 1) = 2 ^ (n.length - 1))
    (lens : Array Nat) (h15 : lens.all (· ≤ 15) = true)
    (hc : ∀ i, i < 15 → (countLens lens).getD (1 + i) 0 = ((((enforce n len max).drop 1).take max).getD i 0).toNat) :
    codeValid k lens = true := by
  obtain ⟨lv, he, hl, hnn', _, _, hcomplete⟩ :=
    length_limiting_restores_a_complete_code n len max h2 hmax1 hlen hnn hcnt hfit (by rw [hfull]; exact Int.le_refl _)
  have h1 : (n.take 1).length = 1 := by rw [List.length_take]; omega
  have hlv : ((enforce n len max).drop 1).take max = lv := by
    rw [he, List.append_assoc, List.drop_append, h1, Nat.sub_self, List.drop_zero,
      List.drop_eq_nil_of_le (by omega), List.nil_append, List.take_append, hl, Nat.sub_self, List.take_zero,
      List.append_nil, List.take_of_length_le (by omega)]
  rw [hlv] at hc
  exact complete_histogram_is_valid_upto k lens lv max hmax h15 hl hnn' hc (hcomplete hfull)

open Model.HuffLimit in
/-- NO COUNT LEAVES ITS RANGE WHILE THE LOOP RUNS: between the rounds of `enforce_max_code_size` every
    entry of the histogram (deep-first list `l` of the lengths `max … 1` after the folding step,
    `M = 2^max`) lies between 0 and the number of codes — so the `i32` arithmetic of the source neither
    goes negative nor wraps, and the model's unbounded integers say what the code computes. -/
theorem length_limiting_counts_stay_in_range (M : Int) (l : List Int) (h : Inv M l) (k : Nat) (hk : M + k ≤ W l) :
    ∀ x ∈ iter k l, 0 ≤ x ∧ x ≤ l.sum :=
  rounds_stay_in_range M l h k hk

open Model.HuffLimit in
/-- … and a histogram that is already within the limit and not over-full is not touched. -/
theorem length_limiting_leaves_a_fitting_code_alone (max : Nat) (A : List Int) (hA : A.length = max) (h1 : 1 ≤ max)
    (hnA : ∀ x ∈ A, 0 ≤ x) (hfit : A.sum ≤ 2 ^ max) (hk : kraft A < 2 ^ max) :
    enforceLv max A [] = A :=
  (enforceLv_spec max A [] hA h1 hnA (fun _ h => by simp at h) (by simpa using hfit)
    (by rw [List.append_nil, hA]; omega)).2.2.2.2.2 rfl hk

-- 5 codes: one of length 1, one of length 2, one of length 3, two of length 4 (complete); limit 3:
-- the two 4-bit codes are folded into length 3 (weight 9 of 8) and one round repairs it
open Model.HuffLimit in
example : enforce [0, 1, 1, 1, 2] 5 3 = [0, 1, 0, 4, 2] ∧ kraft [1, 0, 4] = 2 ^ 3 ∧ kraft [1, 1, 1, 2] = 2 ^ 4 := by decide

-- a code of depth 20 (lengths 1, 2, …, 19, 20, 20: 21 symbols, complete) limited to 15 bits: the seven
-- codes longer than 14 bits are folded into length 15 (weight 2^15 + 5), five rounds repair it
open Model.HuffLimit in
example : enforce ([0] ++ List.replicate 19 1 ++ [2] ++ List.replicate 12 0) 21 15 =
      [0, 1, 1, 1, 1, 1, 1, 1, 1, 1, 1, 1, 0, 2, 0, 8] ++ [1, 1, 1, 1, 2] ++ List.replicate 12 0 ∧
    kraft (List.replicate 19 1 ++ [2] ++ List.replicate 12 0) = 2 ^ 32 ∧
    kraft [1, 1, 1, 1, 1, 1, 1, 1, 1, 1, 1, 0, 2, 0, 8] = 2 ^ 15 := by decide

-- the packer on a list with a long zero run, a run of equal sizes and a short tail
open Model.Core Model.Rle in
example : (applyAll #[] (rlePack ([8] ++ List.replicate 140 0 ++ List.replicate 7 5 ++ [0, 0, 3]))).toList =
    [8] ++ List.replicate 140 0 ++ List.replicate 7 5 ++ [0, 0, 3] := by decide +kernel

end C10
