/-
C10 — compressor output is valid for independent decoders and honours level/strategy.
Over tables and functions REGENERATED from the source:
 * the compressor's length/distance symbol + extra-bit tables are inverted by the RFC formulas of
   Spec/Inflate (`lengthBaseExtra`, `distBaseExtra`) for EVERY match length 3..258 and EVERY
   distance 1..32768 (the lookup expressions of `compress_lz_codes`/`record_match` are restated
   here as `lenCode`/`distCode`; that restatement is hand-written);
 * routing: which engine each flag word selects, and the mode facts that follow from flags alone.
Validity of the emitted token stream itself is checked by the Lean reference decoder on every run
(oracle leg); see DESIGN.md §7 C10.
-/
import MinizProof.Gen.All
import MinizProof.Spec.Inflate
import MinizProof.Lemmas.Finite
import MinizProof.Props.C02
set_option maxRecDepth 1000000
open Fin'

namespace C10
open Gen.DeflCore

/-- `compress_lz_codes`: symbol, number of extra bits, extra value for the stored length byte `c = len − 3`. -/
def lenCode (c : Nat) : Nat × Nat × Nat :=
  let sym := (G.band (.u 8) (G.idx LEN_SYM c) 31).toNat + LEN_SYM_OFFSET.toNat
  let ne := (G.idx LEN_EXTRA c).toNat
  let ev := (G.band (.u 64) (Int.ofNat c) (G.idx BITMASKS (G.band (.u 8) (G.idx LEN_EXTRA c) 7))).toNat
  (sym, ne, ev)

/-- `compress_lz_codes`: symbol, number of extra bits, extra value for the stored distance `d = dist − 1`. -/
def distCode (d : Nat) : Nat × Nat × Nat :=
  let sym := if d < 512 then (G.idx SMALL_DIST_SYM d).toNat else (G.idx LARGE_DIST_SYM (d / 256)).toNat
  let ne := if d < 512 then (G.idx SMALL_DIST_EXTRA (d / 4)).toNat else (G.idx LARGE_DIST_EXTRA (d / 256)).toNat
  let ev := (G.band (.u 64) (Int.ofNat d) (G.idx BITMASKS (Int.ofNat (ne % 16)))).toNat
  (sym, ne, ev)

def lenOk (c : Nat) : Bool :=
  let (sym, ne, ev) := lenCode c
  let (base, e) := Spec.lengthBaseExtra sym
  decide (257 ≤ sym) && decide (sym ≤ 285) && (e == ne) && (base + ev == c + 3) && decide (ev < 2 ^ ne)

def distOk (d : Nat) : Bool :=
  let (sym, ne, ev) := distCode d
  let (base, e) := Spec.distBaseExtra sym
  decide (sym ≤ 29) && (e == ne) && (base + ev == d + 1) && decide (ev < 2 ^ ne)

/-- Every match length 3..258 is encoded as a length symbol 257..285 plus extra bits that the
    RFC formula decodes back to the same length. -/
theorem length_codes_inverse : ∀ len, 3 ≤ len → len ≤ 258 → lenOk (len - 3) = true := by
  have h : allBelow 256 lenOk = true := by decide +kernel
  intro len h3 h258
  exact allBelow_spec h (len - 3) (by omega)

/-- One row of the large-distance tables (index `h = d / 256`) is right for all 256 values of
    the low byte. Only per-row lookups; the inner loop is arithmetic. -/
def largeRowOk (h : Nat) : Bool :=
  let sym := (G.idx LARGE_DIST_SYM h).toNat
  let ne := (G.idx LARGE_DIST_EXTRA h).toNat
  let mask := G.idx BITMASKS (Int.ofNat (ne % 16))
  let (base, e) := Spec.distBaseExtra sym
  decide (sym ≤ 29) && (e == ne) &&
  allBelow 256 (fun lo =>
    let d := 256 * h + lo
    let ev := (G.band (.u 64) (Int.ofNat d) mask).toNat
    (base + ev == d + 1) && decide (ev < 2 ^ ne))

theorem small_distances : ∀ d, d < 512 → distOk d = true := by
  have h : allBelow 512 distOk = true := by decide +kernel
  exact fun d hd => allBelow_spec h d hd

theorem large_rows : ∀ h, 2 ≤ h → h < 128 → largeRowOk h = true := by
  have hh : allBelow 128 (fun h => if 2 ≤ h then largeRowOk h else true) = true := by decide +kernel
  intro h h2 h128
  simpa [h2] using allBelow_spec hh h h128

/-- Every distance 1..32768 is encoded as a distance symbol 0..29 plus extra bits that the RFC
    formula decodes back to the same distance. -/
theorem distance_codes_inverse : ∀ dist, 1 ≤ dist → dist ≤ 32768 → distOk (dist - 1) = true := by
  intro dist h1 h2
  by_cases hs : dist - 1 < 512
  · exact small_distances _ hs
  · have hrow := large_rows ((dist - 1) / 256) (by omega) (by omega)
    unfold largeRowOk at hrow
    simp only [Bool.and_eq_true] at hrow
    obtain ⟨⟨hsym, he⟩, hall⟩ := hrow
    have hlo := allBelow_spec hall ((dist - 1) % 256) (Nat.mod_lt _ (by decide))
    have hd : 256 * ((dist - 1) / 256) + (dist - 1) % 256 = dist - 1 := Nat.div_add_mod _ _
    simp only [hd, Bool.and_eq_true] at hlo
    unfold distOk distCode
    simp only [hs, ↓reduceIte, Bool.and_eq_true]
    exact ⟨⟨⟨hsym, he⟩, hlo.1⟩, hlo.2⟩

/-- `record_match` counts the same distance symbol that `compress_lz_codes` later emits
    (its extra `& 127` on the table index is the identity for distances up to 32768). -/
theorem record_match_same_symbol : ∀ d : Nat, d < 32768 →
    (if d < 512 then G.idx SMALL_DIST_SYM (Int.ofNat d) else G.idx LARGE_DIST_SYM (Int.ofNat ((d / 256) % 128))) =
    (if d < 512 then G.idx SMALL_DIST_SYM (Int.ofNat d) else G.idx LARGE_DIST_SYM (Int.ofNat (d / 256))) := by
  intro d hd
  have : (d / 256) % 128 = d / 256 := Nat.mod_eq_of_lt (by omega)
  rw [this]

/-- Flags of every (level 0..10, strategy 0..4, format) as `create_comp_flags_from_zip_params` builds them. -/
def flagsOf (level strategy zlib : Nat) : Int :=
  create_comp_flags_from_zip_params (Int.ofNat level) (Int.ofNat zlib) (Int.ofNat strategy)

/-- Mode facts that follow from the flag word alone, for all 11 × 5 × 2 configurations:
    level 0 is routed to `compress_stored` with FORCE_ALL_RAW_BLOCKS; the Fixed strategy sets
    FORCE_ALL_STATIC_BLOCKS; Huffman-only has zero probes (so `find_match` returns at once) and
    is never routed to `compress_fast`; RLE and Filtered set their flags and are routed to
    `compress_normal`. -/
theorem mode_flags : ∀ level strategy zlib, level < 11 → strategy < 5 → zlib < 2 →
    let f := flagsOf level strategy zlib
    (level = 0 → route f = 0 ∧ G.band (.u 32) f TDEFL_FORCE_ALL_RAW_BLOCKS ≠ 0) ∧
    (level ≠ 0 → route f ≠ 0) ∧
    (level ≠ 0 → strategy = 4 → G.band (.u 32) f TDEFL_FORCE_ALL_STATIC_BLOCKS ≠ 0) ∧
    (level ≠ 0 → strategy = 2 → G.band (.u 32) f MAX_PROBES_MASK = 0 ∧ route f = 2 ∧ G.idx (probes_from_flags f) 0 = 1) ∧
    (level ≠ 0 → strategy = 3 → G.band (.u 32) f TDEFL_RLE_MATCHES ≠ 0 ∧ route f = 2) ∧
    (level ≠ 0 → strategy = 1 → G.band (.u 32) f TDEFL_FILTER_MATCHES ≠ 0 ∧ route f = 2) := by
  have h : allBelow 11 (fun l => allBelow 5 (fun s => allBelow 2 (fun z =>
      let f := flagsOf l s z
      (if l = 0 then (route f == 0) && (G.band (.u 32) f TDEFL_FORCE_ALL_RAW_BLOCKS != 0) else
        (route f != 0) &&
        (if s = 4 then G.band (.u 32) f TDEFL_FORCE_ALL_STATIC_BLOCKS != 0 else true) &&
        (if s = 2 then (G.band (.u 32) f MAX_PROBES_MASK == 0) && (route f == 2) && (G.idx (probes_from_flags f) 0 == 1) else true) &&
        (if s = 3 then (G.band (.u 32) f TDEFL_RLE_MATCHES != 0) && (route f == 2) else true) &&
        (if s = 1 then (G.band (.u 32) f TDEFL_FILTER_MATCHES != 0) && (route f == 2) else true))))) = true := by
    decide +kernel
  intro level strategy zlib hl hs hz
  have := allBelow_spec (allBelow_spec (allBelow_spec h level hl) strategy hs) zlib hz
  by_cases h0 : level = 0
  · simp only [h0, ↓reduceIte, Bool.and_eq_true, beq_iff_eq, bne_iff_ne, ne_eq] at this
    simp [h0, this]
  · simp only [h0, ↓reduceIte, Bool.and_eq_true, bne_iff_ne, ne_eq] at this
    obtain ⟨⟨⟨⟨a, b⟩, c⟩, d⟩, e⟩ := this
    refine ⟨fun x => absurd x h0, fun _ => a, ?_, ?_, ?_, ?_⟩
    · intro _ hs4; simpa [hs4] using b
    · intro _ hs2; subst hs2; simp only [↓reduceIte, Bool.and_eq_true, beq_iff_eq] at c; exact ⟨c.1.1, c.1.2, c.2⟩
    · intro _ hs3; simpa [hs3] using d
    · intro _ hs1; simpa [hs1] using e

example : lenCode 255 = (285, 0, 0) := by decide +kernel
example : distCode 32767 = (29, 13, 8191) := by decide +kernel

/-- The emitted bits are the codes: `compress_lz_codes` never pushes more bits into its 64-bit
    accumulator than it holds (otherwise high bits of a code are silently dropped in release builds
    and the stream is invalid or decodes to other bytes). Same statement as `C02.lz_bitbuffer_never_overflows`,
    over the same regenerated constants (literal batch size, code-size limits, extra-bit tables);
    restated here because validity of the output for independent decoders is this property. -/
theorem emitted_codes_fit_the_bit_buffer :
    let codeMax := max (C02.maxOf Gen.DeflCore.DYN_CODE_SIZE_LIMITS) (C02.maxOf Gen.DeflCore.STATIC_CODE_SIZE_LIMITS)
    7 + max (Gen.DeflCore.LZ_LITERAL_BATCH * codeMax)
            (codeMax + C02.maxOf Gen.DeflCore.LEN_EXTRA + codeMax +
              max (C02.maxOf Gen.DeflCore.SMALL_DIST_EXTRA) (C02.maxOf Gen.DeflCore.LARGE_DIST_EXTRA)) ≤ 64 ∧
    codeMax ≤ 15 ∧ G.idx Gen.DeflCore.DYN_CODE_SIZE_LIMITS 2 ≤ 7 := C02.lz_bitbuffer_never_overflows

end C10
