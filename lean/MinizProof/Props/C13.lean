/-
C13 — streaming inflate obeys its status protocol and always makes progress.
Proved here over definitions REGENERATED from the source: the status classes `inflate()` branches
on (`(status as i32) < 0` selects exactly the four failure statuses; `FailedCannotMakeProgress`
is the one mapped to a buffer error), the flush values the C entry point accepts, and the data
format selected by the window-bits sign. The protocol itself (counts, prefix delivery, progress,
stream-end exactness and stability, sticky data errors, recoverable starvation, Finish/Full
errors, termination of the driver loop) is checked per run: all call sequences of depth 2
(quick) / 3 (thorough) over the 64-letter alphabet of the property on valid, truncated, corrupt
and trailing-byte streams, each completed by the usual driver loop, then random long schedules.
-/
import MinizProof.Gen.All
import MinizProof.Lemmas.Finite
set_option maxRecDepth 1000000
open Fin'
namespace C13
open Gen.InflMod Gen.Lib

theorem failure_statuses_are_negative : ∀ st ∈ TINFLStatus.all,
    decide (st < 0) = (st == TINFLStatus.FailedCannotMakeProgress || st == TINFLStatus.BadParam ||
                       st == TINFLStatus.Adler32Mismatch || st == TINFLStatus.Failed) := by
  have h : allIn TINFLStatus.all (fun st => decide (st < 0) ==
      (st == TINFLStatus.FailedCannotMakeProgress || st == TINFLStatus.BadParam ||
       st == TINFLStatus.Adler32Mismatch || st == TINFLStatus.Failed)) = true := by decide +kernel
  intro st hst
  simpa using allIn_spec h st hst

/-- The C entry points accept exactly flush 0..4 (1 and 2 both mean Sync); everything else is a
    parameter error — for every i32 (symbolic). -/
theorem flush_values (f : Int) :
    MZFlush_new f = (if f = 0 then G.Res.ok MZFlush.None else if f = 1 ∨ f = 2 then G.Res.ok MZFlush.Sync
      else if f = 3 then G.Res.ok MZFlush.Full else if f = 4 then G.Res.ok MZFlush.Finish
      else G.Res.err MZError.Param) := by
  unfold MZFlush_new
  simp only [Id.run, pure, beq_iff_eq, Bool.or_eq_true]
  repeat' split
  all_goals first | rfl | omega | (simp_all; done) | (exfalso; omega)

theorem format_from_window_bits (wb : Int) :
    DataFormat_from_window_bits wb = (if wb > 0 then DataFormat.Zlib else DataFormat.Raw) := by
  unfold DataFormat_from_window_bits
  simp [Id.run, pure]

theorem error_codes : MZError.Buf = -5 ∧ MZError.Data = -3 ∧ MZError.Stream = -2 ∧ MZError.Param = -10000 ∧
    MZStatus.Ok = 0 ∧ MZStatus.StreamEnd = 1 := by decide +kernel

end C13
