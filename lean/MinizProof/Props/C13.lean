/-
C13 — streaming inflate obeys its status protocol and always makes progress.
Proved here over definitions REGENERATED from the source: the status classes `inflate()` branches
on (`(status as i32) < 0` selects exactly the four failure statuses; `FailedCannotMakeProgress`
is the one mapped to a buffer error), the flush values the C entry point accepts, and the data
format selected by the window-bits sign. The protocol itself (counts, prefix delivery, progress,
stream-end exactness and stability, sticky data errors, recoverable starvation, Finish/Full
errors, termination of the driver loop) is checked per run: all call sequences of depth 2
(quick) / 3 (thorough) over the 64-letter alphabet of the property on valid, truncated, corrupt
and trailing-byte streams, each completed by the usual driver loop, then random long schedules.
-/
import MinizProof.Gen.All
import MinizProof.Lemmas.Finite
import MinizProof.Lemmas.InflStream
import MinizProof.Lemmas.InflBytes
import MinizProof.Lemmas.InflBytesAll
import MinizProof.Props.C09
set_option maxRecDepth 1000000
open Fin'
namespace C13
open Gen.InflMod Gen.Lib

theorem failure_statuses_are_negative : ∀ st ∈ TINFLStatus.all,
    decide (st < 0) = (st == TINFLStatus.FailedCannotMakeProgress || st == TINFLStatus.BadParam ||
                       st == TINFLStatus.Adler32Mismatch || st == TINFLStatus.Failed) := by
  have h : allIn TINFLStatus.all (fun st => decide (st < 0) ==
      (st == TINFLStatus.FailedCannotMakeProgress || st == TINFLStatus.BadParam ||
       st == TINFLStatus.Adler32Mismatch || st == TINFLStatus.Failed)) = true := by decide +kernel
  intro st hst
  simpa using allIn_spec h st hst

/-- The C entry points accept exactly flush 0..4 (1 and 2 both mean Sync); everything else is a
    parameter error — for every i32 (symbolic). -/
theorem flush_values (f : Int) :
    MZFlush_new f = (if f = 0 then G.Res.ok MZFlush.None else if f = 1 ∨ f = 2 then G.Res.ok MZFlush.Sync
      else if f = 3 then G.Res.ok MZFlush.Full else if f = 4 then G.Res.ok MZFlush.Finish
      else G.Res.err MZError.Param) := by
  unfold MZFlush_new
  simp only [Id.run, pure, beq_iff_eq, Bool.or_eq_true]
  repeat' split
  all_goals first | rfl | omega | (simp_all; done) | (exfalso; omega)

theorem format_from_window_bits (wb : Int) :
    DataFormat_from_window_bits wb = (if wb > 0 then DataFormat.Zlib else DataFormat.Raw) := by
  unfold DataFormat_from_window_bits
  simp [Id.run, pure]

theorem error_codes : MZError.Buf = -5 ∧ MZError.Data = -3 ∧ MZError.Stream = -2 ∧ MZError.Param = -10000 ∧
    MZStatus.Ok = 0 ∧ MZStatus.StreamEnd = 1 := by decide +kernel

/-! ### Protocol theorems about the model of `inflate()` (Model/InflStream.lean), for EVERY
behaviour of the low-level decoder (any script of responses), every buffer size and every call
history — induction over the loop and over the call sequence. The model is tied to the code by
replaying the recorded inner `decompress` calls of every real `inflate()` call of the run, with
the wrapper state before and after (leg K). -/
open Model.Infl

theorem codes_match_source :
    tFailedCannotMakeProgress = TINFLStatus.FailedCannotMakeProgress ∧ tFailed = TINFLStatus.Failed ∧
    tDone = TINFLStatus.Done ∧ tNeedsMoreInput = TINFLStatus.NeedsMoreInput ∧
    (fFull : Int) = MZFlush.Full ∧ (fFinish : Int) = MZFlush.Finish ∧
    rOk = MZStatus.Ok ∧ rStreamEnd = MZStatus.StreamEnd ∧ rBuf = MZError.Buf ∧ rData = MZError.Data ∧ rStream = MZError.Stream ∧
    (flagParseZlib : Int) = Gen.InflCore.TINFL_FLAG_PARSE_ZLIB_HEADER ∧ (flagHasMoreInput : Int) = Gen.InflCore.TINFL_FLAG_HAS_MORE_INPUT ∧
    (flagNonWrapping : Int) = Gen.InflCore.TINFL_FLAG_USING_NON_WRAPPING_OUTPUT_BUF ∧
    (flagComputeAdler : Int) = Gen.InflCore.TINFL_FLAG_COMPUTE_ADLER32 ∧ (flagIgnoreAdler : Int) = Gen.InflCore.TINFL_FLAG_IGNORE_ADLER32 ∧
    (dictSize : Int) = Gen.InflCore.TINFL_LZ_DICT_SIZE := by decide +kernel

/-- Invariant of the wrapper state between calls (holds for a fresh state, preserved by every call). -/
def Inv2 (s : St) : Prop := s.Inv ∧ (s.firstCall = true → s.dictAvail = 0)

/-- What one call guarantees, whatever the decoder does. -/
structure CallPost (s : St) (inLen outLen : Nat) (s' : St) (r : Result) : Prop where
  inv     : Inv2 s'
  counts  : r.consumed ≤ inLen ∧ r.written ≤ outLen
  endDone : r.status = rStreamEnd → s'.lastStatus = tDone ∧ s'.dictAvail = 0
  dataNeg : r.status = rData → s'.lastStatus < 0 ∧ s'.lastStatus ≠ tFailedCannotMakeProgress
  okProg  : r.status = rOk → 0 < inLen → 0 < outLen → 0 < r.consumed + r.written
  fmt     : s'.fmt = s.fmt

theorem call_post (s : St) (inLen outLen flush : Nat) (script : List Resp) (s' : St) (r : Result) (cs : List Call)
    (hinv : Inv2 s) (h : inflate s inLen outLen flush script = .ok s' r cs) : CallPost s inLen outLen s' r := by
  unfold inflate at h
  obtain ⟨⟨hofs, hsum⟩, hfirst⟩ := hinv
  split at h
  · simp only [Outcome.ok.injEq] at h; obtain ⟨hs, hr, _⟩ := h; subst hs hr
    exact ⟨⟨⟨hofs, hsum⟩, hfirst⟩, by simp, by simp [rStream, rStreamEnd], by simp [rStream, rData], by simp [rStream, rOk], rfl⟩
  · simp only at h
    split at h
    · simp only [Outcome.ok.injEq] at h; obtain ⟨hs, hr, _⟩ := h; subst hs hr
      exact ⟨⟨⟨hofs, hsum⟩, by simp⟩, by simp, by simp [rBuf, rStreamEnd], by simp [rBuf, rData], by simp [rBuf, rOk], rfl⟩
    · rename_i hnf
      split at h
      · rename_i hneg
        simp only [Outcome.ok.injEq] at h; obtain ⟨hs, hr, _⟩ := h; subst hs hr
        exact ⟨⟨⟨hofs, hsum⟩, by simp⟩, by simp, by simp [rData, rStreamEnd], fun _ => ⟨hneg, hnf⟩, by simp [rData, rOk], rfl⟩
      · split at h
        · simp only [Outcome.ok.injEq] at h; obtain ⟨hs, hr, _⟩ := h; subst hs hr
          exact ⟨⟨⟨hofs, hsum⟩, by simp⟩, by simp, by simp [rStream, rStreamEnd], by simp [rStream, rData], by simp [rStream, rOk], rfl⟩
        · split at h
          · -- first call with Finish: one decoder call straight into the caller's buffer
            rename_i hff
            have hav0 : s.dictAvail = 0 := hfirst hff.2
            split at h
            · simp at h
            · rename_i x xs
              split at h
              · simp at h
              · rename_i hb
                split at h
                · simp only [Outcome.ok.injEq] at h; obtain ⟨hs, hr, _⟩ := h; subst hs hr
                  exact ⟨⟨⟨hofs, hsum⟩, by simp⟩, ⟨by simp only; omega, by simp only; omega⟩, by simp [rBuf, rStreamEnd], by simp [rBuf, rData], by simp [rBuf, rOk], rfl⟩
                · rename_i h1
                  split at h
                  · rename_i h2
                    simp only [Outcome.ok.injEq] at h; obtain ⟨hs, hr, _⟩ := h; subst hs hr
                    exact ⟨⟨⟨hofs, hsum⟩, by simp⟩, ⟨by simp only; omega, by simp only; omega⟩, by simp [rData, rStreamEnd], fun _ => ⟨h2, h1⟩, by simp [rData, rOk], rfl⟩
                  · split at h
                    · simp only [Outcome.ok.injEq] at h; obtain ⟨hs, hr, _⟩ := h; subst hs hr
                      exact ⟨⟨⟨hofs, hsum⟩, by simp⟩, ⟨by simp only; omega, by simp only; omega⟩, by simp [rBuf, rStreamEnd], by simp [rBuf, rData], by simp [rBuf, rOk], rfl⟩
                    · rename_i h3
                      simp only [Outcome.ok.injEq] at h; obtain ⟨hs, hr, _⟩ := h; subst hs hr
                      refine ⟨⟨⟨hofs, hsum⟩, by simp⟩, ⟨by simp only; omega, by simp only; omega⟩, ?_, by simp [rStreamEnd, rData], by simp [rStreamEnd, rOk], rfl⟩
                      intro _
                      exact ⟨Decidable.of_not_not h3, hav0⟩
          · split at h
            · -- pending bytes from an earlier call are delivered first
              rename_i hav
              have hpd := pushDictOut_spec { s with firstCall := false, hasFlushed := s.hasFlushed || flush == fFinish } outLen (by simpa using hsum)
              generalize hp : pushDictOut { s with firstCall := false, hasFlushed := s.hasFlushed || flush == fFinish } outLen = p at h hpd
              obtain ⟨n, s2⟩ := p
              simp only at h hpd
              obtain ⟨hn1, hn2, hav2, ho, hinv2, hls, hfmt, hfl, hfc, hfull⟩ := hpd
              simp only [Outcome.ok.injEq] at h; obtain ⟨hs, hr, _⟩ := h; subst hs hr
              refine ⟨⟨⟨ho, hinv2⟩, by rw [hfc]; simp⟩, ⟨by simp, by simpa using hn1⟩, ?_, ?_, ?_, hfmt⟩
              · simp only; split
                · rename_i hd; intro _; exact hd
                · simp [rOk, rStreamEnd]
              · simp only; split <;> simp [rOk, rStreamEnd, rData]
              · intro _ _ hout
                simp only
                have : 0 < n := by
                  by_cases hz : s2.dictAvail = 0
                  · omega
                  · have := hfull hz; omega
                omega
            · have hp := loop_post flush _ inLen script { s with firstCall := false, hasFlushed := s.hasFlushed || flush == fFinish } inLen outLen 0 0 [] s' r cs (by simpa using hofs) h
              refine ⟨⟨hp.inv, by rw [hp.same.2.2]; simp⟩, ⟨by have := hp.cHi; omega, by have := hp.wHi; omega⟩, hp.endDone, hp.dataNeg, ?_, hp.same.1⟩
              intro hk hi ho
              rcases hp.okProg hk with h1 | h1 <;> omega

theorem fresh_inv (fmt : Nat) : Inv2 (St.fresh fmt) := by
  unfold Inv2 St.Inv St.fresh dictSize; simp

/-- A full-flush request is a stream error and changes nothing. -/
theorem full_flush_is_stream_error (s : St) (inLen outLen : Nat) (script : List Resp) :
    inflate s inLen outLen fFull script = .ok s ⟨0, 0, rStream⟩ [] := by
  simp [inflate]

/-- A failed stream stays failed: with a data-error status recorded, every later call (other than
    the refused full flush) reports a data error, moves nothing, calls the decoder no more and
    keeps the status. -/
theorem data_error_sticky_step (s : St) (inLen outLen flush : Nat) (script : List Resp)
    (hneg : s.lastStatus < 0) (hne : s.lastStatus ≠ tFailedCannotMakeProgress) (hfl : flush ≠ fFull) :
    inflate s inLen outLen flush script = .ok { s with firstCall := false } ⟨0, 0, rData⟩ [] := by
  unfold inflate
  simp [hfl, hne, hneg]

/-- A finish request on input that ended early (the decoder answered cannot-make-progress) is a
    buffer error for good: every later call answers a buffer error without calling the decoder. -/
theorem cannot_progress_sticky_step (s : St) (inLen outLen flush : Nat) (script : List Resp)
    (h : s.lastStatus = tFailedCannotMakeProgress) (hfl : flush ≠ fFull) :
    inflate s inLen outLen flush script = .ok { s with firstCall := false } ⟨0, 0, rBuf⟩ [] := by
  unfold inflate
  simp [hfl, h]

/-- A sequence of calls, each with its own decoder script. -/
structure Req where
  inLen  : Nat
  outLen : Nat
  flush  : Nat
  script : List Resp

def runCalls : St → List Req → Option (St × List Result)
  | s, [] => some (s, [])
  | s, q :: qs =>
    match inflate s q.inLen q.outLen q.flush q.script with
    | .ok s' r _ => (runCalls s' qs).map (fun p => (p.1, r :: p.2))
    | _ => none

/-- Every reachable state satisfies the invariant and every call of every history keeps its
    counts within the offered buffers — induction over the call sequence. -/
theorem history_counts_bounded : ∀ (reqs : List Req) (s sf : St) (rs : List Result),
    Inv2 s → runCalls s reqs = some (sf, rs) →
    Inv2 sf ∧ rs.length = reqs.length ∧
    ∀ i (h1 : i < reqs.length) (h2 : i < rs.length), rs[i].consumed ≤ reqs[i].inLen ∧ rs[i].written ≤ reqs[i].outLen := by
  intro reqs
  induction reqs with
  | nil => intro s sf rs hi h; simp [runCalls] at h; obtain ⟨h1, h2⟩ := h; subst h1 h2; exact ⟨hi, rfl, by intro i h1; simp at h1⟩
  | cons q qs ih =>
    intro s sf rs hi h
    unfold runCalls at h
    split at h
    · rename_i s' r cs heq
      have hp := call_post s q.inLen q.outLen q.flush q.script s' r cs hi heq
      cases hrec : runCalls s' qs with
      | none => simp [hrec] at h
      | some p =>
        simp only [hrec, Option.map_some, Option.some.injEq, Prod.mk.injEq] at h
        obtain ⟨h1, h2⟩ := h
        have := ih s' p.1 p.2 hp.inv (by rw [hrec])
        subst h1 h2
        refine ⟨this.1, by simp [this.2.1], ?_⟩
        intro i h1 h2
        cases i with
        | zero => simpa using hp.counts
        | succ j => simpa using this.2.2 j (by simpa using h1) (by simpa using h2)
    · simp at h

/-- Data errors are sticky over whole histories: once the recorded status is a data error, every
    later result is a data error (or the stream error of a refused full flush), with nothing moved. -/
theorem data_error_sticky : ∀ (reqs : List Req) (s sf : St) (rs : List Result),
    s.lastStatus < 0 → s.lastStatus ≠ tFailedCannotMakeProgress → runCalls s reqs = some (sf, rs) →
    ∀ r ∈ rs, (r.status = rData ∨ r.status = rStream) ∧ r.consumed = 0 ∧ r.written = 0 := by
  intro reqs
  induction reqs with
  | nil => intro s sf rs _ _ h; simp [runCalls] at h; intro r hr; rw [h.2] at hr; simp at hr
  | cons q qs ih =>
    intro s sf rs hneg hne h
    unfold runCalls at h
    by_cases hfl : q.flush = fFull
    · rw [hfl, full_flush_is_stream_error] at h
      simp only at h
      cases hrec : runCalls s qs with
      | none => simp [hrec] at h
      | some p =>
        simp only [hrec, Option.map_some, Option.some.injEq, Prod.mk.injEq] at h
        obtain ⟨_, h2⟩ := h
        intro r hr
        rw [← h2] at hr
        cases hr with
        | head => simp
        | tail _ hm => exact ih s p.1 p.2 hneg hne (by rw [hrec]) r hm
    · rw [data_error_sticky_step s q.inLen q.outLen q.flush q.script hneg hne hfl] at h
      simp only at h
      cases hrec : runCalls { s with firstCall := false } qs with
      | none => simp [hrec] at h
      | some p =>
        simp only [hrec, Option.map_some, Option.some.injEq, Prod.mk.injEq] at h
        obtain ⟨_, h2⟩ := h
        intro r hr
        rw [← h2] at hr
        cases hr with
        | head => simp
        | tail _ hm => exact ih { s with firstCall := false } p.1 p.2 hneg hne (by rw [hrec]) r hm

/-- Stream end is stable: once it has been reported (status Done recorded, nothing pending) and
    the decoder keeps answering Done with nothing moved (C05: a finished decoder stays finished),
    every later call with a legal flush reports stream end again with nothing consumed or written. -/
theorem stream_end_stable (s : St) (inLen outLen flush : Nat) (rest : List Resp)
    (hd : s.lastStatus = tDone) (ha : s.dictAvail = 0) (hfc : s.firstCall = false)
    (hfl : flush ≠ fFull) (hlegal : s.hasFlushed = true → flush = fFinish) (hofs : s.dictOfs < dictSize) :
    ∃ s' cs, inflate s inLen outLen flush (⟨tDone, 0, 0⟩ :: rest) = .ok s' ⟨0, 0, rStreamEnd⟩ cs ∧
      s'.lastStatus = tDone ∧ s'.dictAvail = 0 := by
  unfold inflate
  have h1 : ¬ (tDone = tFailedCannotMakeProgress) := by decide
  have h2 : ¬ (tDone < (0:Int)) := by decide
  simp only [hfl, ↓reduceIte, hd, h1, h2, hfc, Bool.false_eq_true, and_false]
  by_cases hhf : s.hasFlushed = true
  · have hf := hlegal hhf
    subst hf
    simp [hhf, ha, loop, pushDictOut, tDone, tFailedCannotMakeProgress, tNeedsMoreInput, dictSize]
  · simp only [Bool.not_eq_true] at hhf
    by_cases hfin : flush = fFinish
    · subst hfin
      simp [hhf, ha, loop, pushDictOut, tDone, tFailedCannotMakeProgress, tNeedsMoreInput, dictSize]
    · simp [hhf, hfin, ha, loop, pushDictOut, tDone, tFailedCannotMakeProgress, tNeedsMoreInput, dictSize]

-- non-vacuity: a fresh raw-format state, a decoder that delivers 5 bytes and finishes
example : inflate (St.fresh 2) 10 100 0 [⟨tDone, 7, 5⟩] =
    .ok { dictOfs := 5, dictAvail := 0, firstCall := false, hasFlushed := false, lastStatus := tDone, fmt := 2 }
        ⟨7, 5, rStreamEnd⟩ [(10, 0, dictSize, flagIgnoreAdler + flagHasMoreInput)] := by decide
example : Inv2 (St.fresh 0) := fresh_inv 0

/-! ### The wrapper WITH its bytes, end to end (Model/InflBytes, Lemmas/InflBytes)

`Model.InflB.inflateNone` is `inflate()` for calls that do not ask to finish, over the decoder model
itself (`Model.Core.decompress`, the 32 KiB window an array, bytes handed to the caller); op `IFB` of
the driver replays real `inflate()` sessions through it on every run. `runInfl` is a caller: each
call is offered what the previous one left unconsumed followed by a new chunk, with any amount of
output room. -/
open Model.Core Model.InflB Spec in
/-- the flag word `inflate()` builds for a RAW stream on a call that does not ask to finish
    (`format_flags(Raw) | TINFL_FLAG_HAS_MORE_INPUT` = ignore-adler + more-input) has the ring theory
    of raw streams; its flat twin is the same word with the non-wrapping flag -/
theorem raw_wrapper_flags (res : Inflated) :
    RingTheory (Model.Infl.flagIgnoreAdler + Model.Infl.flagHasMoreInput)
      (fun z => inflateSpec #[] 32768 z 0 = .accept res) res.out ((res.bitsUsed + 7) / 8) :=
  ringTheory_of_flat (rawFlatTheory 70 (by decide) (by decide) (by decide) res)
    ⟨by decide, by decide, by decide, by decide, by decide, by decide, by decide⟩ (by decide) (by decide)

open Model.Core Model.InflB Spec in
/-- … and the word it builds for a ZLIB stream (`PARSE_ZLIB_HEADER | COMPUTE_ADLER32 | HAS_MORE_INPUT`)
    has the ring theory of zlib streams -/
theorem zlib_wrapper_flags (zr : ZInflated) :
    RingTheory (Model.Infl.flagParseZlib + Model.Infl.flagComputeAdler + Model.Infl.flagHasMoreInput)
      (fun z => zlibSpec #[] 32768 z true = .accept zr) zr.inner.out zr.bytesUsed :=
  ringTheory_of_flat (zlibFlatTheory 15 (by decide) (by decide) (by decide) zr)
    ⟨by decide, by decide, by decide, by decide, by decide, by decide, by decide⟩ (by decide) (by decide)

open Model.Core Spec in
/-- A VALID ZLIB STREAM THROUGH A RING, TO THE END (the zlib counterpart of
    `C07.valid_stream_through_a_ring_to_the_end`; stated here because it comes out of the same
    format-independent derivation, `Lemmas/CoreRingTheory`): a ring of `W ≥ 32768` bytes, any
    chunking (cuts inside header and trailer included), any number of laps, nothing assumed about
    the run except that the driver went on while calls were suspended. The last call ends in one of
    four statuses; if that is `Done`, the bytes taken out of the ring after each call, concatenated,
    are exactly the plaintext of the stream and the calls together consumed exactly the stream's bytes
    (header, body, trailer), whatever follows it in the input. -/
theorem valid_zlib_stream_through_a_ring_to_the_end (flagsR flagsF W : Nat) (hfl : FlagsRF flagsR flagsF) (hbig : 32768 ≤ W)
    (c : Array UInt8) (cs : List (Array UInt8)) (b : Array UInt8) (oR : Array UInt8) (zr : ZInflated)
    (hW : oR.size = W) (hg : badGeometry flagsR W 0 = false)
    (hz : hasFlag flagsR fParseZlib = true) (hstop : hasFlag flagsR fStopOnBlockBoundary = false)
    (hspec : zlibSpec #[] 32768 (catList (c :: cs) ++ b) true = .accept zr)
    (hsus : ∀ x ∈ (runRing flagsR W {} oR 0 #[] (c :: cs)).dropLast, suspended x.1)
    (lastR : Res × Nat) (hlast : (runRing flagsR W {} oR 0 #[] (c :: cs)).getLast? = some lastR) :
    (lastR.1.status = stDone ∨ lastR.1.status = stHasMoreOutput ∨ lastR.1.status = stNeedsMoreInput ∨
      lastR.1.status = stFailedCannotMakeProgress) ∧
    (lastR.1.status = stDone → deliveredRing (runRing flagsR W {} oR 0 #[] (c :: cs)) = zr.inner.out ∧
      ((runRing flagsR W {} oR 0 #[] (c :: cs)).map (·.1.consumed)).sum = zr.bytesUsed) := by
  have T := zlibFlatTheory flagsF hfl.flat (by rw [hfl.zlib]; exact hz) (by rw [hfl.stop]; exact hstop) zr
  obtain ⟨oF, G, _, hst, hdel, hcons⟩ := ring_vs_one_flat_call T hfl hbig oR hW hg c cs b hspec hsus lastR hlast 0
  refine ⟨by rw [← hst]; exact T.never _ b oF G hspec, fun hd => ?_⟩
  obtain ⟨hw, hb, hL⟩ := T.done _ b oF G hspec (by rw [hst]; exact hd)
  refine ⟨?_, by rw [← hcons (by rw [hst, hd]; decide)]; exact hL⟩
  rw [hdel, hw]
  have hf1 := decompress_facts {} (catList (c :: cs)) oF 0 G flagsF
  have hsz : zr.inner.out.size ≤ (decompress {} (catList (c :: cs)) oF 0 G flagsF).out.size := by
    rw [← hw, hf1.size]; have := hf1.room; omega
  have := extract_prefix_eq _ zr.inner.out zr.inner.out.size hsz (Nat.le_refl _) hb
  rw [this]; simp

open Model.Core Model.InflB Spec in
/-- A VALID RAW STREAM THROUGH `inflate()`, ANY CHUNKING, ANY OUTPUT SIZES, ANY NUMBER OF CALLS
    (none asking to finish), whatever follows the stream in the input (`b0`), however often the
    window laps. `Safe` (Lemmas/InflBytes) says of every call up to and including the first that
    reports stream end: its status is Ok, StreamEnd or — only if it was offered no input at all — a
    buffer error (never a data error); it consumed no more than it was offered and handed over no
    more than there was room for; offered input and room it made progress or ended the stream;
    everything handed over so far is a prefix of the plaintext the reference decoder defines; and
    when it reports stream end, everything handed over IS that plaintext AND the input consumed over
    all calls so far is exactly the length of the stream (`(bitsUsed + 7) / 8` bytes for raw, header +
    body + trailer for zlib: the stream's last byte is consumed, nothing after it ever is). Induction over the call
    sequence with the invariant `WInv`: between calls the wrapper is the ring driver of C07
    (`Running`: its inner calls are `runRing`'s calls, delivered + pending = what the ring driver
    delivered) or is draining the tail of a finished stream; the loop never runs out of the fuel the
    model gives it. -/
theorem valid_raw_stream_through_inflate (calls : List (Array UInt8 × Nat)) (b0 : Array UInt8) (res : Inflated)
    (hspec : inflateSpec #[] 32768 (catList (calls.map Prod.fst) ++ b0) 0 = .accept res) :
    Safe res.out ((res.bitsUsed + 7) / 8) #[] 0 (runInfl (Model.Infl.flagIgnoreAdler + Model.Infl.flagHasMoreInput) WB.fresh #[] calls) := by
  apply run_safe (raw_wrapper_flags res) b0 calls WB.fresh #[] #[] 0
  refine .inl ⟨[], #[], ?_, ?_⟩
  · have := Running.fresh (Model.Infl.flagIgnoreAdler + Model.Infl.flagHasMoreInput) #[]
    simpa using this
  · have : catList (([] : List (Array UInt8)) ++ [#[]]) = #[] := by simp [catList]
    rw [this, Array.empty_append]; exact hspec

open Model.Core Model.InflB Spec in
/-- THE SAME FOR A VALID ZLIB STREAM (header, body, Adler-32 trailer; what `inflate()` is mostly used
    for): any chunking — cuts inside the header or the trailer included —, any output sizes, any
    number of calls, whatever follows the stream. -/
theorem valid_zlib_stream_through_inflate (calls : List (Array UInt8 × Nat)) (b0 : Array UInt8) (zr : ZInflated)
    (hspec : zlibSpec #[] 32768 (catList (calls.map Prod.fst) ++ b0) true = .accept zr) :
    Safe zr.inner.out zr.bytesUsed #[] 0
      (runInfl (Model.Infl.flagParseZlib + Model.Infl.flagComputeAdler + Model.Infl.flagHasMoreInput) WB.fresh #[] calls) := by
  apply run_safe (zlib_wrapper_flags zr) b0 calls WB.fresh #[] #[] 0
  refine .inl ⟨[], #[], ?_, ?_⟩
  · have := Running.fresh (Model.Infl.flagParseZlib + Model.Infl.flagComputeAdler + Model.Infl.flagHasMoreInput) #[]
    simpa using this
  · have : catList (([] : List (Array UInt8)) ++ [#[]]) = #[] := by simp [catList]
    show zlibSpec #[] 32768 (catList (([] : List (Array UInt8)) ++ [#[]]) ++ (catList (calls.map Prod.fst) ++ b0)) true = .accept zr
    rw [this, Array.empty_append]; exact hspec

open Model.Core Model.InflB Spec in
/-- THE FIRST-CALL `Finish` SHORTCUT (`inflate(fresh state, whole input, output, Finish)`, the path
    `decompress_to_vec`-style one-shot users of the streaming API take): for a valid raw stream with
    room for its plaintext the call reports stream end and has written exactly the plaintext; with
    less room it reports a buffer error and the state remembers `Failed` (no later call can succeed). -/
theorem finish_first_call_raw (z out : Array UInt8) (res : Inflated)
    (hspec : inflateSpec #[] 32768 z 0 = .accept res) :
    (res.out.size ≤ out.size → (inflateFinishFirst Model.Infl.flagIgnoreAdler z out).1.status = Model.InflB.rStreamEnd ∧
      (inflateFinishFirst Model.Infl.flagIgnoreAdler z out).1.out = res.out ∧
      (inflateFinishFirst Model.Infl.flagIgnoreAdler z out).2 = stDone ∧
      (inflateFinishFirst Model.Infl.flagIgnoreAdler z out).1.consumed = (res.bitsUsed + 7) / 8) ∧
    (out.size < res.out.size → (inflateFinishFirst Model.Infl.flagIgnoreAdler z out).1.status = Model.InflB.rBuf ∧
      (inflateFinishFirst Model.Infl.flagIgnoreAdler z out).2 = stFailed) :=
  finish_first_ok (rawFlatTheory (Model.Infl.flagIgnoreAdler + fNonWrapping) (by decide) (by decide) (by decide) res) z out hspec

open Model.Core Model.InflB Spec in
/-- … and for a valid zlib stream. -/
theorem finish_first_call_zlib (z out : Array UInt8) (zr : ZInflated)
    (hspec : zlibSpec #[] 32768 z true = .accept zr) :
    (zr.inner.out.size ≤ out.size →
      (inflateFinishFirst (Model.Infl.flagParseZlib + Model.Infl.flagComputeAdler) z out).1.status = Model.InflB.rStreamEnd ∧
      (inflateFinishFirst (Model.Infl.flagParseZlib + Model.Infl.flagComputeAdler) z out).1.out = zr.inner.out ∧
      (inflateFinishFirst (Model.Infl.flagParseZlib + Model.Infl.flagComputeAdler) z out).2 = stDone ∧
      (inflateFinishFirst (Model.Infl.flagParseZlib + Model.Infl.flagComputeAdler) z out).1.consumed = zr.bytesUsed) ∧
    (out.size < zr.inner.out.size →
      (inflateFinishFirst (Model.Infl.flagParseZlib + Model.Infl.flagComputeAdler) z out).1.status = Model.InflB.rBuf ∧
      (inflateFinishFirst (Model.Infl.flagParseZlib + Model.Infl.flagComputeAdler) z out).2 = stFailed) :=
  finish_first_ok (zlibFlatTheory (Model.Infl.flagParseZlib + Model.Infl.flagComputeAdler + fNonWrapping) (by decide) (by decide) (by decide) zr) z out hspec

open Model.Core Model.InflB Spec in
/-- what `Safe` says, spelled out for the first call that reports stream end: all the plaintext has been
    handed over, exactly `L` bytes of input — the encoded length of the stream — have been consumed, and
    STREAM END IS STABLE: every later call of the session, whatever it is offered, reports stream end
    again, consumes nothing and hands over nothing (`Lemmas/CoreDone`: `Done` is absorbing for the
    decoder model, the zlib checksum comparison included; `ended_call`) -/
theorem safe_stream_end (P : Array UInt8) (L : Nat) : ∀ (rs : List (Nat × Nat × Model.InflB.CallRes)) (D : Array UInt8) (C : Nat), Model.Core.Safe P L D C rs →
    ∀ k, k < rs.length → (∀ j, j < k → (rs[j]?.map (·.2.2.status)) ≠ some Model.InflB.rStreamEnd) →
      (rs[k]?.map (·.2.2.status)) = some Model.InflB.rStreamEnd →
      D ++ Model.InflB.delivered (rs.take (k + 1)) = P ∧
      C + ((rs.take (k + 1)).map (·.2.2.consumed)).sum = L ∧
      (∀ x ∈ rs.drop (k + 1), x.2.2.status = Model.InflB.rStreamEnd ∧ x.2.2.consumed = 0 ∧ x.2.2.out = #[]) := by
  intro rs
  induction rs with
  | nil => intro D C _ k hk; exact absurd hk (Nat.not_lt_zero _)
  | cons r rest ih =>
    intro D C hs k hk hbefore hend
    obtain ⟨n, room, r⟩ := r
    obtain ⟨_, _, _, _, _, hs2⟩ := hs
    cases k with
    | zero =>
      simp only [List.getElem?_cons_zero, Option.map_some, Option.some.injEq] at hend
      rw [if_pos hend] at hs2
      show D ++ Model.InflB.delivered [(n, room, r)] = P ∧ C + ([(n, room, r)].map (·.2.2.consumed)).sum = L ∧
        (∀ x ∈ rest, x.2.2.status = Model.InflB.rStreamEnd ∧ x.2.2.consumed = 0 ∧ x.2.2.out = #[])
      rw [Model.InflB.delivered_cons, Model.InflB.delivered_nil, Array.append_empty]
      exact ⟨hs2.1, by simpa using hs2.2.1, hs2.2.2⟩
    | succ k =>
      have h0 := hbefore 0 (Nat.succ_pos _)
      simp only [List.getElem?_cons_zero, Option.map_some, ne_eq, Option.some.injEq] at h0
      rw [if_neg h0] at hs2
      have := ih (D ++ r.out) (C + r.consumed) hs2 k (by simpa using hk)
        (fun j hj => by have := hbefore (j + 1) (by omega); simpa using this)
        (by simpa using hend)
      rw [List.take_succ_cons, Model.InflB.delivered_cons, ← Array.append_assoc, List.map_cons, List.sum_cons, ← Nat.add_assoc, List.drop_succ_cons]
      exact this

/-- … and for every call before that: no data error, counts within bounds, a prefix of the plaintext. -/
theorem safe_every_call (P : Array UInt8) (L : Nat) : ∀ (rs : List (Nat × Nat × Model.InflB.CallRes)) (D : Array UInt8) (C : Nat), Model.Core.Safe P L D C rs →
    ∀ k, k < rs.length → (∀ j, j < k → (rs[j]?.map (·.2.2.status)) ≠ some Model.InflB.rStreamEnd) →
      ∀ n room r, rs[k]? = some (n, room, r) →
        r.status ≠ Model.InflB.rData ∧ r.consumed ≤ n ∧ r.out.size ≤ room ∧
        (r.status = Model.InflB.rBuf → n = 0) ∧
        Model.Core.IsPrefix (D ++ Model.InflB.delivered (rs.take (k + 1))) P := by
  intro rs
  induction rs with
  | nil => intro D C _ k hk; exact absurd hk (Nat.not_lt_zero _)
  | cons r0 rest ih =>
    intro D C hs k hk hbefore n room r hget
    obtain ⟨n0, room0, r0⟩ := r0
    obtain ⟨hst, hc, ho, _, hpre, hs2⟩ := hs
    cases k with
    | zero =>
      simp only [List.getElem?_cons_zero, Option.some.injEq, Prod.mk.injEq] at hget
      obtain ⟨rfl, rfl, rfl⟩ := hget
      refine ⟨?_, hc, ho, ?_, ?_⟩
      · rcases hst with h | h | h
        · rw [h]; decide
        · rw [h]; decide
        · rw [h.1]; decide
      · intro hb
        rcases hst with h | h | h
        · rw [h] at hb; exact absurd hb (by decide)
        · rw [h] at hb; exact absurd hb (by decide)
        · exact h.2
      · show Model.Core.IsPrefix (D ++ Model.InflB.delivered [(n0, room0, r0)]) P
        rw [Model.InflB.delivered_cons, Model.InflB.delivered_nil, Array.append_empty]; exact hpre
    | succ k =>
      have h0 := hbefore 0 (Nat.succ_pos _)
      simp only [List.getElem?_cons_zero, Option.map_some, ne_eq, Option.some.injEq] at h0
      rw [if_neg h0] at hs2
      have := ih (D ++ r0.out) (C + r0.consumed) hs2 k (by simpa using hk)
        (fun j hj => by have := hbefore (j + 1) (by omega); simpa using this) n room r (by simpa using hget)
      rw [List.take_succ_cons, Model.InflB.delivered_cons, ← Array.append_assoc]
      exact this

open Model.Core Model.InflB Spec in
/-- ENCODER SPECIFICATION → STREAMING WRAPPER, END TO END: take any well-formed sequence of static,
    dynamic and stored blocks (any tokens, any valid code lengths, any header run-length coding), frame
    it as zlib with any RFC-valid header pair, cut the bytes holding that encoding into any chunks and
    feed them through `inflate()` with any output sizes: what comes out is, call by call, a prefix of
    the LZ77 expansion of the blocks' tokens and, at the first stream end, exactly that expansion, with
    exactly the bytes of the encoding (2 header bytes, the padded body, 4 trailer bytes) consumed.
    (`C09.zlib_encoding_round_trip` + `valid_zlib_stream_through_inflate`.) -/
theorem conforming_zlib_encoding_through_inflate (cmf flg : Nat) (hc : cmf < 256) (hf : flg < 256)
    (hv : zlibHeaderValid cmf flg = true) (bs : List EncBlock) (hok : C10.StreamOk 32768 #[] bs)
    (calls : List (Array UInt8 × Nat)) (b0 : Array UInt8)
    (h : HasBits (catList (calls.map Prod.fst) ++ b0) 0 (zlibBits cmf flg bs)) :
    Safe (expandBlocks #[] #[] bs) ((16 + (blocksBits 16 bs).length + 7) / 8 + 4) #[] 0
      (runInfl (Model.Infl.flagParseZlib + Model.Infl.flagComputeAdler + Model.Infl.flagHasMoreInput) WB.fresh #[] calls) := by
  obtain ⟨zr, hacc, hout, hused⟩ := C09.zlib_encoding_round_trip cmf flg hc hf hv 32768 _ bs hok h
  rw [← hout, ← hused]
  exact valid_zlib_stream_through_inflate calls b0 zr hacc

open Model.Core Model.InflB in
/-- FOR EVERY INPUT — valid, truncated, corrupt, anything — every flag word and every sequence of calls
    on the byte-level model: no call consumes more than it was offered or hands over more than there
    was room for. (Induction over the loop and the call list with the window geometry as invariant;
    the decoder's own bounds are C05 / C08.) -/
theorem counts_within_buffers_for_every_input (flags : Nat) (calls : List (Array UInt8 × Nat)) :
    ∀ x ∈ runInfl flags WB.fresh #[] calls, x.2.2.consumed ≤ x.1 ∧ x.2.2.out.size ≤ x.2.1 :=
  runInfl_counts flags calls WB.fresh #[] fresh_geo

open Model.Core Model.InflB in
/-- A RECORDED DECODER FAILURE IS STICKY, with bytes: whatever is offered afterwards, the call consumes
    nothing, hands over nothing, leaves the state as it is and reports the same error again (a data
    error; a buffer error for "cannot make progress"). -/
theorem failure_is_sticky_with_bytes (flags : Nat) (w : WB) (inp : Array UInt8) (room : Nat) (hf : w.last < 0) :
    (inflateNone flags w inp room).1 = w ∧ (inflateNone flags w inp room).2.consumed = 0 ∧
    (inflateNone flags w inp room).2.out = #[] ∧
    (inflateNone flags w inp room).2.status = (if w.last = stFailedCannotMakeProgress then Model.InflB.rBuf else Model.InflB.rData) :=
  inflateNone_failed_sticky flags w inp room hf

open Model.Core Model.InflB in
/-- PROGRESS OR A TERMINAL RESULT, FOR EVERY INPUT: a call of the byte-level model that is offered at
    least one byte of input and one byte of room — on any state with a well-formed window, whatever the
    input bytes are, whatever happened before — consumes something, hands something over, or returns
    stream end / a data error / a buffer error. (`flags`: any flag word without the block-boundary stop,
    as `inflate()` builds them.) -/
theorem progress_or_terminal_for_every_input (flags : Nat) (hstop : hasFlag flags fStopOnBlockBoundary = false) (w : WB)
    (inp : Array UInt8) (room : Nat) (hg : WGeo w) (hi : 0 < inp.size) (hr : 0 < room) :
    0 < (inflateNone flags w inp room).2.consumed ∨ 0 < (inflateNone flags w inp room).2.out.size ∨
    (inflateNone flags w inp room).2.status = Model.InflB.rStreamEnd ∨ (inflateNone flags w inp room).2.status = Model.InflB.rData ∨
    (inflateNone flags w inp room).2.status = Model.InflB.rBuf :=
  inflateNone_progress flags hstop w inp room hg hi hr

-- non-vacuity: a stored block "hi" (final), fed in two calls with one byte of room, then plenty
example : (Model.InflB.runInfl 66 Model.InflB.WB.fresh #[] [(#[0x01, 0x02, 0x00], 1), (#[0xfd, 0xff, 0x68, 0x69], 1), (#[], 5)]).map
    (fun r => (r.1, r.2.1, r.2.2.consumed, r.2.2.out, r.2.2.status)) = [(3, 1, 3, #[], 0), (4, 1, 4, #[0x68], 0), (0, 5, 0, #[0x69], 1)] := by decide +kernel

-- the same stream in a zlib wrapper, cut inside the header and inside the trailer
example : (Model.InflB.runInfl 11 Model.InflB.WB.fresh #[] [(#[0x78], 4), (#[0x9c, 0x01, 0x02, 0x00, 0xfd, 0xff, 0x68, 0x69, 0x01, 0x3b], 1), (#[0x00, 0xd2, 0xaa], 5), (#[], 5)]).map
    (fun r => (r.1, r.2.1, r.2.2.consumed, r.2.2.out, r.2.2.status)) =
    [(1, 4, 1, #[], 0), (10, 1, 10, #[0x68], 0), (3, 5, 0, #[0x69], 0), (3, 5, 2, #[], 1)] := by decide +kernel

end C13
