/-
C13 — streaming inflate obeys its status protocol and always makes progress.
Proved here over definitions REGENERATED from the source: the status classes `inflate()` branches
on (`(status as i32) < 0` selects exactly the four failure statuses; `FailedCannotMakeProgress`
is the one mapped to a buffer error), the flush values the C entry point accepts, and the data
format selected by the window-bits sign. The protocol itself (counts, prefix delivery, progress,
stream-end exactness and stability, sticky data errors, recoverable starvation, Finish/Full
errors, termination of the driver loop) is checked per run: all call sequences of depth 2
(quick) / 3 (thorough) over the 64-letter alphabet of the property on valid, truncated, corrupt
and trailing-byte streams, each completed by the usual driver loop, then random long schedules.
-/
import MinizProof.Gen.All
import MinizProof.Lemmas.Finite
import MinizProof.Lemmas.InflStream
set_option maxRecDepth 1000000
open Fin'
namespace C13
open Gen.InflMod Gen.Lib

theorem failure_statuses_are_negative : ∀ st ∈ TINFLStatus.all,
    decide (st < 0) = (st == TINFLStatus.FailedCannotMakeProgress || st == TINFLStatus.BadParam ||
                       st == TINFLStatus.Adler32Mismatch || st == TINFLStatus.Failed) := by
  have h : allIn TINFLStatus.all (fun st => decide (st < 0) ==
      (st == TINFLStatus.FailedCannotMakeProgress || st == TINFLStatus.BadParam ||
       st == TINFLStatus.Adler32Mismatch || st == TINFLStatus.Failed)) = true := by decide +kernel
  intro st hst
  simpa using allIn_spec h st hst

/-- The C entry points accept exactly flush 0..4 (1 and 2 both mean Sync); everything else is a
    parameter error — for every i32 (symbolic). -/
theorem flush_values (f : Int) :
    MZFlush_new f = (if f = 0 then G.Res.ok MZFlush.None else if f = 1 ∨ f = 2 then G.Res.ok MZFlush.Sync
      else if f = 3 then G.Res.ok MZFlush.Full else if f = 4 then G.Res.ok MZFlush.Finish
      else G.Res.err MZError.Param) := by
  unfold MZFlush_new
  simp only [Id.run, pure, beq_iff_eq, Bool.or_eq_true]
  repeat' split
  all_goals first | rfl | omega | (simp_all; done) | (exfalso; omega)

theorem format_from_window_bits (wb : Int) :
    DataFormat_from_window_bits wb = (if wb > 0 then DataFormat.Zlib else DataFormat.Raw) := by
  unfold DataFormat_from_window_bits
  simp [Id.run, pure]

theorem error_codes : MZError.Buf = -5 ∧ MZError.Data = -3 ∧ MZError.Stream = -2 ∧ MZError.Param = -10000 ∧
    MZStatus.Ok = 0 ∧ MZStatus.StreamEnd = 1 := by decide +kernel

/-! ### Protocol theorems about the model of `inflate()` (Model/InflStream.lean), for EVERY
behaviour of the low-level decoder (any script of responses), every buffer size and every call
history — induction over the loop and over the call sequence. The model is tied to the code by
replaying the recorded inner `decompress` calls of every real `inflate()` call of the run, with
the wrapper state before and after (leg K). -/
open Model.Infl

theorem codes_match_source :
    tFailedCannotMakeProgress = TINFLStatus.FailedCannotMakeProgress ∧ tFailed = TINFLStatus.Failed ∧
    tDone = TINFLStatus.Done ∧ tNeedsMoreInput = TINFLStatus.NeedsMoreInput ∧
    (fFull : Int) = MZFlush.Full ∧ (fFinish : Int) = MZFlush.Finish ∧
    rOk = MZStatus.Ok ∧ rStreamEnd = MZStatus.StreamEnd ∧ rBuf = MZError.Buf ∧ rData = MZError.Data ∧ rStream = MZError.Stream ∧
    (flagParseZlib : Int) = Gen.InflCore.TINFL_FLAG_PARSE_ZLIB_HEADER ∧ (flagHasMoreInput : Int) = Gen.InflCore.TINFL_FLAG_HAS_MORE_INPUT ∧
    (flagNonWrapping : Int) = Gen.InflCore.TINFL_FLAG_USING_NON_WRAPPING_OUTPUT_BUF ∧
    (flagComputeAdler : Int) = Gen.InflCore.TINFL_FLAG_COMPUTE_ADLER32 ∧ (flagIgnoreAdler : Int) = Gen.InflCore.TINFL_FLAG_IGNORE_ADLER32 ∧
    (dictSize : Int) = Gen.InflCore.TINFL_LZ_DICT_SIZE := by decide +kernel

/-- Invariant of the wrapper state between calls (holds for a fresh state, preserved by every call). -/
def Inv2 (s : St) : Prop := s.Inv ∧ (s.firstCall = true → s.dictAvail = 0)

/-- What one call guarantees, whatever the decoder does. -/
structure CallPost (s : St) (inLen outLen : Nat) (s' : St) (r : Result) : Prop where
  inv     : Inv2 s'
  counts  : r.consumed ≤ inLen ∧ r.written ≤ outLen
  endDone : r.status = rStreamEnd → s'.lastStatus = tDone ∧ s'.dictAvail = 0
  dataNeg : r.status = rData → s'.lastStatus < 0 ∧ s'.lastStatus ≠ tFailedCannotMakeProgress
  okProg  : r.status = rOk → 0 < inLen → 0 < outLen → 0 < r.consumed + r.written
  fmt     : s'.fmt = s.fmt

theorem call_post (s : St) (inLen outLen flush : Nat) (script : List Resp) (s' : St) (r : Result) (cs : List Call)
    (hinv : Inv2 s) (h : inflate s inLen outLen flush script = .ok s' r cs) : CallPost s inLen outLen s' r := by
  unfold inflate at h
  obtain ⟨⟨hofs, hsum⟩, hfirst⟩ := hinv
  split at h
  · simp only [Outcome.ok.injEq] at h; obtain ⟨hs, hr, _⟩ := h; subst hs hr
    exact ⟨⟨⟨hofs, hsum⟩, hfirst⟩, by simp, by simp [rStream, rStreamEnd], by simp [rStream, rData], by simp [rStream, rOk], rfl⟩
  · simp only at h
    split at h
    · simp only [Outcome.ok.injEq] at h; obtain ⟨hs, hr, _⟩ := h; subst hs hr
      exact ⟨⟨⟨hofs, hsum⟩, by simp⟩, by simp, by simp [rBuf, rStreamEnd], by simp [rBuf, rData], by simp [rBuf, rOk], rfl⟩
    · rename_i hnf
      split at h
      · rename_i hneg
        simp only [Outcome.ok.injEq] at h; obtain ⟨hs, hr, _⟩ := h; subst hs hr
        exact ⟨⟨⟨hofs, hsum⟩, by simp⟩, by simp, by simp [rData, rStreamEnd], fun _ => ⟨hneg, hnf⟩, by simp [rData, rOk], rfl⟩
      · split at h
        · simp only [Outcome.ok.injEq] at h; obtain ⟨hs, hr, _⟩ := h; subst hs hr
          exact ⟨⟨⟨hofs, hsum⟩, by simp⟩, by simp, by simp [rStream, rStreamEnd], by simp [rStream, rData], by simp [rStream, rOk], rfl⟩
        · split at h
          · -- first call with Finish: one decoder call straight into the caller's buffer
            rename_i hff
            have hav0 : s.dictAvail = 0 := hfirst hff.2
            split at h
            · simp at h
            · rename_i x xs
              split at h
              · simp at h
              · rename_i hb
                split at h
                · simp only [Outcome.ok.injEq] at h; obtain ⟨hs, hr, _⟩ := h; subst hs hr
                  exact ⟨⟨⟨hofs, hsum⟩, by simp⟩, ⟨by simp only; omega, by simp only; omega⟩, by simp [rBuf, rStreamEnd], by simp [rBuf, rData], by simp [rBuf, rOk], rfl⟩
                · rename_i h1
                  split at h
                  · rename_i h2
                    simp only [Outcome.ok.injEq] at h; obtain ⟨hs, hr, _⟩ := h; subst hs hr
                    exact ⟨⟨⟨hofs, hsum⟩, by simp⟩, ⟨by simp only; omega, by simp only; omega⟩, by simp [rData, rStreamEnd], fun _ => ⟨h2, h1⟩, by simp [rData, rOk], rfl⟩
                  · split at h
                    · simp only [Outcome.ok.injEq] at h; obtain ⟨hs, hr, _⟩ := h; subst hs hr
                      exact ⟨⟨⟨hofs, hsum⟩, by simp⟩, ⟨by simp only; omega, by simp only; omega⟩, by simp [rBuf, rStreamEnd], by simp [rBuf, rData], by simp [rBuf, rOk], rfl⟩
                    · rename_i h3
                      simp only [Outcome.ok.injEq] at h; obtain ⟨hs, hr, _⟩ := h; subst hs hr
                      refine ⟨⟨⟨hofs, hsum⟩, by simp⟩, ⟨by simp only; omega, by simp only; omega⟩, ?_, by simp [rStreamEnd, rData], by simp [rStreamEnd, rOk], rfl⟩
                      intro _
                      exact ⟨Decidable.of_not_not h3, hav0⟩
          · split at h
            · -- pending bytes from an earlier call are delivered first
              rename_i hav
              have hpd := pushDictOut_spec { s with firstCall := false, hasFlushed := s.hasFlushed || flush == fFinish } outLen (by simpa using hsum)
              generalize hp : pushDictOut { s with firstCall := false, hasFlushed := s.hasFlushed || flush == fFinish } outLen = p at h hpd
              obtain ⟨n, s2⟩ := p
              simp only at h hpd
              obtain ⟨hn1, hn2, hav2, ho, hinv2, hls, hfmt, hfl, hfc, hfull⟩ := hpd
              simp only [Outcome.ok.injEq] at h; obtain ⟨hs, hr, _⟩ := h; subst hs hr
              refine ⟨⟨⟨ho, hinv2⟩, by rw [hfc]; simp⟩, ⟨by simp, by simpa using hn1⟩, ?_, ?_, ?_, hfmt⟩
              · simp only; split
                · rename_i hd; intro _; exact hd
                · simp [rOk, rStreamEnd]
              · simp only; split <;> simp [rOk, rStreamEnd, rData]
              · intro _ _ hout
                simp only
                have : 0 < n := by
                  by_cases hz : s2.dictAvail = 0
                  · omega
                  · have := hfull hz; omega
                omega
            · have hp := loop_post flush _ inLen script { s with firstCall := false, hasFlushed := s.hasFlushed || flush == fFinish } inLen outLen 0 0 [] s' r cs (by simpa using hofs) h
              refine ⟨⟨hp.inv, by rw [hp.same.2.2]; simp⟩, ⟨by have := hp.cHi; omega, by have := hp.wHi; omega⟩, hp.endDone, hp.dataNeg, ?_, hp.same.1⟩
              intro hk hi ho
              rcases hp.okProg hk with h1 | h1 <;> omega

theorem fresh_inv (fmt : Nat) : Inv2 (St.fresh fmt) := by
  unfold Inv2 St.Inv St.fresh dictSize; simp

/-- A full-flush request is a stream error and changes nothing. -/
theorem full_flush_is_stream_error (s : St) (inLen outLen : Nat) (script : List Resp) :
    inflate s inLen outLen fFull script = .ok s ⟨0, 0, rStream⟩ [] := by
  simp [inflate]

/-- A failed stream stays failed: with a data-error status recorded, every later call (other than
    the refused full flush) reports a data error, moves nothing, calls the decoder no more and
    keeps the status. -/
theorem data_error_sticky_step (s : St) (inLen outLen flush : Nat) (script : List Resp)
    (hneg : s.lastStatus < 0) (hne : s.lastStatus ≠ tFailedCannotMakeProgress) (hfl : flush ≠ fFull) :
    inflate s inLen outLen flush script = .ok { s with firstCall := false } ⟨0, 0, rData⟩ [] := by
  unfold inflate
  simp [hfl, hne, hneg]

/-- A finish request on input that ended early (the decoder answered cannot-make-progress) is a
    buffer error for good: every later call answers a buffer error without calling the decoder. -/
theorem cannot_progress_sticky_step (s : St) (inLen outLen flush : Nat) (script : List Resp)
    (h : s.lastStatus = tFailedCannotMakeProgress) (hfl : flush ≠ fFull) :
    inflate s inLen outLen flush script = .ok { s with firstCall := false } ⟨0, 0, rBuf⟩ [] := by
  unfold inflate
  simp [hfl, h]

/-- A sequence of calls, each with its own decoder script. -/
structure Req where
  inLen  : Nat
  outLen : Nat
  flush  : Nat
  script : List Resp

def runCalls : St → List Req → Option (St × List Result)
  | s, [] => some (s, [])
  | s, q :: qs =>
    match inflate s q.inLen q.outLen q.flush q.script with
    | .ok s' r _ => (runCalls s' qs).map (fun p => (p.1, r :: p.2))
    | _ => none

/-- Every reachable state satisfies the invariant and every call of every history keeps its
    counts within the offered buffers — induction over the call sequence. -/
theorem history_counts_bounded : ∀ (reqs : List Req) (s sf : St) (rs : List Result),
    Inv2 s → runCalls s reqs = some (sf, rs) →
    Inv2 sf ∧ rs.length = reqs.length ∧
    ∀ i (h1 : i < reqs.length) (h2 : i < rs.length), rs[i].consumed ≤ reqs[i].inLen ∧ rs[i].written ≤ reqs[i].outLen := by
  intro reqs
  induction reqs with
  | nil => intro s sf rs hi h; simp [runCalls] at h; obtain ⟨h1, h2⟩ := h; subst h1 h2; exact ⟨hi, rfl, by intro i h1; simp at h1⟩
  | cons q qs ih =>
    intro s sf rs hi h
    unfold runCalls at h
    split at h
    · rename_i s' r cs heq
      have hp := call_post s q.inLen q.outLen q.flush q.script s' r cs hi heq
      cases hrec : runCalls s' qs with
      | none => simp [hrec] at h
      | some p =>
        simp only [hrec, Option.map_some, Option.some.injEq, Prod.mk.injEq] at h
        obtain ⟨h1, h2⟩ := h
        have := ih s' p.1 p.2 hp.inv (by rw [hrec])
        subst h1 h2
        refine ⟨this.1, by simp [this.2.1], ?_⟩
        intro i h1 h2
        cases i with
        | zero => simpa using hp.counts
        | succ j => simpa using this.2.2 j (by simpa using h1) (by simpa using h2)
    · simp at h

/-- Data errors are sticky over whole histories: once the recorded status is a data error, every
    later result is a data error (or the stream error of a refused full flush), with nothing moved. -/
theorem data_error_sticky : ∀ (reqs : List Req) (s sf : St) (rs : List Result),
    s.lastStatus < 0 → s.lastStatus ≠ tFailedCannotMakeProgress → runCalls s reqs = some (sf, rs) →
    ∀ r ∈ rs, (r.status = rData ∨ r.status = rStream) ∧ r.consumed = 0 ∧ r.written = 0 := by
  intro reqs
  induction reqs with
  | nil => intro s sf rs _ _ h; simp [runCalls] at h; intro r hr; rw [h.2] at hr; simp at hr
  | cons q qs ih =>
    intro s sf rs hneg hne h
    unfold runCalls at h
    by_cases hfl : q.flush = fFull
    · rw [hfl, full_flush_is_stream_error] at h
      simp only at h
      cases hrec : runCalls s qs with
      | none => simp [hrec] at h
      | some p =>
        simp only [hrec, Option.map_some, Option.some.injEq, Prod.mk.injEq] at h
        obtain ⟨_, h2⟩ := h
        intro r hr
        rw [← h2] at hr
        cases hr with
        | head => simp
        | tail _ hm => exact ih s p.1 p.2 hneg hne (by rw [hrec]) r hm
    · rw [data_error_sticky_step s q.inLen q.outLen q.flush q.script hneg hne hfl] at h
      simp only at h
      cases hrec : runCalls { s with firstCall := false } qs with
      | none => simp [hrec] at h
      | some p =>
        simp only [hrec, Option.map_some, Option.some.injEq, Prod.mk.injEq] at h
        obtain ⟨_, h2⟩ := h
        intro r hr
        rw [← h2] at hr
        cases hr with
        | head => simp
        | tail _ hm => exact ih { s with firstCall := false } p.1 p.2 hneg hne (by rw [hrec]) r hm

/-- Stream end is stable: once it has been reported (status Done recorded, nothing pending) and
    the decoder keeps answering Done with nothing moved (C05: a finished decoder stays finished),
    every later call with a legal flush reports stream end again with nothing consumed or written. -/
theorem stream_end_stable (s : St) (inLen outLen flush : Nat) (rest : List Resp)
    (hd : s.lastStatus = tDone) (ha : s.dictAvail = 0) (hfc : s.firstCall = false)
    (hfl : flush ≠ fFull) (hlegal : s.hasFlushed = true → flush = fFinish) (hofs : s.dictOfs < dictSize) :
    ∃ s' cs, inflate s inLen outLen flush (⟨tDone, 0, 0⟩ :: rest) = .ok s' ⟨0, 0, rStreamEnd⟩ cs ∧
      s'.lastStatus = tDone ∧ s'.dictAvail = 0 := by
  unfold inflate
  have h1 : ¬ (tDone = tFailedCannotMakeProgress) := by decide
  have h2 : ¬ (tDone < (0:Int)) := by decide
  simp only [hfl, ↓reduceIte, hd, h1, h2, hfc, Bool.false_eq_true, and_false]
  by_cases hhf : s.hasFlushed = true
  · have hf := hlegal hhf
    subst hf
    simp [hhf, ha, loop, pushDictOut, tDone, tFailedCannotMakeProgress, tNeedsMoreInput, dictSize]
  · simp only [Bool.not_eq_true] at hhf
    by_cases hfin : flush = fFinish
    · subst hfin
      simp [hhf, ha, loop, pushDictOut, tDone, tFailedCannotMakeProgress, tNeedsMoreInput, dictSize]
    · simp [hhf, hfin, ha, loop, pushDictOut, tDone, tFailedCannotMakeProgress, tNeedsMoreInput, dictSize]

-- non-vacuity: a fresh raw-format state, a decoder that delivers 5 bytes and finishes
example : inflate (St.fresh 2) 10 100 0 [⟨tDone, 7, 5⟩] =
    .ok { dictOfs := 5, dictAvail := 0, firstCall := false, hasFlushed := false, lastStatus := tDone, fmt := 2 }
        ⟨7, 5, rStreamEnd⟩ [(10, 0, dictSize, flagIgnoreAdler + flagHasMoreInput)] := by decide
example : Inv2 (St.fresh 0) := fresh_inv 0

end C13
