/-
Driver glue: hex decoding, key=value line parsing, counters. Trusted (see DESIGN.md §3);
self-tested by `bin/check selftest`.
-/
namespace Driver

def hexVal (c : UInt8) : Nat :=
  if 48 ≤ c.toNat && c.toNat ≤ 57 then c.toNat - 48
  else if 97 ≤ c.toNat && c.toNat ≤ 102 then c.toNat - 87
  else if 65 ≤ c.toNat && c.toNat ≤ 70 then c.toNat - 55
  else 0

/-- Decode a hex string ("-" or "" = empty). -/
def hexToBytes (s : String) : Array UInt8 := Id.run do
  if s == "-" then return #[]
  let b := s.toUTF8
  let n := b.size / 2
  let mut out : Array UInt8 := Array.mkEmpty n
  for i in [0:n] do
    out := out.push (UInt8.ofNat (hexVal (b.get! (2*i)) * 16 + hexVal (b.get! (2*i+1))))
  return out

def hexDigit (n : Nat) : Char :=
  if n < 10 then Char.ofNat (48 + n) else Char.ofNat (87 + n)

def bytesToHex (a : Array UInt8) : String := Id.run do
  if a.size == 0 then return "-"
  let mut s := ""
  for b in a do
    s := s.push (hexDigit (b.toNat / 16))
    s := s.push (hexDigit (b.toNat % 16))
  return s

/-- A parsed transcript line: operation name and key=value fields. -/
structure Line where
  op : String
  kv : List (String × String)

def parseLine (s : String) : Line :=
  match (s.trimAscii.toString.splitOn " ").filter (· ≠ "") with
  | [] => { op := "", kv := [] }
  | op :: rest =>
    { op := op,
      kv := rest.map fun f =>
        match f.splitOn "=" with
        | [k, v] => (k, v)
        | k :: vs => (k, "=".intercalate vs)
        | [] => ("", "") }

def Line.get (l : Line) (k : String) : String :=
  match l.kv.find? (·.1 == k) with
  | some (_, v) => v
  | none => ""

def Line.has (l : Line) (k : String) : Bool := (l.kv.find? (·.1 == k)).isSome
def Line.nat (l : Line) (k : String) : Nat := (l.get k).toNat?.getD 0
def Line.int (l : Line) (k : String) : Int := (l.get k).toInt?.getD 0
def Line.bytes (l : Line) (k : String) : Array UInt8 := hexToBytes (l.get k)
def Line.nats (l : Line) (k : String) : List Nat :=
  let v := l.get k
  if v == "" || v == "-" then [] else (v.splitOn ",").map (·.toNat?.getD 0)
def Line.ints (l : Line) (k : String) : List Int :=
  let v := l.get k
  if v == "" || v == "-" then [] else (v.splitOn ",").map (·.toInt?.getD 0)

/-- First index at which two byte arrays differ (or the shorter length). -/
def firstDiff (a b : Array UInt8) : Nat := Id.run do
  let n := min a.size b.size
  for i in [0:n] do
    if a[i]! != b[i]! then return i
  return n

def sameBytes (a b : Array UInt8) : Bool := a.size == b.size && firstDiff a b == a.size

end Driver
