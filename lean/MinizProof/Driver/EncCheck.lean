/-
Driver side of the encoder-specification tie (op `ENC`, check `encbits`): for every Huffman block the
reference decoder found in a stream the compressor emitted, the bits between the block's header and
its end must be EXACTLY `Model.Core.encToks` of the block's tokens under the canonical codes of the
block's announced code lengths (codes most significant bit first, extra bits least significant
first, end-of-block code last, nothing in between). The codes are computed with the definitions the
theorems are about (`firstAt`, `symRank`), tabulated once per block.
-/
import MinizProof.Lemmas.EncTokens
import MinizProof.Model.DeflRle
namespace Driver
open Spec Model.Core

/-- length symbol of a match length 3..258 (258 has its own symbol) -/
def lenSym (len : Nat) : Nat :=
  if len = 258 then 285
  else (List.range 28).foldl (fun best c => if (lengthBaseExtra (257 + c)).1 ≤ len then 257 + c else best) 257

def distSym (dist : Nat) : Nat :=
  (List.range 30).foldl (fun best d => if (distBaseExtra d).1 ≤ dist then d else best) 0

/-- the two symbol maps, tabulated once -/
def lenSymTab : Array Nat := (Array.range 259).map lenSym
def distSymTab : Array Nat := (Array.range 32769).map distSym

/-- (canonical code, length) of every symbol: `canonCode lens s = firstAt lens L + symRank lens s` -/
def codeTable (lens : Array Nat) : Array (Nat × Nat) :=
  let firsts := (Array.range 16).map (firstAt lens)
  (Array.range lens.size).map fun s => (firsts.getD (lens.getD s 0) 0 + symRank lens s, lens.getD s 0)

def fixedLitTab : Array (Nat × Nat) := codeTable fixedLitLens
def fixedDistTab : Array (Nat × Nat) := codeTable fixedDistLens

/-- bits `i ..< len` of the code `code` (most significant first) are at `pos + i` -/
def checkMSBFrom (data : Array UInt8) (pos code len : Nat) : Nat → Nat → Bool
  | 0, _ => true
  | n + 1, i => bitAt data (pos + i) == some (codeBit code len i) && checkMSBFrom data pos code len n (i + 1)

def checkMSB (data : Array UInt8) (pos code len : Nat) : Bool := checkMSBFrom data pos code len len 0

def checkLSBFrom (data : Array UInt8) (pos : Nat) : Nat → Nat → Nat → Bool
  | 0, _, _ => true
  | n + 1, v, i => bitAt data (pos + i) == some (v % 2) && checkLSBFrom data pos n (v / 2) (i + 1)

def checkLSB (data : Array UInt8) (pos v n : Nat) : Bool := checkLSBFrom data pos n v 0

def tokBitLen (lt dt : Array (Nat × Nat)) : Token → Nat
  | .lit b => (lt.getD b.toNat (0, 0)).2
  | .copy len dist =>
    let ls := lenSymTab.getD len 0; let ds := distSymTab.getD dist 0
    (lt.getD ls (0, 0)).2 + (lengthBaseExtra ls).2 + (dt.getD ds (0, 0)).2 + (distBaseExtra ds).2

/-- `none` = the block's token area is exactly the specified encoding; `some msg` otherwise -/
def checkBlockTokens (data : Array UInt8) (b : BlockInfo) : Option String := Id.run do
  -- static blocks: the tables of the fixed code, computed once
  let lt := if b.btype == 1 then fixedLitTab else codeTable b.litLens
  let dt := if b.btype == 1 then fixedDistTab else codeTable b.distLens
  let eob := lt.getD 256 (0, 0)
  let total := b.tokens.foldl (fun n t => n + tokBitLen lt dt t) 0 + eob.2
  if b.bitEnd < b.bitStart + 3 + total then
    return some s!"tokens need {total} bits, the block has {b.bitEnd - b.bitStart} in all"
  let mut pos := b.bitEnd - total
  let mut k := 0
  for t in b.tokens do
    match t with
    | .lit v =>
      let c := lt.getD v.toNat (0, 0)
      if c.2 == 0 || !checkMSB data pos c.1 c.2 then return some s!"token {k} (literal {v.toNat}) at bit {pos}: not the canonical code"
      pos := pos + c.2
    | .copy len dist =>
      let ls := lenSymTab.getD len 0
      let ds := distSymTab.getD dist 0
      let c := lt.getD ls (0, 0)
      if c.2 == 0 || !checkMSB data pos c.1 c.2 then return some s!"token {k} (length {len}) at bit {pos}: length symbol {ls} not canonically coded"
      pos := pos + c.2
      let lbe := lengthBaseExtra ls
      if !checkLSB data pos (len - lbe.1) lbe.2 then return some s!"token {k} (length {len}) at bit {pos}: extra bits"
      pos := pos + lbe.2
      let d := dt.getD ds (0, 0)
      if d.2 == 0 || !checkMSB data pos d.1 d.2 then return some s!"token {k} (distance {dist}) at bit {pos}: distance symbol {ds} not canonically coded"
      pos := pos + d.2
      let dbe := distBaseExtra ds
      if !checkLSB data pos (dist - dbe.1) dbe.2 then return some s!"token {k} (distance {dist}) at bit {pos}: extra bits"
      pos := pos + dbe.2
    k := k + 1
  if eob.2 == 0 || !checkMSB data pos eob.1 eob.2 then return some s!"end-of-block code at bit {pos}"
  if pos + eob.2 != b.bitEnd then return some s!"token area ends at bit {pos + eob.2}, block at {b.bitEnd}"
  return none

/-- header of a dynamic block against the model of `start_dynamic_block` (`Model.Rle.header`): from
    the block's first bit to the start of its token area, bit for bit -/
def checkDynHeader (data : Array UInt8) (b : BlockInfo) : Option String := Id.run do
  let lt := codeTable b.litLens
  let dt := codeTable b.distLens
  let total := b.tokens.foldl (fun n t => n + tokBitLen lt dt t) 0 + (lt.getD 256 (0, 0)).2
  let hdr := Model.Rle.header b.litLens b.distLens b.clenLens
  let bits := bitsLE ((if b.final then 1 else 0) + 4) 3 ++ (bitsLE hdr.hlit 5 ++ (bitsLE hdr.hdist 5 ++
    (bitsLE (hdr.cvals.length - 4) 4 ++ (clenFieldBits hdr.cvals ++ encCSyms hdr.clens hdr.csyms))))
  if b.bitStart + bits.length + total != b.bitEnd then
    return some s!"model header has {bits.length} bits, the block has {b.bitEnd - b.bitStart - total} before its tokens ({hdr.csyms.length} code-length symbols in the model)"
  let mut i := 0
  for x in bits do
    if bitAt data (b.bitStart + i) != some x then return some s!"header bit {i} differs from the model of start_dynamic_block"
    i := i + 1
  -- the model's sequence expands to the block's code lengths (what the theorem promises)
  if (applyAll #[] hdr.csyms) != b.litLens ++ b.distLens then return some "model code-length symbols do not expand to the block's code lengths"
  return none

end Driver
