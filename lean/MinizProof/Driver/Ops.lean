/-
Driver: evaluates transcript lines written by the Rust harness (the implementation's observed
behaviour) against the L0 specification (oracle leg O) and the L2 models (correspondence leg K).
Output: `ORACLE …` lines for property violations by the implementation, `DIFF …` lines for
model-vs-implementation disagreements, `STAT …` counters.
-/
import MinizProof.Driver.Util
import MinizProof.Spec.Inflate
import MinizProof.Model.DeflStream
import MinizProof.Model.InflStream
import MinizProof.Model.Core
import MinizProof.Model.DeflOut
import MinizProof.Model.VecLoops
import MinizProof.Model.CStream
import MinizProof.Model.InflBytes
import MinizProof.Driver.EncCheck
import MinizProof.Model.HuffLimit
namespace Driver
open Spec

structure Acc where
  lines    : Nat := 0
  oracle   : Nat := 0
  diffs    : Nat := 0
  msgs     : Array String := #[]
  stats    : List (String × Nat) := []
  cacheKey : String := ""
  /-- model decoders of the correspondence leg: id ↦ (registers, output buffer) -/
  decs     : List (Nat × Model.Core.Regs × Array UInt8 × Array UInt8 × Nat) := []
  cacheDec : Option (String × Array UInt8 × Nat × Nat) := none   -- verdict, out, bytes, cmf
  /-- byte-level `inflate()` sessions: id ↦ (flags, wrapper state, everything offered, model cursor,
      implementation cursor, delivered by the model, delivered by the implementation, out of step) -/
  ifbs     : List (Nat × Nat × Model.InflB.WB × Array UInt8 × Nat × Nat × Array UInt8 × Array UInt8 × Bool) := []

def Acc.bump (a : Acc) (k : String) (n : Nat := 1) : Acc :=
  let rec go : List (String × Nat) → List (String × Nat)
    | [] => [(k, n)]
    | (k', v) :: r => if k' == k then (k', v + n) :: r else (k', v) :: go r
  { a with stats := go a.stats }

def Acc.maxStat (a : Acc) (k : String) (n : Nat) : Acc :=
  let rec go : List (String × Nat) → List (String × Nat)
    | [] => [(k, n)]
    | (k', v) :: r => if k' == k then (k', max v n) :: r else (k', v) :: go r
  { a with stats := go a.stats }

def Acc.fail (a : Acc) (ln : Nat) (l : Line) (clause msg : String) : Acc :=
  let m := s!"ORACLE line={ln} id={l.get "id"} op={l.op} clause={clause} msg={msg}"
  { a with oracle := a.oracle + 1, msgs := if a.msgs.size < 200 then a.msgs.push m else a.msgs }

def Acc.diff (a : Acc) (ln : Nat) (l : Line) (field msg : String) : Acc :=
  let m := s!"DIFF line={ln} id={l.get "id"} op={l.op} field={field} msg={msg}"
  { a with diffs := a.diffs + 1, msgs := if a.msgs.size < 200 then a.msgs.push m else a.msgs }

def rejectName : Reject → String
  | .blockType => "blockType" | .storedLen => "storedLen" | .tableSizes => "tableSizes"
  | .clenCode => "clenCode" | .repeatNoPrev => "repeatNoPrev" | .codeRun => "codeRun"
  | .litlenCode => "litlenCode" | .distCode => "distCode" | .badLitlenSym => "badLitlenSym"
  | .badDistSym => "badDistSym" | .distTooFar => "distTooFar" | .zlibHeader => "zlibHeader"
  | .adlerMismatch => "adlerMismatch"

/-- Result of Spec-decoding a whole buffer in either format, normalised. -/
structure Dec where
  verdict : String          -- accept / reject:<why> / truncated / fuel
  out     : Array UInt8 := #[]
  bytes   : Nat := 0         -- encoded length in bytes (accept only)
  blocks  : Array BlockInfo := #[]
  cmf     : Nat := 0
  flg     : Nat := 0

def specDecode (zlib : Bool) (pre : Array UInt8) (maxDist : Nat) (data : Array UInt8)
    (checkAdler : Bool := true) : Dec :=
  if zlib then
    match zlibSpec pre maxDist data checkAdler with
    | .accept r => { verdict := "accept", out := r.inner.out, bytes := r.bytesUsed,
                     blocks := r.inner.blocks, cmf := r.cmf, flg := r.flg }
    | .reject w => { verdict := "reject:" ++ rejectName w }
    | .truncated p => { verdict := "truncated", out := p }
    | .fuel => { verdict := "fuel" }
  else
    match inflateSpec pre maxDist data with
    | .accept r => { verdict := "accept", out := r.out, bytes := (r.bitsUsed + 7) / 8, blocks := r.blocks }
    | .reject w => { verdict := "reject:" ++ rejectName w }
    | .truncated p => { verdict := "truncated", out := p }
    | .fuel => { verdict := "fuel" }

structure TokStats where
  lits : Nat := 0
  nmatch : Nat := 0
  maxDist : Nat := 0
  minLen : Nat := 1000
  maxLen : Nat := 0
  nonRle : Nat := 0      -- nmatch with distance ≠ 1

def tokStats (blocks : Array BlockInfo) : TokStats :=
  blocks.foldl (fun s b => b.tokens.foldl (fun s t =>
    match t with
    | .lit _ => { s with lits := s.lits + 1 }
    | .copy len dist => { s with nmatch := s.nmatch + 1, maxDist := max s.maxDist dist,
                                 minLen := min s.minLen len, maxLen := max s.maxLen len,
                                 nonRle := if dist = 1 then s.nonRle else s.nonRle + 1 }) s) {}

/-- `ENC`: the compressor produced `comp` for `in` under a configuration. -/
def opEnc (a : Acc) (ln : Nat) (l : Line) : Acc := Id.run do
  let inp := l.bytes "in"
  let comp := l.bytes "comp"
  let zlib := l.nat "fmt" == 1
  let checks := (l.get "checks").splitOn ","
  let modes := (l.get "modes").splitOn ","
  let d := specDecode zlib #[] 32768 comp
  let mut a := a.bump "enc"
  a := a.bump ("enc_verdict_" ++ d.verdict)
  let ts := tokStats d.blocks
  a := a.bump "enc_blocks_stored" (d.blocks.foldl (fun n b => if b.btype == 0 then n + 1 else n) 0)
  a := a.bump "enc_blocks_fixed" (d.blocks.foldl (fun n b => if b.btype == 1 then n + 1 else n) 0)
  a := a.bump "enc_blocks_dynamic" (d.blocks.foldl (fun n b => if b.btype == 2 then n + 1 else n) 0)
  a := a.bump "enc_matches" ts.nmatch
  a := a.bump "enc_literals" ts.lits
  a := a.maxStat "enc_maxdist" ts.maxDist
  a := a.maxStat "enc_maxlen" ts.maxLen
  a := a.maxStat "enc_max_input" inp.size
  if checks.contains "rt" then
    if d.verdict != "accept" then
      a := a.fail ln l "rt" s!"spec verdict {d.verdict} on compressor output ({comp.size} bytes)"
    else
      if !sameBytes d.out inp then
        a := a.fail ln l "rt" s!"spec-decoded output differs from input at {firstDiff d.out inp} (sizes {d.out.size} vs {inp.size})"
      if d.bytes != comp.size then
        a := a.fail ln l "rt" s!"stream ends at byte {d.bytes} but {comp.size} bytes were emitted"
  -- the encoder-specification tie: token areas of all Huffman blocks, bit for bit
  if d.verdict == "accept" && comp.size ≤ 300000 then
    for b in d.blocks do
      if b.btype == 1 || b.btype == 2 then
        a := a.bump "enc_blocks_bitchecked"
        match checkBlockTokens comp b with
        | none => pure ()
        | some msg => a := a.diff ln l "encbits" s!"block at bit {b.bitStart} (type {b.btype}): {msg}"
        if b.btype == 2 then
          a := a.bump "enc_dyn_headers_checked"
          match checkDynHeader comp b with
          | none => pure ()
          | some msg => a := a.diff ln l "dynhdr" s!"dynamic block at bit {b.bitStart}: {msg}"
  if d.verdict == "accept" then
   let cfg := s!"level={l.get "level"} strategy={l.get "strategy"} fmt={l.get "fmt"} wb={l.get "wb"}"
   if checks.contains "mode" then
    -- empty blocks are flush markers (Partial flush = empty fixed block), not data
    if modes.contains "stored" && d.blocks.any (fun b => b.btype != 0 && b.outEnd != b.outStart) then
      a := a.fail ln l "mode" s!"level 0 emitted a non-stored data block [{cfg}]"
    if modes.contains "fixed" && d.blocks.any (·.btype == 2) then
      a := a.fail ln l "mode" s!"fixed strategy emitted a dynamic block [{cfg}]"
    if modes.contains "huff" && ts.nmatch != 0 then
      a := a.fail ln l "mode" s!"huffman-only emitted {ts.nmatch} matches [{cfg}]"
    if modes.contains "rle" && ts.nonRle != 0 then
      a := a.fail ln l "mode" s!"run-length mode emitted {ts.nonRle} matches with distance != 1 (max {ts.maxDist}) [{cfg}]"
    if modes.contains "filtered" && ts.nmatch != 0 && ts.minLen < 5 then
      a := a.fail ln l "mode" s!"filtered mode emitted a match of length {ts.minLen} [{cfg}]"
    if checks.contains "window" && zlib then
      let wb := l.nat "wb"
      let declared := 2 ^ (d.cmf / 16 + 8)
      if declared > 2 ^ (max wb 8) then
        a := a.fail ln l "window" s!"header declares window {declared} > 2^max({wb},8)"
      if ts.maxDist > declared then
        a := a.fail ln l "window" s!"match distance {ts.maxDist} exceeds declared window {declared}"
    -- "well under its own size": at most 3/4 of the input plus 64 bytes of framing (zlib header and
    -- trailer, block header, a dynamic code description of up to ~50 bytes for random halves)
    if checks.contains "ratio" && comp.size * 4 > inp.size * 3 + 256 then
      a := a.fail ln l "ratio" s!"repeated input of {inp.size} bytes compressed to {comp.size}"
    if checks.contains "header" && zlib then
      if !zlibHeaderValid d.cmf d.flg then
        a := a.fail ln l "header" "invalid zlib header"
  return a

/-- `PFX`: bytes emitted up to a flush point must decode, with nothing further, to all input so far. -/
def opPfx (a : Acc) (ln : Nat) (l : Line) : Acc := Id.run do
  let inp := l.bytes "in"
  let out := l.bytes "out"
  let zlib := l.nat "fmt" == 1
  let kind := l.nat "kind"
  let mut a := a.bump "pfx"
  a := a.bump s!"pfx_kind_{kind}"
  if zlib && !(match out[0]?, out[1]? with | some c, some f => zlibHeaderValid c.toNat f.toNat | _, _ => false) then
    return a.fail ln l "prefix" "zlib header missing or invalid at flush point"
  match inflateSpec #[] 32768 out (if zlib then 16 else 0) with
  | .truncated p =>
    if !sameBytes p inp then
      a := a.fail ln l "prefix" s!"prefix of {out.size} bytes decodes to {p.size} bytes, input so far is {inp.size} (first difference at {firstDiff p inp})"
  | .accept _ => a := a.fail ln l "prefix" "prefix contains a final block before Finish"
  | .reject w => a := a.fail ln l "prefix" s!"prefix rejected by the reference decoder: {rejectName w}"
  | .fuel => a := a.fail ln l "prefix" "fuel"
  if kind == 2 || kind == 3 then
    let n := out.size
    if n < 4 || out[n-4]! != 0 || out[n-3]! != 0 || out[n-2]! != 255 || out[n-1]! != 255 then
      a := a.fail ln l "marker" "sync/full flush output does not end with 00 00 FF FF"
    -- the conclusion of `C12.flush_point_prefix_decodes_to_all_input(_zlib)` on this prefix, through the
    -- decoder model: one call on the prefix alone writes all input so far, consumes every byte, asks for more
    if inp.size ≤ 30000 then
      let flags := Model.Core.fNonWrapping + Model.Core.fHasMoreInput + (if zlib then Model.Core.fParseZlib else 0)
      let res := Model.Core.decompress {} out (Array.replicate (inp.size + 1) 0) 0 (inp.size + 1) flags
      a := a.bump "pfx_model"
      if res.status != Model.Core.stNeedsMoreInput || res.consumed != out.size || res.written != inp.size
          || !sameBytes (res.out.extract 0 res.written) inp then
        a := a.fail ln l "prefix_model" s!"decoder model on the flush-point prefix: status {res.status}, consumed {res.consumed} of {out.size}, written {res.written} of {inp.size}"
  return a

/-- `TAIL`: the part of a finished stream after a full flush decodes on its own. -/
def opTail (a : Acc) (ln : Nat) (l : Line) : Acc := Id.run do
  let tail := l.bytes "tail"
  let expect := l.bytes "expect"
  let zlib := l.nat "fmt" == 1
  let mut a := a.bump "tail"
  match inflateSpec #[] 32768 tail 0 with
  | .accept r =>
    if !sameBytes r.out expect then
      a := a.fail ln l "fullflush" s!"tail after full flush decodes to {r.out.size} bytes, expected {expect.size} (first difference {firstDiff r.out expect})"
    if (r.bitsUsed + 7) / 8 + (if zlib then 4 else 0) != tail.size then
      a := a.fail ln l "fullflush" "tail length mismatch"
  | .reject w => a := a.fail ln l "fullflush" s!"tail after full flush is not decodable on its own: {rejectName w}"
  | .truncated _ => a := a.fail ln l "fullflush" "tail truncated"
  | .fuel => a := a.fail ln l "fullflush" "fuel"
  return a

/-- `HDR`: a two-byte zlib header in front of a fixed valid body, decoded flat (`ring=0`) or
    with a ring buffer of `ring` bytes; `st` is the implementation's final status. -/
def opHdr (a : Acc) (ln : Nat) (l : Line) : Acc := Id.run do
  let cmf := l.nat "cmf"
  let flg := l.nat "flg"
  let ring := l.nat "ring"
  let st := l.int "st"
  let expectOk := zlibHeaderValid cmf flg && (ring == 0 || ring ≥ 2 ^ (cmf / 16 + 8))
  let mut a := a.bump "hdr"
  if expectOk then a := a.bump "hdr_valid"
  if expectOk && st != 0 then
    a := a.fail ln l "header" s!"valid header cmf={cmf} flg={flg} ring={ring} rejected (status {st})"
  if !expectOk && st == 0 then
    a := a.fail ln l "header" s!"invalid header cmf={cmf} flg={flg} ring={ring} accepted"
  if !expectOk && st != -1 then
    a := a.fail ln l "header" s!"invalid header cmf={cmf} flg={flg} ring={ring}: status {st}, expected Failed"
  return a

/-- `CK`: a checksum value reported by the implementation against the L0 definition. -/
def opCk (a : Acc) (ln : Nat) (l : Line) : Acc := Id.run do
  let data := l.bytes "data"
  let init := l.nat "init"
  let got := l.nat "got"
  let kind := l.get "kind"
  let want := if kind == "crc" then crc32 init data.toList else adler32 init data.toList
  let mut a := a.bump ("ck_" ++ kind)
  if want != got then
    a := a.fail ln l "checksum" s!"{kind} of {data.size} bytes from {init} ({l.get "what"}): implementation {got}, definition {want}"
  return a

def isPrefixOf (a b : Array UInt8) : Bool := a.size ≤ b.size && firstDiff a b == a.size

/-- `DEC`: what one decoder entry point reported for `data`, against the reference decoder. -/
def opDec (a : Acc) (ln : Nat) (l : Line) : Acc := Id.run do
  let zlib := l.nat "fmt" == 1
  let maxdist := l.nat "maxdist"
  let ep := l.get "ep"
  let st := l.int "st"
  let consumed := l.int "consumed"
  let more := l.nat "more" == 1
  let pov := l.nat "pov" == 1
  let out := l.bytes "out"
  let dataHex := l.get "data"
  let preHex := l.get "pre"
  let key := s!"{l.get "fmt"}|{maxdist}|{preHex.length}|{dataHex}"
  let mut a := a
  let (verdict, sout, sbytes, cmf) ← (do
    match a.cacheDec with
    | some c => if a.cacheKey == key then return c else pure ()
    | none => pure ()
    let data := hexToBytes dataHex
    let d := specDecode zlib (hexToBytes preHex) maxdist data
    let cmf := if data.size > 0 then data[0]!.toNat else 0
    return (d.verdict, d.out, d.bytes, cmf))
  a := { a with cacheKey := key, cacheDec := some (verdict, sout, sbytes, cmf) }
  let epk := if ep.startsWith "flat" then "flat" else if ep.startsWith "ring" then "ring" else if ep.startsWith "inflate" then "inflate" else ep
  let vk := if verdict.startsWith "reject" then "reject" else verdict
  a := a.bump s!"dec_{epk}_{vk}"
  if verdict == "fuel" then return a.fail ln l "driver" "reference decoder ran out of fuel"
  -- a ring buffer smaller than the declared zlib window is refused by design (C09)
  if zlib && epk == "ring" && maxdist < 2 ^ (cmf / 16 + 8) && verdict != "truncated" then
    if st == 0 then a := a.fail ln l "window" "ring smaller than the declared window was accepted"
    return a.bump "dec_ring_window_refused"
  if pov && verdict != "truncated" then a := a.bump "pov_not_truncated"
  if verdict == "accept" then
    if st == 2 && isPrefixOf out sout && out.size < sout.size then
      return a.bump "dec_overflow_skipped"
    if st != 0 then
      a := a.fail ln l "valid" s!"ep={ep}: valid stream ({sout.size} bytes of plaintext) reported status {st}"
    else
      if !sameBytes out sout then
        a := a.fail ln l "valid" s!"ep={ep}: output differs from the specification at byte {firstDiff out sout} (sizes {out.size} vs {sout.size})"
      if consumed ≥ 0 && consumed != sbytes then
        a := a.fail ln l "consumed" s!"ep={ep}: consumed {consumed} bytes, the stream is exactly {sbytes} bytes long (trailing {l.get "trail"})"
  else if verdict.startsWith "reject" then
    if st == 0 then
      a := a.fail ln l "sound" s!"ep={ep}: completion reported on an invalid stream ({verdict})"
    else if verdict == "reject:adlerMismatch" && st != -2 && epk != "inflate" && epk != "iter" && st != 2 then
      a := a.fail ln l "sound" s!"ep={ep}: wrong trailer reported as status {st}, expected Adler32Mismatch"
    else if st == 1 then
      a := a.fail ln l "sound" s!"ep={ep}: invalid stream ({verdict}) reported as needs-more-input"
  else
    -- truncated: input ended before the stream did
    if st == 0 then
      a := a.fail ln l "sound" s!"ep={ep}: completion reported on a truncated stream"
    else if st == -1 || st == -2 then
      a := a.fail ln l "prefix" s!"ep={ep}: a stream that merely ends early was rejected as corrupt (status {st}, prefix-of-valid={pov})"
    else if (epk == "flat" || epk == "ring") && st == 1 && !more then
      a := a.fail ln l "prefix" s!"ep={ep}: needs-more-input without more input announced"
    else if (epk == "flat" || epk == "ring") && st == -4 && more then
      a := a.fail ln l "prefix" s!"ep={ep}: cannot-make-progress although more input was announced"
    -- (the vector function returns its whole zero-padded buffer on error, and the iterator helper
    --  returns no bytes: no prefix comparison for those two)
    if epk != "vec" && epk != "iter" && !isPrefixOf out sout then
      a := a.fail ln l "prefix" s!"ep={ep}: bytes delivered before the input ended are not a prefix of the specified output (first difference {firstDiff out sout})"
  return a

/-- `BB`: bit positions at which the decoder stopped with TINFL_FLAG_STOP_ON_BLOCK_BOUNDARY must be
    exactly the ends of the non-final blocks of the reference decoder's trace, once each. -/
def opBb (a : Acc) (ln : Nat) (l : Line) : Acc := Id.run do
  let zlib := l.nat "fmt" == 1
  let data := l.bytes "data"
  let bits := l.nats "bits"
  let d := specDecode zlib #[] 32768 data
  let mut a := a.bump "bb"
  if d.verdict != "accept" then return a.bump "bb_not_accepted"
  let want := (d.blocks.toList.filter (fun b => !b.final)).map (·.bitEnd)
  a := a.bump "bb_boundaries" want.length
  if want != bits then
    a := a.fail ln l "boundary" s!"stops at bit positions {bits}, non-final blocks end at {want}"
  return a

/-- `DFL`: one real `deflate()` call with the inner `compress` calls it made (hook events),
    replayed through the model `Model.Defl.deflate`: result, counts, number of inner calls and the
    (in_len, out_len) passed to each must agree. -/
def opDfl (a : Acc) (ln : Nat) (l : Line) : Acc := Id.run do
  let parseTriples (s : String) : List (List Int) :=
    if s == "-" || s == "" then [] else (s.splitOn ";").map (fun t => (t.splitOn ":").map (·.toInt?.getD 0))
  let script := (parseTriples (l.get "script")).map (fun t => ({ st := t.getD 0 0, cin := (t.getD 1 0).toNat, cout := (t.getD 2 0).toNat } : Model.Defl.Resp))
  let args := (parseTriples (l.get "args")).map (fun t => ((t.getD 0 0).toNat, (t.getD 1 0).toNat))
  let res := (parseTriples (l.get "res")).getD 0 []
  let mut a := a.bump "dfl_calls"
  a := a.bump "dfl_inner_calls" script.length
  match Model.Defl.deflate (l.nat "prevdone" == 1) (l.nat "in") (l.nat "out") (l.nat "flush") script with
  | .ok r calls =>
    if r.status != res.getD 0 0 || (r.consumed : Int) != res.getD 1 0 || (r.written : Int) != res.getD 2 0 then
      a := a.diff ln l "result" s!"model ({r.status}, {r.consumed}, {r.written}) vs implementation {res}"
    if calls != args then
      a := a.diff ln l "inner_calls" s!"model calls the engine with {calls}, implementation with {args}"
  | .stuck calls => a := a.diff ln l "inner_calls" s!"model wants another engine call after {calls.length - 1}; implementation made {args.length}"
  | .contract => a := a.diff ln l "contract" "engine reported more than it was offered"
  return a

/-- `IFL`: one real `inflate()` call with the inner `decompress` calls it made (hook), replayed
    through `Model.Infl.inflate`: result, counts, new wrapper state and the arguments of every
    inner call (input length, out_pos, buffer length, flags) must agree. -/
def opIfl (a : Acc) (ln : Nat) (l : Line) : Acc := Id.run do
  let parseTuples (s : String) : List (List Int) :=
    if s == "-" || s == "" then [] else (s.splitOn ";").map (fun t => (t.splitOn ":").map (·.toInt?.getD 0))
  let mkSt (v : List Int) (fmt : Nat) : Model.Infl.St :=
    { dictOfs := (v.getD 0 0).toNat, dictAvail := (v.getD 1 0).toNat, firstCall := v.getD 2 0 != 0,
      hasFlushed := v.getD 3 0 != 0, lastStatus := v.getD 4 0, fmt := fmt }
  let fmt := l.nat "fmt"
  let pre := mkSt (l.ints "pre") fmt
  let post := mkSt (l.ints "post") fmt
  let script := (parseTuples (l.get "script")).map (fun t => ({ st := t.getD 0 0, ib := (t.getD 1 0).toNat, ob := (t.getD 2 0).toNat } : Model.Infl.Resp))
  let args : List Model.Infl.Call := (parseTuples (l.get "args")).map (fun t => ((t.getD 0 0).toNat, (t.getD 1 0).toNat, (t.getD 2 0).toNat, (t.getD 3 0).toNat))
  let res := (parseTuples (l.get "res")).getD 0 []
  let mut a := a.bump "ifl_calls"
  a := a.bump "ifl_inner_calls" script.length
  match Model.Infl.inflate pre (l.nat "in") (l.nat "out") (l.nat "flush") script with
  | .ok s r calls =>
    if r.status != res.getD 0 0 || (r.consumed : Int) != res.getD 1 0 || (r.written : Int) != res.getD 2 0 then
      a := a.diff ln l "result" s!"model ({r.status}, {r.consumed}, {r.written}) vs implementation {res}"
    if s != post then
      a := a.diff ln l "state" s!"model state (ofs {s.dictOfs}, avail {s.dictAvail}, first {s.firstCall}, flushed {s.hasFlushed}, last {s.lastStatus}) vs implementation {l.get "post"}"
    if calls != args then
      a := a.diff ln l "inner_calls" s!"model calls the decoder with {calls}, implementation with {args}"
  | .stuck calls => a := a.diff ln l "inner_calls" s!"model wants another decoder call after {calls.length - 1}; implementation made {args.length}"
  | .contract => a := a.diff ln l "contract" "decoder reported more than it was offered"
  return a

def ringFill (size seed : Nat) : Array UInt8 :=
  Array.ofFn (n := size) fun i => UInt8.ofNat ((i.val % 256) * 31 + seed)

/-- `STG`: the `compress` calls of one schedule (buffer sink) with the `flush_block` events the
    hooks recorded inside each, replayed through the staging model `Model.DeflOut.compressInner`:
    per call the status, the bytes written, the number of engine blocks flushed, whether the
    epilogue block ran, and after each block whether it went through `local_buf` and how many bytes
    it left pending must agree. Block contents are irrelevant to staging: zeros of the recorded sizes. -/
def opStg (a : Acc) (ln : Nat) (l : Line) : Acc := Id.run do
  let calls := (l.get "calls").splitOn ";"
  let mut a := a
  let mut s : Model.DeflOut.Stage := {}
  let mut idx := 0
  for cs in calls do
    let f := cs.splitOn ":"
    if f.length < 5 then continue
    let outLen := (f.getD 0 "").toNat?.getD 0
    let flush := (f.getD 1 "").toNat?.getD 0
    let st := (f.getD 2 "").toInt?.getD 0
    let cout := (f.getD 3 "").toNat?.getD 0
    let bl := f.getD 4 "-"
    let evs : List (List Int) := if bl == "-" then [] else (bl.splitOn ",").map (fun t => (t.splitOn ".").map (·.toInt?.getD 0))
    let body := evs.filter (fun e => e.getD 3 0 == 0)
    let epi := evs.filter (fun e => e.getD 3 0 != 0)
    let eng : Model.DeflOut.EngineCall :=
      { blocks := body.map (fun e => List.replicate (e.getD 0 0).toNat 0),
        drained := !epi.isEmpty,
        finalBlk := List.replicate ((epi.getD 0 []).getD 0 0).toNat 0 }
    let r := Model.DeflOut.compressInner s outLen flush eng
    a := a.bump "stg_calls"
    if r.status != st then
      a := a.diff ln l "stg_status" s!"call {idx}: staging model status {r.status}, implementation {st}"
      break
    if r.delivered.length != cout then
      a := a.diff ln l "stg_written" s!"call {idx}: staging model writes {r.delivered.length} bytes, implementation {cout}"
      break
    if r.status != Model.DeflOut.stBadParam then
      if r.flushed != body.length then
        a := a.diff ln l "stg_blocks" s!"call {idx}: staging model lets the engine flush {r.flushed} blocks, implementation flushed {body.length}"
        break
      if r.epilogue != !epi.isEmpty || epi.length > 1 then
        a := a.diff ln l "stg_epilogue" s!"call {idx}: staging model epilogue block {r.epilogue}, implementation {epi.length} epilogue flush_block events (pending before: {s.pending.length})"
        break
      -- bytes left pending after the last block of the call, as flush_block reported it
      match evs.getLast? with
      | some e =>
        -- flush_output's return value is flush_remaining right after the block was staged
        let pendingAfterBlocks :=
          if r.epilogue then
            let d1 := (Model.DeflOut.stageBlocks outLen 0 eng.blocks)
            (Model.DeflOut.flushOne outLen d1.1.length eng.finalBlk).2.length
          else (Model.DeflOut.stageBlocks outLen 0 eng.blocks).2.1.length
        if (pendingAfterBlocks : Int) != e.getD 2 0 then
          a := a.diff ln l "stg_pending" s!"call {idx}: staging model leaves {pendingAfterBlocks} bytes pending after the last block, implementation {e.getD 2 0}"
          break
      | none => pure ()
    s := r.stage
    idx := idx + 1
  return a

/-- `VECI` / `VECD`: one real `decompress_to_vec*` / `compress_to_vec*` call with the inner calls the
    hook recorded (`calls` = `inLeft:bufLen:outPos:status:consumed:written;…`), replayed through
    `Model.Vec.decompressToVec` / `compressToVec`: the arguments of every inner call, their number and
    the final result (Ok length / error status and partial length) must agree. -/
def opVec (a : Acc) (ln : Nat) (l : Line) (infl : Bool) : Acc := Id.run do
  let evs : List (List Int) := if l.get "calls" == "-" || l.get "calls" == "" then []
    else ((l.get "calls").splitOn ";").map (fun t => (t.splitOn ":").map (·.toInt?.getD 0))
  let script : List Model.Vec.Resp := evs.map (fun e => { st := e.getD 3 0, cin := (e.getD 4 0).toNat, cout := (e.getD 5 0).toNat })
  let args : List Model.Vec.Call := evs.map (fun e => ((e.getD 0 0).toNat, (e.getD 1 0).toNat, (e.getD 2 0).toNat))
  let mut a := a.bump (if infl then "veci" else "vecd")
  a := a.bump "vec_inner_calls" script.length
  if infl then
    match Model.Vec.decompressToVec (l.nat "in") (l.nat "limit") script with
    | .ok len calls =>
      if calls != args then a := a.diff ln l "vec_calls" s!"model calls {calls}, implementation {args}"
      if l.int "ok" != 1 || l.nat "len" != len then
        a := a.diff ln l "vec_result" s!"model Ok({len}), implementation ok={l.int "ok"} len={l.nat "len"} st={l.int "st"}"
    | .err st len calls =>
      if calls != args then a := a.diff ln l "vec_calls" s!"model calls {calls}, implementation {args}"
      if l.int "ok" != 0 || l.int "st" != st || l.nat "len" != len then
        a := a.diff ln l "vec_result" s!"model Err({st}, partial {len}), implementation ok={l.int "ok"} st={l.int "st"} len={l.nat "len"}"
    | .stuck calls => a := a.diff ln l "vec_calls" s!"model wants another inner call after {calls.length - 1}; implementation made {args.length}"
  else
    match Model.Vec.compressToVec (l.nat "in") script with
    | .ok len calls =>
      if calls != args then a := a.diff ln l "vec_calls" s!"model calls {calls}, implementation {args}"
      if l.nat "len" != len then a := a.diff ln l "vec_result" s!"model vec of {len} bytes, implementation {l.nat "len"}"
    | .panic _ => a := a.diff ln l "vec_result" "model reaches the panic arm, implementation returned"
    | .stuck calls => a := a.diff ln l "vec_calls" s!"model wants another inner call after {calls.length - 1}; implementation made {args.length}"
  return a

/-- `CCALL`: one real `mz_deflate` / `mz_inflate` call — the `mz_stream` fields before and after,
    the return code, and the result of the same call on the Rust API — replayed through
    `Model.CStream.streamCall`: return code and all six fields must agree. -/
def opCcall (a : Acc) (ln : Nat) (l : Line) : Acc := Id.run do
  let s : Model.CStream.CStream :=
    { nextIn := l.nat "ni", availIn := l.nat "ai", totalIn := l.nat "ti", nextOut := l.nat "no", availOut := l.nat "ao",
      totalOut := l.nat "to", inNull := l.nat "inull" == 1, outNull := l.nat "onull" == 1, kindOk := l.nat "kind" == 1,
      hasState := l.nat "state" == 1 }
  let inner : Model.CStream.Inner := { status := l.int "rst", consumed := l.nat "rcons", written := l.nat "rwr" }
  let (s', rc) := Model.CStream.streamCall s (l.int "flush") inner
  let mut a := a.bump "ccall"
  a := a.bump (if rc < 0 && rc != -5 then "ccall_error_paths" else "ccall_ok_paths")
  if rc != l.int "rc" then a := a.diff ln l "c_status" s!"model returns {rc}, implementation {l.int "rc"}"
  let got := [l.nat "ni2", l.nat "ai2", l.nat "ti2", l.nat "no2", l.nat "ao2", l.nat "to2"]
  let want := [s'.nextIn, s'.availIn, s'.totalIn, s'.nextOut, s'.availOut, s'.totalOut]
  if got != want then a := a.diff ln l "c_accounting" s!"model fields after the call {want}, implementation {got}"
  return a

/-- `INEW`: a fresh decoder object and its output buffer (filled with the harness's known pattern). -/
def opInew (a : Acc) (l : Line) : Acc :=
  let id := l.nat "id"
  let buf := ringFill (l.nat "outlen") (l.nat "fill")
  { a with decs := (id, ({} : Model.Core.Regs), buf, #[], 0) :: (a.decs.filter (·.1 != id)).take 4 }

/-- `ICALL`: one real `decompress_with_limit` call replayed through the decoder model
    (`Model.Core.decompress`) on the model's own copy of the output buffer and with the model's own
    input cursor: the model is offered the stream up to the same END as the implementation. Status,
    bytes written, the written bytes and the running checksum must agree on every call; the
    cumulative input position must agree exactly whenever no stored-block byte is parked in a
    register (the slow-path model never parks one; the implementation may hold one byte it has
    already taken from its read-ahead bit buffer, so the positions may differ by one at a
    has-more-output exit inside a stored block, and must be equal again at every other exit). -/
def opIcall (a : Acc) (ln : Nat) (l : Line) : Acc := Id.run do
  let id := l.nat "id"
  match a.decs.find? (·.1 == id) with
  | none => return a.diff ln l "decoder" "unknown decoder id"
  | some (_, regs, buf, zbuf, mpos) =>
    let chunk := l.bytes "in"
    let ipos := l.nat "ipos"
    -- drop the list's reference first so that the model updates the buffer in place
    let a := { a with decs := a.decs.filter (·.1 != id) }
    -- the stream as far as the implementation has been offered it
    let zbuf := (zbuf.extract 0 ipos) ++ chunk
    let inp := zbuf.extract mpos zbuf.size
    let res := Model.Core.decompress regs inp buf (l.nat "pos") (l.nat "budget") (l.nat "flags")
    let mpos' := mpos + res.consumed
    let mut a := { a with decs := (id, res.r, res.out, zbuf, mpos') :: a.decs }
    a := a.bump "icall"
    a := a.bump s!"icall_status_{res.status}"
    let st := l.int "st"
    let w := l.nat "w"
    let ipos' := ipos + l.nat "c"
    if res.status != st then
      a := a.diff ln l "status" s!"model status {res.status} (state {res.r.state}, position {mpos'}, written {res.written}) vs implementation {st} (position {ipos'}, written {w})"
    else
      if res.written != w then a := a.diff ln l "written" s!"model wrote {res.written}, implementation {w} (status {st})"
      else
        let wr := l.bytes "wr"
        let mine := res.out.extract (l.nat "pos") (l.nat "pos" + w)
        if !sameBytes mine wr then a := a.diff ln l "bytes" s!"written bytes differ at offset {firstDiff mine wr} of {w}"
      if st ≥ 0 then
        if mpos' != ipos' then
          if st == 2 && mpos' + 1 == ipos' then a := a.bump "icall_parked_byte"
          else a := a.diff ln l "consumed" s!"model input position {mpos'}, implementation {ipos'} (status {st})"
      if l.has "adler" && st ≥ 0 && res.r.checkAdler32 != l.nat "adler" then
        a := a.diff ln l "adler" s!"model checksum {res.r.checkAdler32}, implementation {l.nat "adler"}"
    return a


/-- `IFBNEW`: a fresh `InflateState` (raw: flags ignore-adler + more-input; zlib: parse + compute + more-input). -/
def opIfbNew (a : Acc) (l : Line) : Acc :=
  let id := l.nat "id"
  let flags := if l.nat "zlib" == 1 then 1 + 8 + 2 else 64 + 2
  { a with ifbs := (id, flags, Model.InflB.WB.fresh, #[], 0, 0, #[], #[], false) :: (a.ifbs.filter (·.1 != id)).take 4 }

/-- one is a prefix of the other and they differ in length by at most `k` -/
def prefixWithin (x y : Array UInt8) (k : Nat) : Bool :=
  let n := min x.size y.size
  firstDiff x y == n && x.size ≤ n + k && y.size ≤ n + k

/-- `IFB`: one real `inflate()` call that does not ask to finish, replayed through the byte-level
    wrapper model (`Model.InflB.inflateNone` over `Model.Core.decompress`): the model is offered what
    it has itself left unconsumed followed by the new chunk. Status, bytes handed over and input
    consumed must agree EXACTLY on every call, with one exception, the parked byte of `ICALL`: when
    the implementation's last inner `decompress` call of this `inflate()` call ended has-more-output
    (`last=2`: the window was filled to its end), it may have taken one stored-block byte more from
    its bit buffer than the slow-path model; the two cursors may then differ by one and, if the
    caller's input ended exactly there, the hand-over runs one byte apart until a later call has
    room. From such a call until the two are level again, what has been delivered must stay a
    prefix of one another within one byte, the cursors within one byte, and the totals must be equal
    when both report stream end. Every such call is counted (`ifb_skew`). -/
def opIfb (a : Acc) (ln : Nat) (l : Line) : Acc := Id.run do
  let id := l.nat "id"
  match a.ifbs.find? (·.1 == id) with
  | none => return a.diff ln l "session" "unknown session id"
  | some (_, flags, w, zbuf, mpos, ipos, mdel, idel, skew) =>
    let a := { a with ifbs := a.ifbs.filter (·.1 != id) }
    let zbuf := zbuf ++ l.bytes "in"
    let inp := zbuf.extract mpos zbuf.size
    let (w', res) := Model.InflB.inflateNone flags w inp (l.nat "room")
    let out := l.bytes "out"
    let st := l.int "st"
    let mpos' := mpos + res.consumed
    let ipos' := ipos + l.nat "c"
    let mdel := mdel ++ res.out
    let idel := idel ++ out
    let exact := sameBytes res.out out && res.status == st && mpos' == ipos' && !skew
    let mut a := a.bump "ifb"
    a := a.bump s!"ifb_status_{res.status}"
    let mut skew' := false
    if exact then a := a.bump "ifb_exact"
    else
      let mayPark := skew || l.get "last" == "2"
      let posOk := mpos' == ipos' || mpos' + 1 == ipos'
      let outOk := prefixWithin mdel idel 1
      let level := mdel.size == idel.size && mpos' == ipos'
      let stOk := res.status == st || !level
      if mayPark && posOk && outOk && stOk then
        a := a.bump "ifb_skew"
        skew' := !level
      else
        if res.status != st then a := a.diff ln l "status" s!"model status {res.status} vs implementation {st} (model consumed {res.consumed} out {res.out.size}; implementation consumed {l.nat "c"} out {out.size})"
        else if !sameBytes res.out out then a := a.diff ln l "bytes" s!"handed-over bytes differ: model {res.out.size} bytes, implementation {out.size}, first difference at {firstDiff res.out out}"
        else a := a.diff ln l "consumed" s!"model input position {mpos'}, implementation {ipos'}"
    return { a with ifbs := (id, flags, w', zbuf, mpos', ipos', mdel, idel, skew') :: a.ifbs }

/-- `IFF`: `inflate(fresh state, input, output, Finish)` — the first-call shortcut — replayed through
    `Model.InflB.inflateFinishFirst`: status, input consumed, bytes written. -/
def opIff (a : Acc) (ln : Nat) (l : Line) : Acc := Id.run do
  let fmt := if l.nat "zlib" == 1 then 1 + 8 else 64
  let (res, _) := Model.InflB.inflateFinishFirst fmt (l.bytes "in") (Array.replicate (l.nat "room") 0)
  let mut a := a.bump "iff"
  a := a.bump s!"iff_status_{res.status}"
  let st := l.int "st"
  if res.status != st then a := a.diff ln l "status" s!"model status {res.status} vs implementation {st}"
  else
    if res.status ≥ 0 && res.consumed != l.nat "c" then a := a.diff ln l "consumed" s!"model consumed {res.consumed}, implementation {l.nat "c"}"
    if !sameBytes res.out (l.bytes "out") then a := a.diff ln l "bytes" s!"model wrote {res.out.size} bytes, implementation {(l.bytes "out").size}, first difference at {firstDiff res.out (l.bytes "out")}"
  return a

/-- `HLIM in=<num_codes before> len=<code_list_len> max=<limit> out=<num_codes after> src=trace|gen`:
    `enforce_max_code_size` against `Model.HuffLimit.enforce`; for calls the real `optimize_table` made
    (`src=trace`) the hypotheses of `C10.length_limiting_restores_a_complete_code` are checked too
    (what `calculate_minimum_redundancy` hands over: the histogram of a prefix code). -/
def opHlim (a : Acc) (ln : Nat) (l : Line) : Acc := Id.run do
  let n := l.ints "in"
  let len := l.nat "len"
  let max := l.nat "max"
  let want := l.ints "out"
  let got := Model.HuffLimit.enforce n len max
  let mut a := a.bump "hlim"
  if got != want then
    a := a.diff ln l "histogram" s!"model {got} vs implementation {want}"
  let lv := n.drop 1
  let nonneg := n.all (0 ≤ ·)
  let k := Model.HuffLimit.kraft lv
  let full : Int := 2 ^ lv.length
  let pre := nonneg && k ≤ full && lv.sum == (len : Int) && (len : Int) ≤ 2 ^ max && 1 ≤ max && max + 1 ≤ n.length
  if pre then a := a.bump "hlim_pre_ok"
  if pre && k == full then a := a.bump "hlim_complete_in"
  if pre && (n.drop (max + 1)).any (· != 0) then a := a.bump "hlim_over_limit_in"
  if pre && Model.HuffLimit.kraft ((n.take (max + 1)).drop 1) + (n.drop (max + 1)).sum > 2 ^ max then a := a.bump "hlim_loop_runs"
  if l.get "src" == "trace" then
    a := a.bump "hlim_trace"
    if len ≥ 2 && !pre then
      a := a.fail ln l "hlim_pre" s!"optimize_table handed enforce_max_code_size a histogram outside the theorem's hypotheses (nonneg {nonneg}, kraft {k} of {full}, sum {lv.sum}, len {len}, max {max})"
    if len ≥ 2 && pre && k != full then a := a.bump "hlim_trace_incomplete_in"
  return a

def dispatch (a : Acc) (ln : Nat) (l : Line) : Acc :=
  match l.op with
  | "ENC" => opEnc a ln l
  | "PFX" => opPfx a ln l
  | "TAIL" => opTail a ln l
  | "HDR" => opHdr a ln l
  | "CK" => opCk a ln l
  | "DEC" => opDec a ln l
  | "BB" => opBb a ln l
  | "DFL" => opDfl a ln l
  | "IFL" => opIfl a ln l
  | "STG" => opStg a ln l
  | "VECI" => opVec a ln l true
  | "VECD" => opVec a ln l false
  | "CCALL" => opCcall a ln l
  | "INEW" => opInew a l
  | "ICALL" => opIcall a ln l
  | "IFBNEW" => opIfbNew a l
  | "IFB" => opIfb a ln l
  | "IFF" => opIff a ln l
  | "HLIM" => opHlim a ln l
  | "" => a
  | "#" => a
  | _ => a.bump ("unknown_op_" ++ l.op)

end Driver
