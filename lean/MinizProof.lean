-- This module serves as the root of the `MinizProof` library.
-- Import modules here that should be built as part of the library.
import MinizProof.Basic
