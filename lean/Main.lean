import MinizProof.Driver.Ops
open Driver

partial def loop (h : IO.FS.Stream) (a : Acc) (ln : Nat) : IO Acc := do
  let line ← h.getLine
  if line.isEmpty then return a
  let l := parseLine line
  let a := dispatch { a with lines := a.lines + 1 } ln l
  loop h a (ln + 1)

def main (args : List String) : IO UInt32 := do
  match args with
  | ["check", path] =>
    let h ← IO.FS.Handle.mk path .read
    let a ← loop (IO.FS.Stream.ofHandle h) {} 1
    for m in a.msgs do IO.println m
    for (k, v) in a.stats do IO.println s!"STAT {k}={v}"
    IO.println s!"SUMMARY lines={a.lines} oracle_fail={a.oracle} diff={a.diffs}"
    return 0
  | _ =>
    IO.eprintln "usage: mzdriver check <transcript>"
    return 2
