//! Compile-time probe for C20: the public state types are Send + Sync + Clone + 'static.
#![no_std]
fn assert_traits<T: Send + Sync + Clone + 'static>() {}

pub fn probe() {
    assert_traits::<miniz_oxide::inflate::core::DecompressorOxide>();
    assert_traits::<miniz_oxide::inflate::stream::InflateState>();
    #[cfg(feature = "block-boundary")]
    assert_traits::<miniz_oxide::inflate::core::BlockBoundaryState>();
    #[cfg(feature = "with-alloc")]
    assert_traits::<miniz_oxide::deflate::core::CompressorOxide>();
    assert_traits::<miniz_oxide::inflate::TINFLStatus>();
    assert_traits::<miniz_oxide::DataFormat>();
}
