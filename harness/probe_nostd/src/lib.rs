//! A freestanding consumer of the decompression-only configuration: `#![no_std]` with its own panic
//! handler. If miniz_oxide (built without default features) links the standard library, std's panic
//! handler collides with this one and the crate does not compile.
#![no_std]
use core::panic::PanicInfo;
use miniz_oxide::inflate::core::{decompress, inflate_flags, DecompressorOxide};
use miniz_oxide::inflate::TINFLStatus;

#[panic_handler]
fn on_panic(_: &PanicInfo) -> ! { loop {} }

pub fn inflate_into(r: &mut DecompressorOxide, input: &[u8], out: &mut [u8]) -> Option<usize> {
    match decompress(r, input, out, 0, inflate_flags::TINFL_FLAG_USING_NON_WRAPPING_OUTPUT_BUF) {
        (TINFLStatus::Done, _, n) => Some(n),
        _ => None,
    }
}
