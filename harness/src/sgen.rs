//! G-stream / G-mut: grammar-based generator of valid DEFLATE/zlib streams and mutators.
//! Own code: shares nothing with the crate under test. Expected plaintexts used as oracles always
//! come from the Lean Spec decoder; `plain` here is only the generator's own bookkeeping.
use crate::rng::Rng;

pub struct BitWriter { pub bytes: Vec<u8>, acc: u64, n: u32 }
impl BitWriter {
    pub fn new() -> Self { BitWriter { bytes: vec![], acc: 0, n: 0 } }
    pub fn put(&mut self, v: u32, nbits: u32) {
        if nbits == 0 { return; }
        self.acc |= ((v as u64) & ((1u64 << nbits) - 1)) << self.n;
        self.n += nbits;
        while self.n >= 8 { self.bytes.push(self.acc as u8); self.acc >>= 8; self.n -= 8; }
    }
    /// Huffman codes are packed starting from the most significant bit of the code.
    pub fn put_code(&mut self, code: u32, len: u32) {
        let mut r = 0u32;
        for i in 0..len { if code & (1 << i) != 0 { r |= 1 << (len - 1 - i); } }
        self.put(r, len);
    }
    pub fn align(&mut self) { if self.n > 0 { let k = 8 - self.n; self.put(0, k); } }
    pub fn bitpos(&self) -> usize { self.bytes.len() * 8 + self.n as usize }
    pub fn finish(mut self) -> Vec<u8> { self.align(); self.bytes }
}

#[derive(Clone, Debug)]
pub enum Tok { Lit(u8), Copy { len: usize, dist: usize } }

pub fn canonical_codes(lens: &[u8]) -> Vec<u32> {
    let mut bl_count = [0u32; 16];
    for &l in lens { bl_count[l as usize] += 1; }
    bl_count[0] = 0;
    let mut next = [0u32; 16];
    let mut code = 0u32;
    for b in 1..16 { code = (code + bl_count[b - 1]) << 1; next[b] = code; }
    lens.iter().map(|&l| if l == 0 { 0 } else { let c = next[l as usize]; next[l as usize] += 1; c }).collect()
}

pub fn len_sym(len: usize) -> (usize, u32, u32) {
    // search the RFC formula
    for c in 0..29usize {
        let (base, e) = if c < 8 { (3 + c, 0) } else if c == 28 { (258, 0) } else { let e = c / 4 - 1; (3 + ((4 + c % 4) << e), e) };
        let hi = if c == 28 { 258 } else { base + (1 << e) - 1 };
        if len >= base && len <= hi && !(c == 27 && len == 258) { return (257 + c, e as u32, (len - base) as u32); }
    }
    unreachable!("len {}", len)
}
pub fn dist_sym(dist: usize) -> (usize, u32, u32) {
    for d in 0..30usize {
        let (base, e) = if d < 4 { (d + 1, 0) } else { let e = d / 2 - 1; (1 + ((2 + d % 2) << e), e) };
        if dist >= base && dist < base + (1 << e) { return (d, e as u32, (dist - base) as u32); }
    }
    unreachable!("dist {}", dist)
}

pub fn fixed_lit_lens() -> Vec<u8> { (0..288).map(|i| if i < 144 { 8 } else if i < 256 { 9 } else if i < 280 { 7 } else { 8 }).collect() }

/// A complete code for `n >= 140` symbols in which all but three have 10..15-bit codes:
/// depths 1, 2, 3 for three symbols and the remaining eighth of the code space split into
/// `n - 3` leaves between depth 10 and 15, shuffled.
pub fn heavy_depths(rng: &mut Rng, n: usize) -> Vec<u8> {
    let mut leaves: Vec<u8> = vec![10; 128];
    while leaves.len() < n - 3 {
        let elig: Vec<usize> = (0..leaves.len()).filter(|&i| leaves[i] < 15).collect();
        let idx = elig[rng.below(elig.len())];
        let d = leaves[idx] + 1;
        leaves[idx] = d; leaves.push(d);
    }
    leaves.extend_from_slice(&[1, 2, 3]);
    for i in (1..leaves.len()).rev() { let j = rng.below(i + 1); leaves.swap(i, j); }
    leaves
}

/// Random complete prefix code with `n >= 2` leaves, depths <= maxdepth.
pub fn random_depths(rng: &mut Rng, n: usize, maxdepth: u8, deep: bool) -> Vec<u8> {
    let mut leaves: Vec<u8> = vec![0];
    while leaves.len() < n {
        let elig: Vec<usize> = (0..leaves.len()).filter(|&i| leaves[i] < maxdepth).collect();
        let idx = if deep && rng.chance(7, 10) {
            *elig.iter().max_by_key(|&&i| leaves[i]).unwrap()
        } else { elig[rng.below(elig.len())] };
        let d = leaves[idx] + 1;
        leaves[idx] = d; leaves.push(d);
    }
    // shuffle
    for i in (1..leaves.len()).rev() { let j = rng.below(i + 1); leaves.swap(i, j); }
    leaves
}

pub fn adler32(data: &[u8]) -> u32 {
    let (mut a, mut b) = (1u32, 0u32);
    for &x in data { a = (a + x as u32) % 65521; b = (b + a) % 65521; }
    (b << 16) | a
}

#[derive(Clone, Default)]
pub struct GenStream {
    pub bytes: Vec<u8>,
    pub plain: Vec<u8>,
    pub bits: usize,        // bit length of the deflate body (incl. header offset for zlib)
    pub features: Vec<String>,
    pub zlib: bool,
}

pub struct GenCfg {
    pub max_tokens: usize,
    pub max_blocks: usize,
    pub zlib: bool,
    /// bytes assumed to precede the output (ring buffer contents); matches may reach into it
    pub pre_len: usize,
    pub big: bool,
    /// dynamic blocks assign a code to every literal/length symbol, almost all of them longer than
    /// 10 bits (the decoder's overflow tree is then used far beyond its first `table_size` entries),
    /// in a different arrangement per block
    pub heavy: bool,
}

fn gen_tokens(rng: &mut Rng, cfg: &GenCfg, plain: &mut Vec<u8>, feats: &mut Vec<String>, n: usize) -> Vec<Tok> {
    let mut toks = vec![];
    let alpha_small = rng.chance(1, 2);
    let match_p = rng.range(0, 6);
    for _ in 0..n {
        let avail = plain.len() + cfg.pre_len;
        if avail > 0 && rng.below(10) < match_p {
            let len = match rng.below(8) { 0 => 3, 1 => 4, 2 => 258, 3 => 257, 4 => rng.range(3, 18), 5 => rng.range(19, 258), 6 => rng.range(3, 258), _ => rng.range(3, 10) };
            let maxd = avail.min(32768);
            let dist = match rng.below(9) {
                0 => 1, 1 => 2.min(maxd), 2 => maxd, 3 => (len - 1).clamp(1, maxd), 4 => len.min(maxd),
                5 => plain.len().clamp(1, maxd), 6 => rng.range(1, maxd.min(300)), 7 => 32768.min(maxd), _ => rng.range(1, maxd),
            };
            if len == 258 { feats.push("len258".into()); }
            if dist == 32768 { feats.push("dist32768".into()); }
            if dist < len { feats.push("overlap".into()); }
            if dist == plain.len() && dist > 0 { feats.push("dist_eq_produced".into()); }
            if dist > plain.len() { feats.push("dist_into_pre".into()); }
            for _ in 0..len {
                let b = if dist <= plain.len() { plain[plain.len() - dist] } else { 0 /* pre bytes unknown here */ };
                plain.push(b);
            }
            toks.push(Tok::Copy { len, dist });
        } else {
            let b = if alpha_small { b"etaoin shr"[rng.below(10)] } else { rng.byte() };
            plain.push(b);
            toks.push(Tok::Lit(b));
        }
    }
    toks
}

pub fn write_tokens(w: &mut BitWriter, toks: &[Tok], ll: &[u8], lc: &[u32], dl: &[u8], dc: &[u32]) {
    for t in toks {
        match *t {
            Tok::Lit(b) => w.put_code(lc[b as usize], ll[b as usize] as u32),
            Tok::Copy { len, dist } => {
                let (ls, le, lx) = len_sym(len);
                w.put_code(lc[ls], ll[ls] as u32);
                w.put(lx, le);
                let (ds, de, dx) = dist_sym(dist);
                w.put_code(dc[ds], dl[ds] as u32);
                w.put(dx, de);
            }
        }
    }
    w.put_code(lc[256], ll[256] as u32);
}

/// Random code lengths for the symbols in `used` (all must get a non-zero length).
fn assign_lens(rng: &mut Rng, nsyms: usize, used: &[usize], extra_pool: &[usize], maxdepth: u8, allow_degenerate: bool, feats: &mut Vec<String>, tag: &str) -> Vec<u8> {
    let mut lens = vec![0u8; nsyms];
    let mut syms: Vec<usize> = used.to_vec();
    // add some unused symbols so the code is larger than strictly needed
    if !extra_pool.is_empty() && rng.chance(1, 2) {
        let k = rng.range(1, extra_pool.len().min(12));
        for _ in 0..k { let s = *rng.pick(extra_pool); if !syms.contains(&s) { syms.push(s); } }
    }
    if syms.is_empty() {
        if allow_degenerate && rng.chance(1, 2) { feats.push(format!("{}_nocodes", tag)); return lens; }
        if allow_degenerate && !extra_pool.is_empty() { let s = *rng.pick(extra_pool); lens[s] = 1; feats.push(format!("{}_onecode_unused", tag)); return lens; }
        return lens;
    }
    if syms.len() == 1 {
        if allow_degenerate && rng.chance(2, 3) { lens[syms[0]] = 1; feats.push(format!("{}_onecode", tag)); return lens; }
        // make it complete with a dummy
        let mut d = (syms[0] + 1) % nsyms;
        if !extra_pool.is_empty() { d = *rng.pick(extra_pool); if d == syms[0] { d = (d + 1) % nsyms; } }
        syms.push(d);
    }
    let deep = rng.chance(1, 3);
    let depths = random_depths(rng, syms.len(), maxdepth, deep);
    let mx = *depths.iter().max().unwrap();
    if mx >= 11 { feats.push(format!("{}_len{}", tag, mx)); }
    for (s, d) in syms.iter().zip(depths.iter()) { lens[*s] = *d; }
    lens
}

pub fn write_dynamic_header(rng: &mut Rng, w: &mut BitWriter, ll: &[u8], dl: &[u8], feats: &mut Vec<String>) {
    let last_l = (0..286).rev().find(|&i| ll[i] != 0).unwrap_or(0);
    let mut hlit = (last_l + 1).max(257);
    if rng.chance(1, 3) { hlit = rng.range(hlit, 286); }
    let last_d = (0..30).rev().find(|&i| dl[i] != 0).map(|x| x + 1).unwrap_or(1);
    let mut hdist = last_d.max(1);
    if rng.chance(1, 3) { hdist = rng.range(hdist, 30); }
    let mut seq: Vec<u8> = ll[..hlit].to_vec();
    seq.extend_from_slice(&dl[..hdist]);
    // RLE with random choices
    let mut syms: Vec<(usize, u32)> = vec![];
    let mut i = 0;
    let n = seq.len();
    while i < n {
        let v = seq[i];
        let mut run = 1; while i + run < n && seq[i + run] == v { run += 1; }
        if v == 0 && run >= 3 && rng.chance(3, 4) {
            if run >= 11 && rng.chance(2, 3) {
                let k = if rng.chance(1, 2) { run.min(138) } else { rng.range(11, run.min(138)) };
                if k == 138 { feats.push("rle18_max".into()); }
                if i < hlit && i + k > hlit { feats.push("rle_cross".into()); }
                syms.push((18, (k - 11) as u32)); i += k;
            } else {
                let k = rng.range(3, run.min(10));
                if i < hlit && i + k > hlit { feats.push("rle_cross".into()); }
                syms.push((17, (k - 3) as u32)); i += k;
            }
        } else if i > 0 && seq[i - 1] == v && run >= 3 && rng.chance(3, 4) {
            let k = rng.range(3, run.min(6));
            if i < hlit && i + k > hlit { feats.push("rle_cross".into()); }
            if i == hlit { feats.push("rle16_prev_in_lit".into()); }
            syms.push((16, (k - 3) as u32)); i += k;
        } else { syms.push((v as usize, 0)); i += 1; }
    }
    let mut used: Vec<usize> = vec![];
    for &(s, _) in &syms { if !used.contains(&s) { used.push(s); } }
    let pool: Vec<usize> = (0..19).filter(|s| !used.contains(s)).collect();
    let mut f2 = vec![];
    let mut cl = assign_lens(rng, 19, &used, &pool, 7, false, &mut f2, "clen");
    if cl.iter().filter(|&&x| x != 0).count() < 2 {
        // must be complete: give two symbols one bit each
        let a = used[0]; let b = (0..19).find(|&s| s != a).unwrap();
        cl = vec![0u8; 19]; cl[a] = 1; cl[b] = 1;
    }
    let cc = canonical_codes(&cl);
    const ORDER: [usize; 19] = [16, 17, 18, 0, 8, 7, 9, 6, 10, 5, 11, 4, 12, 3, 13, 2, 14, 1, 15];
    let mut hclen = (0..19).rev().find(|&i| cl[ORDER[i]] != 0).unwrap() + 1;
    hclen = hclen.max(4);
    if rng.chance(1, 3) { hclen = rng.range(hclen, 19); }
    w.put((hlit - 257) as u32, 5);
    w.put((hdist - 1) as u32, 5);
    w.put((hclen - 4) as u32, 4);
    for i in 0..hclen { w.put(cl[ORDER[i]] as u32, 3); }
    for &(s, x) in &syms {
        w.put_code(cc[s], cl[s] as u32);
        match s { 16 => w.put(x, 2), 17 => w.put(x, 3), 18 => w.put(x, 7), _ => {} }
    }
}

pub fn gen_stream(rng: &mut Rng, cfg: &GenCfg) -> GenStream {
    let mut w = BitWriter::new();
    let mut plain: Vec<u8> = vec![];
    let mut feats: Vec<String> = vec![];
    if cfg.zlib {
        let cinfo = if rng.chance(3, 4) { 7 } else { rng.below(8) as u32 };
        let cmf = 8 | (cinfo << 4);
        let flevel = rng.below(4) as u32;
        let mut flg = flevel << 6;
        let rem = (cmf * 256 + flg) % 31;
        if rem != 0 { flg += 31 - rem; }
        w.put(cmf, 8); w.put(flg, 8);
        feats.push(format!("cinfo{}", cinfo));
    }
    let nblocks = rng.range(1, cfg.max_blocks);
    for bi in 0..nblocks {
        let fin = bi + 1 == nblocks;
        let kind = match rng.below(8) { 0 | 1 => 0, 2 | 3 => 1, _ => 2 };
        let ntok = match rng.below(6) { 0 => 0, 1 => rng.range(1, 3), 2 => rng.range(1, 40), _ => rng.range(1, cfg.max_tokens.max(1)) };
        w.put(fin as u32, 1);
        w.put(kind as u32, 2);
        match kind {
            0 => {
                let align_pad = (8 - (w.bitpos() % 8)) % 8;
                feats.push(format!("stored_pad{}", align_pad));
                w.align();
                let n = if cfg.big && rng.chance(1, 4) { rng.range(30000, 65535) } else if ntok == 0 { 0 } else { rng.range(1, (ntok * 3).min(65535)) };
                if n == 0 { feats.push("stored_empty".into()); }
                w.put(n as u32, 16); w.put(!(n as u32) & 0xFFFF, 16);
                for _ in 0..n { let b = if rng.chance(1, 2) { rng.byte() } else { b'x' }; plain.push(b); w.put(b as u32, 8); }
            }
            1 => {
                if ntok == 0 { feats.push("fixed_empty".into()); }
                let toks = gen_tokens(rng, cfg, &mut plain, &mut feats, ntok);
                let ll = fixed_lit_lens(); let lc = canonical_codes(&ll);
                let dl = vec![5u8; 32]; let dc = canonical_codes(&dl);
                write_tokens(&mut w, &toks, &ll, &lc, &dl, &dc);
            }
            _ => {
                if ntok == 0 { feats.push("dyn_empty".into()); }
                let toks = gen_tokens(rng, cfg, &mut plain, &mut feats, ntok);
                let mut used_l: Vec<usize> = vec![256];
                let mut used_d: Vec<usize> = vec![];
                for t in &toks {
                    match *t {
                        Tok::Lit(b) => { if !used_l.contains(&(b as usize)) { used_l.push(b as usize); } }
                        Tok::Copy { len, dist } => {
                            let s = len_sym(len).0; if !used_l.contains(&s) { used_l.push(s); }
                            let d = dist_sym(dist).0; if !used_d.contains(&d) { used_d.push(d); }
                        }
                    }
                }
                let pool_l: Vec<usize> = (0..286).filter(|s| !used_l.contains(s)).collect();
                let pool_d: Vec<usize> = (0..30).filter(|s| !used_d.contains(s)).collect();
                let ll = if cfg.heavy {
                    let nl = rng.range(260, 286);
                    let d = heavy_depths(rng, nl);
                    // every used symbol must have a code: give the codes to the used symbols first
                    let mut order: Vec<usize> = used_l.clone();
                    for s in 0..286 { if !order.contains(&s) { order.push(s); } }
                    let mut v = vec![0u8; 288];
                    for (k, s) in order.iter().take(nl).enumerate() { v[*s] = d[k]; }
                    if used_l.len() > nl { assign_lens(rng, 288, &used_l, &pool_l, 15, true, &mut feats, "lit") } else { feats.push("lit_heavy".into()); v }
                } else { assign_lens(rng, 288, &used_l, &pool_l, 15, true, &mut feats, "lit") };
                let dl = assign_lens(rng, 32, &used_d, &pool_d, 15, true, &mut feats, "dist");
                write_dynamic_header(rng, &mut w, &ll, &dl, &mut feats);
                let lc = canonical_codes(&ll); let dc = canonical_codes(&dl);
                write_tokens(&mut w, &toks, &ll, &lc, &dl, &dc);
            }
        }
    }
    let bits = w.bitpos();
    feats.push(format!("endbit{}", bits % 8));
    let mut bytes = w.finish();
    if cfg.zlib {
        let a = adler32(&plain);
        bytes.extend_from_slice(&a.to_be_bytes());
    }
    feats.sort(); feats.dedup();
    GenStream { bytes, plain, bits, features: feats, zlib: cfg.zlib }
}

/// A dynamic block over a tiny alphabet (1- and 2-bit codes, so the decoder's bit buffer is still full
/// of whole bytes when the block ends) directly followed by a non-empty stored block, optionally more.
/// Returns the stream, the plaintext and the plaintext offsets at which the stored blocks start.
pub fn huff_then_stored(rng: &mut Rng, zlib: bool) -> (Vec<u8>, Vec<u8>, Vec<usize>) {
    let mut w = BitWriter::new();
    let mut plain: Vec<u8> = vec![];
    let mut bounds = vec![];
    if zlib { w.put(0x78, 8); w.put(0x9c, 8); }
    let rounds = rng.range(1, 3);
    for r in 0..rounds {
        let (a, b) = (rng.byte(), rng.byte().wrapping_add(1));
        let (a, b) = if a == b { (a, a.wrapping_add(7)) } else { (a, b) };
        let k = rng.range(1, 90);
        let toks: Vec<Tok> = (0..k).map(|_| Tok::Lit(if rng.chance(2, 3) { a } else { b })).collect();
        for t in &toks { if let Tok::Lit(x) = t { plain.push(*x); } }
        let mut ll = vec![0u8; 288];
        let d = if rng.chance(1, 2) { [1u8, 2, 2] } else { [2u8, 1, 2] };
        ll[a as usize] = d[0]; ll[b as usize] = d[1]; ll[256] = d[2];
        let dl = vec![0u8; 32];
        w.put(0, 1); w.put(2, 2);
        let mut feats = vec![];
        write_dynamic_header(rng, &mut w, &ll, &dl, &mut feats);
        let lc = canonical_codes(&ll); let dc = canonical_codes(&dl);
        write_tokens(&mut w, &toks, &ll, &lc, &dl, &dc);
        // the stored block
        let last = r + 1 == rounds;
        let n = rng.range(1, 40);
        bounds.push(plain.len());
        w.put(last as u32, 1); w.put(0, 2); w.align();
        w.put(n as u32, 16); w.put(!(n as u32) & 0xFFFF, 16);
        for _ in 0..n { let x = rng.byte(); plain.push(x); w.put(x as u32, 8); }
    }
    let mut bytes = w.finish();
    if zlib { bytes.extend_from_slice(&adler32(&plain).to_be_bytes()); }
    (bytes, plain, bounds)
}

/// A stream whose plaintext reaches the end of the 32 KiB window inside the first bytes of a stored block
/// that directly follows a Huffman block: stored filler, a tiny-alphabet dynamic block, then the stored
/// block; `head` plaintext bytes precede the last stored block. Returns the stream, and the input
/// position one byte past the stored-block byte that is the first not to fit the window.
pub fn window_edge_stream(rng: &mut Rng, zlib: bool, head: usize) -> (Vec<u8>, usize) {
    let mut w = BitWriter::new();
    let mut plain: Vec<u8> = vec![];
    if zlib { w.put(0x78, 8); w.put(0x9c, 8); }
    let k = rng.range(1, 90);
    let fill = head - k;
    w.put(0, 1); w.put(0, 2); w.align();
    w.put(fill as u32, 16); w.put(!(fill as u32) & 0xFFFF, 16);
    for _ in 0..fill { let x = rng.byte(); plain.push(x); w.put(x as u32, 8); }
    let (a, b) = (rng.byte(), rng.byte().wrapping_add(1));
    let (a, b) = if a == b { (a, a.wrapping_add(7)) } else { (a, b) };
    let toks: Vec<Tok> = (0..k).map(|_| Tok::Lit(if rng.chance(2, 3) { a } else { b })).collect();
    for t in &toks { if let Tok::Lit(x) = t { plain.push(*x); } }
    let mut ll = vec![0u8; 288];
    let d = if rng.chance(1, 2) { [1u8, 2, 2] } else { [2u8, 1, 2] };
    ll[a as usize] = d[0]; ll[b as usize] = d[1]; ll[256] = d[2];
    let dl = vec![0u8; 32];
    w.put(0, 1); w.put(2, 2);
    let mut feats = vec![];
    write_dynamic_header(rng, &mut w, &ll, &dl, &mut feats);
    let lc = canonical_codes(&ll); let dc = canonical_codes(&dl);
    write_tokens(&mut w, &toks, &ll, &lc, &dl, &dc);
    let n = rng.range(8, 300);
    w.put(1, 1); w.put(0, 2); w.align();
    w.put(n as u32, 16); w.put(!(n as u32) & 0xFFFF, 16);
    let data_start = w.bytes.len();
    for _ in 0..n { let x = rng.byte(); plain.push(x); w.put(x as u32, 8); }
    let mut bytes = w.finish();
    if zlib { bytes.extend_from_slice(&adler32(&plain).to_be_bytes()); }
    (bytes, data_start + (32768 - head) + 1)
}

/// G-mut: structural mutations of a (usually valid) stream.
pub fn mutate(rng: &mut Rng, s: &[u8]) -> (Vec<u8>, &'static str) {
    let mut v = s.to_vec();
    if v.is_empty() { let n = rng.range(1, 8); return (rng.bytes(n), "random"); }
    match rng.below(8) {
        0 => { let i = rng.below(v.len()); v[i] ^= 1 << rng.below(8); (v, "bitflip") }
        1 => { let n = rng.below(v.len()); v.truncate(n); (v, "truncate") }
        2 => { let i = rng.below(v.len() + 1); v.insert(i, rng.byte()); (v, "insert") }
        3 => { let i = rng.below(v.len()); v.remove(i); (v, "delete") }
        4 => { let i = rng.below(v.len()); v[i] = rng.byte(); (v, "setbyte") }
        5 => { let n = rng.range(1, 64); (rng.bytes(n), "random") }
        6 => { let k = rng.range(1, 3); for _ in 0..k { let i = rng.below(v.len()); v[i] ^= 1 << rng.below(8); } (v, "bitflips") }
        _ => { let i = rng.below(v.len()); let n = rng.range(1, 4).min(v.len() - i); for j in 0..n { v[i + j] = rng.byte(); } (v, "setbytes") }
    }
}

/// Targeted spec violations: one constructor per failure class named in C04.
pub fn targeted_invalid(rng: &mut Rng, which: usize) -> (Vec<u8>, &'static str) {
    let mut w = BitWriter::new();
    match which % 17 {
        0 => { w.put(1, 1); w.put(3, 2); w.put(rng.next() as u32, 13); (w.finish(), "blocktype3") }
        1 => { w.put(1, 1); w.put(0, 2); w.align(); w.put(5, 16); w.put(!5u32 & 0xFFFF ^ 1, 16); for _ in 0..5 { w.put(65, 8); } (w.finish(), "stored_len_mismatch") }
        2 => { // HLIT = 287..288 (>286)
            w.put(1, 1); w.put(2, 2); w.put(30 + rng.below(2) as u32, 5); w.put(0, 5); w.put(0, 4); w.put(rng.next() as u32, 32); (w.finish(), "hlit_gt_286") }
        3 => { w.put(1, 1); w.put(2, 2); w.put(0, 5); w.put(30 + rng.below(2) as u32, 5); w.put(0, 4); w.put(rng.next() as u32, 32); (w.finish(), "hdist_gt_30") }
        4 => { // over-subscribed code length code: three 1-bit codes
            w.put(1, 1); w.put(2, 2); w.put(0, 5); w.put(0, 5); w.put(0, 4);
            w.put(1, 3); w.put(1, 3); w.put(1, 3); w.put(0, 3); w.put(rng.next() as u32, 32); (w.finish(), "clen_oversubscribed") }
        5 => { // incomplete code length code: a single 1-bit... plus 2-bit (incomplete)
            w.put(1, 1); w.put(2, 2); w.put(0, 5); w.put(0, 5); w.put(0, 4);
            w.put(1, 3); w.put(2, 3); w.put(0, 3); w.put(0, 3); w.put(rng.next() as u32, 32); (w.finish(), "clen_incomplete") }
        6 => { // repeat code 16 with no previous length: clen code {16:1, 0:1}
            w.put(1, 1); w.put(2, 2); w.put(0, 5); w.put(0, 5); w.put(0, 4);
            w.put(1, 3); w.put(0, 3); w.put(0, 3); w.put(1, 3);
            // codes: sym0 -> 0, sym16 -> 1 ; send sym16 first
            w.put(1, 1); w.put(0, 2); w.put(rng.next() as u32, 32); (w.finish(), "repeat_no_prev") }
        7 => { // fixed block using litlen symbol 286/287 (8-bit codes 0xC6/0xC7 -> 11000110/11000111)
            w.put(1, 1); w.put(1, 2); w.put_code(0b11000110 + rng.below(2) as u32, 8); w.put(0, 16); (w.finish(), "litlen_286_287") }
        8 => { // fixed block: length code then distance symbol 30/31
            w.put(1, 1); w.put(1, 2); w.put_code(0b00110000 + 65, 8); // literal 'A'
            w.put_code(1, 7); // length symbol 257 (len 3)
            w.put_code(30 + rng.below(2) as u32, 5); w.put(0, 16); (w.finish(), "dist_30_31") }
        9 => { // fixed block: distance beyond start
            w.put(1, 1); w.put(1, 2); w.put_code(0b00110000 + 65, 8);
            w.put_code(1, 7); w.put_code(1 + rng.below(3) as u32, 5); w.put_code(0, 7); (w.finish(), "dist_before_start") }
        10 => { // over-subscribed literal code via dynamic block: lens all 1 for three symbols
            w.put(1, 1); w.put(2, 2); w.put(0, 5); w.put(0, 5); w.put(15, 4);
            // clen lens: make symbols 1 and 0 one bit each => order 16,17,18,0,8,7,9,6,10,5,11,4,12,3,13,2,14,1,15
            let order = [16, 17, 18, 0, 8, 7, 9, 6, 10, 5, 11, 4, 12, 3, 13, 2, 14, 1, 15];
            for &o in order.iter() { w.put(if o == 0 || o == 1 { 1 } else { 0 }, 3); }
            // codes: sym0 -> '0', sym1 -> '1'. Send 257 lit lens: three 1s then zeros, then 1 dist len
            for i in 0..258 { w.put(if i < 3 { 1 } else { 0 }, 1); }
            w.put(rng.next() as u32, 16); (w.finish(), "litlen_oversubscribed") }
        12 => { // code-length code with one 1-bit symbol only (incomplete; only litlen/dist codes may be so):
            // symbol 1 -> '0'; the unassigned '1' is followed by 7 bits, so that a decoder which lets it
            // through and treats it as a zero run (11 + x) sees complete tables, 'A' 'A' 'A', end of block
            w.put(1, 1); w.put(2, 2); w.put(0, 5); w.put(0, 5); w.put(15, 4);
            let order = [16, 17, 18, 0, 8, 7, 9, 6, 10, 5, 11, 4, 12, 3, 13, 2, 14, 1, 15];
            for &o in order.iter() { w.put(if o == 1 { 1 } else { 0 }, 3); }
            w.put(1, 1); w.put(65 - 11, 7); w.put(0, 1);
            w.put(1, 1); w.put(127, 7); w.put(1, 1); w.put(52 - 11, 7); w.put(0, 1); w.put(0, 1);
            w.put(0, 1); w.put(0, 1); w.put(0, 1); w.put(1, 1); (w.finish(), "clen_single_1bit_full") }
        13 => { // the same class with any one symbol, random continuation
            w.put(1, 1); w.put(2, 2); w.put(rng.below(30) as u32, 5); w.put(rng.below(30) as u32, 5); w.put(15, 4);
            let k = rng.below(19);
            for i in 0..19 { w.put(if i == k { 1 } else { 0 }, 3); }
            for _ in 0..12 { w.put(rng.next() as u32, 32); } (w.finish(), "clen_single_1bit") }
        14 => { // empty code-length code
            w.put(1, 1); w.put(2, 2); w.put(rng.below(30) as u32, 5); w.put(rng.below(30) as u32, 5); w.put(rng.below(16) as u32, 4);
            for _ in 0..19 { w.put(0, 3); }
            for _ in 0..12 { w.put(rng.next() as u32, 32); } (w.finish(), "clen_empty") }
        15 | 16 => { // a block that is well-formed EXCEPT that it announces 287 literal/length codes (15) or 31
            // distance codes (16): 'A' and end-of-block on 1-bit codes, no distance code; 'A' 'A' 'A' end
            w.put(1, 1); w.put(2, 2);
            let (nlit, ndist) = if which % 17 == 15 { (287usize, 1usize) } else { (257usize, 31usize) };
            w.put((nlit - 257) as u32, 5); w.put((ndist - 1) as u32, 5); w.put(15, 4);
            let order = [16, 17, 18, 0, 8, 7, 9, 6, 10, 5, 11, 4, 12, 3, 13, 2, 14, 1, 15];
            for &o in order.iter() { w.put(if o == 0 || o == 1 { 1 } else { 0 }, 3); }
            for i in 0..nlit { w.put(if i == 65 || i == 256 { 1 } else { 0 }, 1); }
            for _ in 0..ndist { w.put(0, 1); }
            w.put(0, 1); w.put(0, 1); w.put(0, 1); w.put(1, 1);
            (w.finish(), if which % 17 == 15 { "hlit_287_full" } else { "hdist_31_full" }) }
        _ => { // incomplete literal code: two symbols of length 2
            w.put(1, 1); w.put(2, 2); w.put(0, 5); w.put(0, 5); w.put(15, 4);
            let order = [16, 17, 18, 0, 8, 7, 9, 6, 10, 5, 11, 4, 12, 3, 13, 2, 14, 1, 15];
            for &o in order.iter() { w.put(if o == 0 || o == 2 { 1 } else { 0 }, 3); }
            // codes: sym0 -> '0', sym2 -> '1'
            for i in 0..258 { w.put(if i == 0 || i == 256 { 1 } else { 0 }, 1); }
            w.put(rng.next() as u32, 16); (w.finish(), "litlen_incomplete") }
    }
}
