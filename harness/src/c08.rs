//! C08 (write window, truthful statuses, size-limited vector functions) and C05 (totality on
//! arbitrary bytes, flags, geometries and call histories).
use crate::c03::{gen_case, StreamCase};
use crate::dec::*;
use crate::eps::*;
use crate::tx::{fnv, hex, Ctx};
use miniz_oxide::inflate::core::{decompress_with_limit, inflate_flags::*, DecompressorOxide};
use miniz_oxide::inflate::TINFLStatus;
use std::panic::{catch_unwind, AssertUnwindSafe};

fn limits(ctx: &mut Ctx, sc: &StreamCase) {
    let id = ctx.id();
    let full = ep_vec(&sc.z, sc.zlib, 64 << 20);
    if full.st != 0 { return; }
    let n = full.out.len();
    let replay = format!("LIMIT fmt={} data={}", sc.zlib as u8, hex(&sc.z));
    ctx.eval(fnv(&sc.z) ^ 0x11);
    let mut lims = vec![0usize, n, n + 1, usize::MAX >> 1];
    if n > 0 { lims.push(n - 1); lims.push(n / 2); }
    for lim in lims {
        ctx.count("limit_cases");
        let r = ep_vec(&sc.z, sc.zlib, lim);
        let vl = take_vec_line(sc.z.len(), lim, &r);
        ctx.count("vec_loop_lines"); ctx.line(&format!("{} id={} rp=LIMIT;fmt={} data={}", vl, id, sc.zlib as u8, hex(&sc.z)));
        for (cl, m) in &r.problems { ctx.violation(id, cl, m.clone(), replay.clone()); }
        if lim >= n {
            if r.st != 0 || r.out != full.out { ctx.violation(id, "limit", format!("limit {} >= true size {}: status {} ({} bytes)", lim, n, r.st, r.out.len()), replay.clone()); }
        } else {
            if r.st != TINFLStatus::HasMoreOutput as i32 { ctx.violation(id, "limit", format!("limit {} < true size {}: status {} instead of HasMoreOutput", lim, n, r.st), replay.clone()); }
            if r.out.len() > lim { ctx.violation(id, "limit", format!("limit {}: {} bytes returned", lim, r.out.len()), replay.clone()); }
            else if r.out[..] != full.out[..r.out.len()] || r.out.len() != lim { ctx.violation(id, "limit", format!("limit {}: returned {} bytes which are not the first {} bytes of the output", lim, r.out.len(), lim), replay.clone()); }
        }
    }
}

/// windows at every alignment near match boundaries: flat buffers with out_pos anywhere, budgets around 258/259
fn windows(ctx: &mut Ctx, sc: &StreamCase) {
    let id = ctx.id();
    let replay = format!("STREAM fmt={} pov=0 trail=0 seed={} data={}", sc.zlib as u8, ctx.seed, hex(&sc.z));
    ctx.eval(fnv(&sc.z) ^ 0x22);
    let mut rng = ctx.rng.fork();
    let full = ep_vec(&sc.z, sc.zlib, 8 << 20);
    for k in 0..8 {
        let pos0 = if k % 2 == 0 { 0 } else { rng.range(1, 400) };
        let cap = pos0 + full.out.len() + rng.range(0, 3);
        let s = Sched { in_style: rng.below(3) as u8, cut: 0, out_style: *rng.pick(&[1u8, 2, 3, 3]), more_on_last: false };
        let mut r = DecompressorOxide::new();
        // pos0 > 0: the bytes before out_pos are history a match may reach; only no-match checks apply to output equality
        let res = run_low(&mut r, &sc.z, base_flags(sc.zlib), &Mode::Flat { cap, pos0 }, &s, &mut rng, 0x5A);
        ctx.count("window_runs"); ctx.count_n("window_calls", res.ncalls as u64);
        for (cl, m) in &res.problems { ctx.violation(id, cl, format!("[flat pos0={} cap={} {}] {}", pos0, cap, s.describe(), m), replay.clone()); }
        if pos0 == 0 && full.st == 0 && (res.st != 0 || res.out != full.out) && !res.overflow { ctx.violation(id, "schedule", format!("windowed flat decode (st {}, {} bytes) differs from one-shot ({} bytes)", res.st, res.out.len(), full.out.len()), replay.clone()); }
    }
    for k in 0..6 {
        let size = 1usize << (*rng.pick(&[15u32, 15, 16, 15]) );
        let s = Sched { in_style: rng.below(3) as u8, cut: 0, out_style: *rng.pick(&[1u8, 2, 3, 3]), more_on_last: false };
        let mut r = DecompressorOxide::new();
        let res = run_low(&mut r, &sc.z, base_flags(sc.zlib), &Mode::Ring { size }, &s, &mut rng, 0x5A);
        ctx.count("window_runs"); ctx.count_n("window_calls", res.ncalls as u64);
        for (cl, m) in &res.problems { ctx.violation(id, cl, format!("[ring {} {} #{}] {}", size, s.describe(), k, m), replay.clone()); }
    }
}

/// Output space that ends exactly where a stored block starts right after a Huffman block with very
/// short codes (the decoder then holds the stored block's header and first bytes in its bit buffer):
/// limits `boundary − 2 ..= boundary + 3` through the vector function, a slice of exactly that size,
/// and `out_max` below the slice length; then the decode is resumed with all the room.
fn boundary_limits(ctx: &mut Ctx, z: &[u8], plain: &[u8], bounds: &[usize], zlib: bool) {
    let id = ctx.id();
    let replay = format!("BLIM fmt={} bounds={} n={} data={}", zlib as u8, bounds.iter().map(|b| b.to_string()).collect::<Vec<_>>().join("."), plain.len(), hex(z));
    ctx.eval(fnv(z) ^ 0x33);
    ctx.count("boundary_limit_streams");
    let flags = base_flags(zlib) | TINFL_FLAG_USING_NON_WRAPPING_OUTPUT_BUF;
    for &b in bounds { for lim in b.saturating_sub(2)..=(b + 3).min(plain.len()) {
        ctx.count("boundary_limit_cases");
        // (a) the vector function
        let r = ep_vec(z, zlib, lim);
        for (cl, m) in &r.problems { ctx.violation(id, cl, m.clone(), replay.clone()); }
        if lim >= plain.len() { if r.st != 0 || r.out != plain { ctx.violation(id, "limit", format!("limit {} >= size {}: status {}", lim, plain.len(), r.st), replay.clone()); } }
        else if r.st != TINFLStatus::HasMoreOutput as i32 || r.out.len() != lim || r.out[..] != plain[..lim] { ctx.violation(id, "limit", format!("limit {} < size {}: status {}, {} bytes", lim, plain.len(), r.st, r.out.len()), replay.clone()); }
        // (b) a slice of exactly `lim` bytes, (c) a larger slice with out_max = lim; both resumed afterwards
        for exact in [true, false] {
            let cap = if exact { lim } else { plain.len() + 9 };
            let res = catch_unwind(AssertUnwindSafe(|| {
                let mut d = DecompressorOxide::new();
                let mut out = vec![0x5Au8; cap];
                let (st, c, w) = decompress_with_limit(&mut d, z, &mut out, 0, lim, flags);
                (d, out, st, c, w)
            }));
            match res {
                Err(_) => { ctx.violation(id, "panic", format!("panic with {} bytes of room at a stored-block boundary ({})", lim, if exact { "slice end" } else { "out_max" }), replay.clone()); }
                Ok((mut d, out, st, c, w)) => {
                    if w > lim || c > z.len() { ctx.violation(id, "bounds", format!("room {}: reported {} written, {} consumed", lim, w, c), replay.clone()); continue; }
                    if out[..w] != plain[..w] || out[w..].iter().any(|&x| x != 0x5A) { ctx.violation(id, "window", format!("room {}: bytes outside [0, {}) touched or wrong bytes inside", lim, w), replay.clone()); continue; }
                    if lim < plain.len() && st != TINFLStatus::HasMoreOutput { ctx.violation(id, "status", format!("room {} < size {}: status {:?}", lim, plain.len(), st), replay.clone()); continue; }
                    // resume with all the room: the rest must come out
                    if st == TINFLStatus::HasMoreOutput {
                        let r2 = catch_unwind(AssertUnwindSafe(|| {
                            let mut big = vec![0x5Au8; plain.len() + 9];
                            big[..w].copy_from_slice(&out[..w]);
                            let (st2, _c2, w2) = decompress_with_limit(&mut d, &z[c..], &mut big, w, usize::MAX, flags);
                            (st2, w2, big)
                        }));
                        match r2 {
                            Err(_) => ctx.violation(id, "panic", format!("panic when resuming after {} bytes", w), replay.clone()),
                            Ok((st2, w2, big)) => if st2 != TINFLStatus::Done || w + w2 != plain.len() || big[..plain.len()] != plain[..] { ctx.violation(id, "schedule", format!("resumed after {} bytes: {:?}, {} more bytes", w, st2, w2), replay.clone()); }
                        }
                    }
                }
            }
        }
    } }
}

fn boundary_family(ctx: &mut Ctx) {
    for _ in 0..(40 * ctx.scale) {
        let zlib = ctx.rng.chance(1, 2);
        let (z, plain, bounds) = crate::sgen::huff_then_stored(&mut ctx.rng, zlib);
        boundary_limits(ctx, &z, &plain, &bounds, zlib);
    }
}

pub fn run_c08(ctx: &mut Ctx) {
    if let Some(lines) = ctx.replay_lines.clone() {
        for l in lines {
            let (tag, rest) = l.split_once(' ').unwrap_or(("", ""));
            let kv = crate::kv(rest);
            if tag == "BLIM" {
                let bounds: Vec<usize> = kv["bounds"].split('.').filter_map(|x| x.parse().ok()).collect();
                let z = crate::tx::unhex(&kv["data"]); let zl = kv["fmt"] == "1";
                let full = ep_vec(&z, zl, 64 << 20);
                boundary_limits(ctx, &z, &full.out, &bounds, zl); continue;
            }
            if tag != "LIMIT" && tag != "STREAM" { continue; }
            let sc = StreamCase { z: crate::tx::unhex(&kv["data"]), zlib: kv["fmt"] == "1", tag: "replay".into(), expect_len: 70000, prefix_of_valid: false, trail: 0 };
            if let Some(s) = kv.get("seed") { ctx.rng = crate::rng::Rng::new(s.parse().unwrap_or(1)); }
            limits(ctx, &sc); windows(ctx, &sc);
        }
        return;
    }
    let n = 120 * ctx.scale;
    for i in 0..n {
        let sc = gen_case(ctx, i % 6 == 5);
        windows(ctx, &sc);
        limits(ctx, &sc);
        ctx.sample(format!("{} zlib={} len={}", sc.tag, sc.zlib, sc.z.len()));
    }
    boundary_family(ctx);
}

// ------------------------------------------------------------------------------------------ C05
fn history(ctx: &mut Ctx, seed: u64) {
    let id = ctx.id();
    let mut rng = crate::rng::Rng::new(seed);
    let replay = format!("HIST seed={}", seed);
    ctx.eval(seed | 1);
    let mut r = DecompressorOxide::new();
    let mut failed = false;
    let ncalls = rng.range(1, 12);
    // a pool of inputs: random bytes, a valid stream, mutations of it
    let mut sub = Ctx_rng_case(&mut rng);
    for call in 0..ncalls {
        let flags = rng.below(128) as u32 | if rng.chance(1, 2) { 128 } else { 0 } & 0xFF;
        let len = *rng.pick(&[0usize, 1, 2, 3, 5, 6, 7, 100, 1000, 4096, 32768, 40000, 65536, 70000]);
        let pos = if rng.chance(1, 8) { len + 1 } else if len == 0 { 0 } else { rng.below(len + 1) };
        let budget = *rng.pick(&[0usize, 1, 2, 3, 258, 259, 1000, usize::MAX]);
        let input: Vec<u8> = if rng.chance(1, 3) { let nb = rng.range(0, 64); rng.bytes(nb) } else { let k = rng.below(sub.len() + 1); let c: Vec<u8> = sub.drain(..k.min(sub.len())).collect(); c };
        let mut out = ring_fill(len, 0x77);
        let before = out.clone();
        let st_before = r.verif_state();
        let rr = catch_unwind(AssertUnwindSafe(|| decompress_with_limit(&mut r, &input, &mut out, pos, budget, flags)));
        ctx.count("history_calls");
        let (st, c, w) = match rr { Ok(x) => x, Err(_) => { ctx.violation(id, "panic", format!("panic in call #{} of a history (flags {} len {} pos {} budget {} input {} bytes)", call, flags, len, pos, budget, input.len()), replay.clone()); return; } };
        ctx.count(&format!("hist_status_{}", st as i32));
        let wrapping = flags & TINFL_FLAG_USING_NON_WRAPPING_OUTPUT_BUF == 0;
        let bad_geom = (wrapping && len != 0 && !len.is_power_of_two()) || pos > len;
        if bad_geom {
            ctx.count("bad_geometry");
            if st != TINFLStatus::BadParam || c != 0 || w != 0 { ctx.violation(id, "badparam", format!("unusable geometry (len {} pos {} wrapping {}) returned ({:?}, {}, {})", len, pos, wrapping, st, c, w), replay.clone()); }
            if r.verif_state() != st_before || out != before { ctx.violation(id, "badparam", "parameter error touched the decoder state or the output".into(), replay.clone()); }
            continue;
        }
        if st == TINFLStatus::BadParam { ctx.violation(id, "badparam", format!("usable geometry (len {} pos {} wrapping {}) rejected", len, pos, wrapping), replay.clone()); }
        if c > input.len() { ctx.violation(id, "counts", format!("consumed {} > offered {}", c, input.len()), replay.clone()); }
        let window = budget.min(len - pos);
        if w > window { ctx.violation(id, "counts", format!("wrote {} > window {}", w, window), replay.clone()); }
        if out[..pos] != before[..pos] || out[(pos + w).min(len)..] != before[(pos + w).min(len)..] { ctx.violation(id, "window", "bytes outside the written region changed".into(), replay.clone()); }
        if failed && (st != TINFLStatus::Failed || c != 0 || w != 0) { ctx.violation(id, "sticky", format!("after a failure the next call returned ({:?}, {}, {})", st, c, w), replay.clone()); }
        if st == TINFLStatus::Failed { failed = true; }
        if rng.chance(1, 10) { r.init(); failed = false; }
    }
}

#[allow(non_snake_case)]
fn Ctx_rng_case(rng: &mut crate::rng::Rng) -> Vec<u8> {
    let cfg = crate::sgen::GenCfg { max_tokens: 200, max_blocks: 4, zlib: rng.chance(1, 2), pre_len: 0, big: false, heavy: false };
    let g = crate::sgen::gen_stream(rng, &cfg);
    if rng.chance(1, 2) { crate::sgen::mutate(rng, &g.bytes).0 } else { g.bytes }
}

pub fn run_c05(ctx: &mut Ctx) {
    if let Some(lines) = ctx.replay_lines.clone() {
        for l in lines {
            if let Some(rest) = l.strip_prefix("HIST ") { let kv = crate::kv(rest); history(ctx, kv["seed"].parse().unwrap()); }
            else if l.starts_with("BLIM ") { run_c08(ctx); return; }
            else if l.starts_with("STREAM ") { crate::c03::replay(ctx); return; }
        }
        return;
    }
    for _ in 0..(3000 * ctx.scale) { let s = ctx.rng.next(); history(ctx, s); }
    boundary_family(ctx);
    // random bytes through every entry point (totality of the wrappers)
    for _ in 0..(60 * ctx.scale) {
        let n = ctx.rng.range(0, 400);
        let z = ctx.rng.bytes(n);
        let sc = StreamCase { z, zlib: ctx.rng.chance(1, 2), tag: "random".into(), expect_len: 70000, prefix_of_valid: false, trail: 0 };
        crate::c03::run_stream(ctx, &sc, 2, false);
    }
    // valid streams under tight output windows (tier boundaries of the decoder: 258/259 bytes of room)
    for i in 0..(60 * ctx.scale) {
        let sc = gen_case(ctx, i % 4 == 3);
        windows(ctx, &sc);
    }
    for _ in 0..(40 * ctx.scale) {
        let base = gen_case(ctx, false);
        let (z, how) = crate::sgen::mutate(&mut ctx.rng, &base.z);
        let sc = StreamCase { z, zlib: base.zlib, tag: format!("mut_{}", how), expect_len: base.expect_len + 70000, prefix_of_valid: false, trail: 0 };
        crate::c03::run_stream(ctx, &sc, 2, false);
    }
}
