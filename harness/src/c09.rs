//! C09 — zlib framing is produced correctly and verified on decode.
use crate::comp::*;
use crate::plain;
use crate::tx::{fnv, hex, Ctx};
use miniz_oxide::inflate::core::{decompress, inflate_flags::*, DecompressorOxide};
use miniz_oxide::inflate::stream::{inflate, InflateState};
use miniz_oxide::inflate::{decompress_to_vec_zlib, TINFLStatus};
use miniz_oxide::{DataFormat, MZError, MZFlush};

fn adler(d: &[u8]) -> u32 { crate::sgen::adler32(d) }

/// all 65536 headers in front of a fixed valid body ("a" as a fixed block), flat and ring buffers
fn headers(ctx: &mut Ctx) {
    headers_with(ctx, &[0, 1, 128, 256, 512, 1024, 2048, 4096, 8192, 16384, 32768, 65536], false);
    ctx.count_n("headers_flat", 65536);
}

/// `only_checked`: only the headers whose FCHECK is right (the others are rejected before any other field is looked at)
pub fn headers_with(ctx: &mut Ctx, rings: &[usize], only_checked: bool) {
    let body: [u8; 3] = [0x4b, 0x04, 0x00]; // fixed block: literal 'a', EOB
    let tr = adler(b"a").to_be_bytes();
    for cmf in 0..256usize { for flg in 0..256usize {
        // every header flat; ring sizes on a stride (every valid-looking header gets all ring sizes)
        let looks_valid = (cmf * 256 + flg) % 31 == 0;
        if only_checked && !looks_valid { continue; }
        for (ri, &ring) in rings.iter().enumerate() {
            if ring != 0 && !looks_valid && (cmf + flg + ri) % 37 != 0 { continue; }
            let id = ctx.id();
            let mut z = vec![cmf as u8, flg as u8]; z.extend_from_slice(&body); z.extend_from_slice(&tr);
            let mut r = DecompressorOxide::new();
            let (st, _c, _w) = if ring == 0 {
                let mut out = vec![0u8; 16];
                decompress(&mut r, &z, &mut out, 0, TINFL_FLAG_PARSE_ZLIB_HEADER | TINFL_FLAG_USING_NON_WRAPPING_OUTPUT_BUF)
            } else {
                let mut out = vec![0u8; ring];
                decompress(&mut r, &z, &mut out, 0, TINFL_FLAG_PARSE_ZLIB_HEADER)
            };
            ctx.evals += 1;
            if looks_valid { ctx.nontrivial.insert(((cmf * 256 + flg) * 16 + ri) as u64 | 1 << 40); }
            ctx.line(&format!("HDR id={} cmf={} flg={} ring={} st={}", id, cmf, flg, ring, st as i32));
        }
    } }
}

/// trailer / body corruptions of a valid zlib stream through every entry point
fn corrupt(ctx: &mut Ctx, data: &[u8], level: u8) {
    let id = ctx.id();
    let z = miniz_oxide::deflate::compress_to_vec_zlib(data, level);
    let n = z.len();
    ctx.eval(fnv(data) ^ 0x99 ^ level as u64);
    let replay = format!("TRAILER level={} in={}", level, hex(data));
    // correct trailer = big-endian adler32 of the input
    if z[n - 4..] != adler(data).to_be_bytes() { ctx.violation(id, "trailer", "trailer is not the big-endian Adler-32 of the input".into(), replay.clone()); }
    ctx.line(&format!("ENC id={} checks=rt,header modes=- level={} strategy=0 fmt=1 wb=15 in={} comp={}", id, level, hex(data), hex(&z)));
    let mut variants: Vec<Vec<u8>> = vec![];
    for k in 0..4 { for bit in [0u8, 3, 7] { let mut v = z.clone(); v[n - 4 + k] ^= 1 << bit; variants.push(v); } }
    for _ in 0..4 { let mut v = z.clone(); let k = ctx.rng.below(4); let b = ctx.rng.byte(); if v[n - 4 + k] != b { v[n - 4 + k] = b; variants.push(v); } }
    for v in variants {
        ctx.count("wrong_trailers");
        // one-shot vec
        match decompress_to_vec_zlib(&v) {
            Err(e) if e.status == TINFLStatus::Adler32Mismatch => {}
            other => ctx.violation(id, "mismatch", format!("decompress_to_vec_zlib with a wrong trailer: {:?}", other.map(|x| x.len()).map_err(|e| e.status)), replay.clone()),
        }
        // low-level, chunked at a random point, flat
        let cut = ctx.rng.range(0, v.len());
        let mut r = DecompressorOxide::new();
        let mut out = vec![0u8; data.len() + 10];
        let f = TINFL_FLAG_PARSE_ZLIB_HEADER | TINFL_FLAG_USING_NON_WRAPPING_OUTPUT_BUF;
        let (s1, c1, w1) = decompress(&mut r, &v[..cut], &mut out, 0, f | TINFL_FLAG_HAS_MORE_INPUT);
        let fin = if s1 == TINFLStatus::NeedsMoreInput { decompress(&mut r, &v[c1..], &mut out, w1, f).0 } else { s1 };
        if fin != TINFLStatus::Adler32Mismatch { ctx.violation(id, "mismatch", format!("chunked (cut {}) low-level decode with a wrong trailer returned {:?}", cut, fin), replay.clone()); }
        // explicit request to ignore the checksum
        let mut r = DecompressorOxide::new();
        let (s3, _, w3) = decompress(&mut r, &v, &mut out, 0, f | TINFL_FLAG_IGNORE_ADLER32);
        if s3 != TINFLStatus::Done || &out[..w3] != data { ctx.violation(id, "ignore", format!("IGNORE_ADLER32 decode with a wrong trailer returned {:?}", s3), replay.clone()); }
        // streaming wrapper
        let mut st = InflateState::new_boxed(DataFormat::Zlib);
        let mut o2 = vec![0u8; data.len() + 10];
        let r2 = inflate(&mut st, &v, &mut o2, MZFlush::Finish);
        if r2.status != Err(MZError::Data) { ctx.violation(id, "mismatch", format!("inflate() with a wrong trailer returned {:?}", r2.status), replay.clone()); }
        let mut st = InflateState::new_boxed(DataFormat::ZLibIgnoreChecksum);
        let r3 = inflate(&mut st, &v, &mut o2, MZFlush::Finish);
        if r3.status != Ok(miniz_oxide::MZStatus::StreamEnd) { ctx.violation(id, "ignore", format!("inflate(ZLibIgnoreChecksum) with a wrong trailer returned {:?}", r3.status), replay.clone()); }
    }
    // body corruption: whatever happens, Done implies the checksum matched
    for _ in 0..6 {
        if n <= 6 { break; }
        let mut v = z.clone(); let k = ctx.rng.range(2, n - 5); v[k] ^= 1 << ctx.rng.below(8);
        ctx.count("body_corruptions");
        if let Ok(o) = decompress_to_vec_zlib(&v) {
            if adler(&o).to_be_bytes() != v[n - 4..] { ctx.violation(id, "mismatch", "corrupted body accepted although the trailer does not match the output".into(), replay.clone()); }
        }
    }
}

pub fn run(ctx: &mut Ctx) {
    if let Some(lines) = ctx.replay_lines.clone() {
        for l in lines { if let Some(rest) = l.strip_prefix("TRAILER ") { let kv = crate::kv(rest); corrupt(ctx, &crate::tx::unhex(&kv["in"]), kv["level"].parse().unwrap()); }
            else if l.starts_with("SCHED ") { crate::c02::run(ctx); return; } }
        return;
    }
    headers(ctx);
    // emit side: every (level, strategy, wb) header + trailer via the streaming compressor
    let mut k = 0;
    for level in 0..=10u8 { for strategy in 0..5u8 { for wb in [8u8, 9, 11, 12, 14, 15, 16, 17, 23, 24, 31, 200] {
        k += 1;
        if ctx.quick() && k % 3 != (ctx.seed % 3) as usize { continue; }
        let cfg = Cfg { level, strategy, zlib: true, wb };
        let kind = *ctx.rng.pick(plain::KINDS);
        let len = ctx.rng.range(0, 3000);
        let data = plain::gen(&mut ctx.rng, kind, len);
        let seed = ctx.rng.next();
        crate::c02::case(ctx, &cfg, &data, kind, Sink::Buf, false, seed, "rt,header,window");
    } } }
    for _ in 0..(25 * ctx.scale) {
        let kind = *ctx.rng.pick(plain::KINDS);
        let len = match ctx.rng.below(3) { 0 => ctx.rng.range(0, 50), 1 => ctx.rng.range(50, 3000), _ => ctx.rng.range(3000, 70000) };
        let data = plain::gen(&mut ctx.rng, kind, len);
        let level = ctx.rng.below(11) as u8;
        corrupt(ctx, &data, level);
    }
}
