//! G-plain: plaintext generators (DESIGN.md §6).
use crate::rng::Rng;

pub const KINDS: &[&str] = &[
    "zeros", "runs", "text4", "random", "highbyte", "sparse3", "words", "repeat_far", "xx", "ramp", "skew", "wrap_runs", "fat_boundary", "lazy_cut", "far_trigram", "deep_tree", "clen_runs",
];

pub fn gen(rng: &mut Rng, kind: &str, len: usize) -> Vec<u8> {
    let mut v = Vec::with_capacity(len);
    match kind {
        "zeros" => v.resize(len, 0),
        "runs" => {
            while v.len() < len {
                let b = rng.byte();
                let n = match rng.below(4) { 0 => 1, 1 => rng.range(2, 5), 2 => rng.range(3, 300), _ => rng.range(250, 270) };
                for _ in 0..n.min(len - v.len()) { v.push(b); }
            }
        }
        "text4" => { for _ in 0..len { v.push(b"acgt"[rng.below(4)]); } }
        "random" => { for _ in 0..len { v.push(rng.byte()); } }
        "highbyte" => { for _ in 0..len { v.push(144 + rng.below(112) as u8); } }
        "sparse3" => {
            // random bytes with sparse 3..6-byte repeats of earlier material
            while v.len() < len {
                if v.len() > 8 && rng.chance(1, 6) {
                    let n = rng.range(3, 6);
                    let maxd = v.len().min(32768);
                    let d = rng.range(1, maxd);
                    for _ in 0..n { if v.len() < len { let b = v[v.len() - d]; v.push(b); } }
                } else { v.push(rng.byte()); }
            }
        }
        "words" => {
            let dict: Vec<Vec<u8>> = (0..40).map(|_| { let n = rng.range(2, 9); (0..n).map(|_| b'a' + rng.below(26) as u8).collect() }).collect();
            while v.len() < len {
                let w = &dict[rng.below(dict.len())];
                for &b in w { if v.len() < len { v.push(b); } }
                if v.len() < len { v.push(b' '); }
            }
        }
        "repeat_far" => {
            // random prefix, then repeats of chunks at chosen distances
            let dists = [1usize, 2, 3, 257, 258, 4095, 4096, 4097, 8191, 8192, 8193, 16384, 32767, 32768, 32769, 40000];
            let base = (len / 2).max(1).min(len);
            for _ in 0..base { v.push(rng.byte()); }
            while v.len() < len {
                let d = *rng.pick(&dists);
                let n = rng.range(3, 300);
                if d <= v.len() { for _ in 0..n { if v.len() < len { let b = v[v.len() - d]; v.push(b); } } }
                else { v.push(rng.byte()); }
            }
        }
        "skew" => {
            // Fibonacci-like symbol frequencies force maximal (15-bit, length-limited) Huffman codes;
            // the rarest symbols come in runs so that long codes are adjacent in the output.
            let k = rng.range(12, 40);
            let base = rng.byte();
            let mut counts: Vec<usize> = vec![];
            let (mut a, mut b) = (1usize, rng.range(1, 3));
            for _ in 0..k { counts.push(a); let c = a + b; a = b; b = c; if a > len { break; } }
            let total: usize = counts.iter().sum();
            let scale = (len as f64 / total.max(1) as f64).max(0.0);
            let mut pool: Vec<u8> = vec![];
            for (i, &c) in counts.iter().enumerate() {
                let n = ((c as f64) * scale).ceil() as usize;
                let sym = base.wrapping_add((i * 7) as u8);
                for _ in 0..n.max(1) { pool.push(sym); }
            }
            // keep the rare symbols (front of pool) together, shuffle the rest in blocks
            let rare = pool.len().min(rng.range(8, 40));
            let mut rest: Vec<u8> = pool[rare..].to_vec();
            for i in (1..rest.len()).rev() { let j = rng.below(i + 1); rest.swap(i, j); }
            let cut = if rest.is_empty() { 0 } else { rng.below(rest.len()) };
            v.extend_from_slice(&rest[..cut]);
            v.extend_from_slice(&pool[..rare]);
            v.extend_from_slice(&rest[cut..]);
        }
        "far_trigram" => {
            // filler whose bytes avoid one low nibble, so that the hash buckets of a few marker trigrams
            // (which contain that nibble) stay untouched for a long time; each marker is planted again
            // 28 000 .. 32 768 bytes later followed by DIFFERENT bytes: a stale hash entry must be
            // rejected, not matched against the data that has since overwritten the dictionary slot
            let nib = rng.below(16) as u8;
            for _ in 0..len { let mut b = rng.byte(); if b & 15 == nib { b ^= 1; } v.push(b); }
            let mut p = rng.range(100, 3000);
            while p + 33000 < len {
                let m = [(rng.byte() & 0xF0) | nib, (rng.byte() & 0xF0) | nib, (rng.byte() & 0xF0) | nib];
                let d = *rng.pick(&[32768usize, 32768, 32767, 32766, 32760, 32512, 31000, 30000, 28672, 28000]);
                let d = if rng.chance(1, 3) { rng.range(28000, 32768) } else { d };
                for i in 0..3 { v[p + i] = m[i]; v[p + d + i] = m[i]; }
                // what follows the second copy differs from what follows the first
                for i in 3..8 { if p + d + i < len { v[p + d + i] = v[p + i].wrapping_add(0x11) & !15 | ((nib + 1) & 15); } }
                p += rng.range(200, 9000);
            }
        }
        "clen_runs" => {
            // a power-of-two alphabet with equal counts (equal code lengths) in two blocks of consecutive
            // byte values separated by an unused range whose length sits at a boundary of the code-length
            // run encodings (3, 10/11, 138 and multiples): zero runs of exactly that length followed by
            // several equal lengths
            let k = *rng.pick(&[8usize, 16, 16, 32]);
            let gap = *rng.pick(&[138usize, 138, 138, 137, 139, 11, 10, 3, 148, 149]);
            let first = rng.range(3, k - 3);
            let start = rng.range(0, 256 - k - gap);
            let mut alpha: Vec<u8> = (0..first).map(|i| (start + i) as u8).collect();
            alpha.extend((0..k - first).map(|i| (start + first + gap + i) as u8));
            let m = rng.range(6, 40);
            for _ in 0..m { let mut a = alpha.clone(); for i in (1..a.len()).rev() { let j = rng.below(i + 1); a.swap(i, j); } v.extend_from_slice(&a); }
            return v;
        }
        "deep_tree" => {
            // exact Fibonacci frequencies over 17..32 symbols, shuffled: the unrestricted Huffman tree is
            // deeper than 15, so the length limiter has real work to do (every symbol must keep a code)
            let k = rng.range(17, 32);
            let base = rng.byte();
            // no ties between the small counts (ties let the builder balance the tree)
            let a0 = rng.range(1, 2);
            let (mut a, mut b) = (a0, a0 + rng.range(1, 2));
            let mut pool: Vec<u8> = vec![];
            for i in 0..k {
                if pool.len() + a > len.max(5000).min(56000) { break; }
                let sym = base.wrapping_add((i * 5) as u8);
                for _ in 0..a { pool.push(sym); }
                let c = a + b; a = b; b = c;
            }
            for i in (1..pool.len()).rev() { let j = rng.below(i + 1); pool.swap(i, j); }
            v = pool;
            let n = v.len(); return { v.truncate(n); v };
        }
        "clen_deep" => {
            // the CODE-LENGTH alphabet of the dynamic block gets Fibonacci-like frequencies over nine symbols
            // (1, 1, 2, 3, 5, 8, 13, 21, ~100), so its unrestricted Huffman tree is 8 levels deep and the 7-bit
            // limit of that alphabet has to be enforced. Literal code lengths by design: a byte value meant to get
            // length L occurs 2^(10-L) times (1 value of length 1, 3 of length 4, 5 of 5, 8 of 7, 13 of 8, 21 of 9,
            // 1 of 10; with the end-of-block symbol at length 10 a complete code); values three apart, so that the
            // lengths are separated by short zero runs and never form repeat runs
            let design: [(u32, usize); 7] = [(1, 1), (4, 3), (5, 5), (7, 8), (8, 13), (9, 21), (10, 1)];
            let shift = rng.below(3);
            let mut slots: Vec<u32> = vec![];
            for &(l, n) in design.iter() { for _ in 0..n { slots.push(l); } }
            if rng.chance(1, 2) { for i in (1..slots.len()).rev() { let j = rng.below(i + 1); slots.swap(i, j); } }
            let mut pool: Vec<(u8, usize)> = slots.iter().enumerate().map(|(i, &l)| ((102 - shift + 3 * i) as u8, 1usize << (10 - l))).collect();
            match rng.below(3) {
                0 => { loop { let mut any = false; for e in pool.iter_mut() { if e.1 > 0 { e.1 -= 1; v.push(e.0); any = true; } } if !any { break; } } }
                1 => { for e in pool.iter() { for _ in 0..e.1 { v.push(e.0); } } }
                _ => { for e in pool.iter() { for _ in 0..e.1 { v.push(e.0); } } for i in (1..v.len()).rev() { let j = rng.below(i + 1); v.swap(i, j); } }
            }
            return v;
        }
        "lazy_cut" => {
            // incompressible filler (a 16-bit counter: no 3-byte repeats) in which a deferred (lazy) match
            // is superseded by a longer one exactly where a 31 KiB block is cut: earlier text holds
            // W (8 bytes) and q ++ W[0..3]; at the cut stands q ++ W
            let mut salt = rng.next() as u16;
            let mut fill = |v: &mut Vec<u8>, upto: usize, salt: &mut u16| { while v.len() < upto { v.push((*salt >> 8) as u8); if v.len() < upto { v.push(*salt as u8); } *salt = salt.wrapping_add(1); } };
            let w: Vec<u8> = (0..8).map(|i| 0xF1u8.wrapping_sub(i * 15).wrapping_add(rng.byte() & 3)).collect();
            let q = 0xFEu8;
            let cut = 31744usize;
            if len < cut + 20 { fill(&mut v, len, &mut salt); }
            else {
                let a = rng.range(20000, 30000); fill(&mut v, a, &mut salt); v.extend_from_slice(&w);
                let b = rng.range(v.len() + 10, 31000); salt = salt.wrapping_add(0x4000); fill(&mut v, b, &mut salt);
                v.push(q); v.extend_from_slice(&w[..3]); v.push(0);
                let shift = if rng.chance(3, 4) { 0 } else { rng.range(0, 3) };
                salt = salt.wrapping_add(0x4000); fill(&mut v, cut + shift, &mut salt);
                v.push(q); v.extend_from_slice(&w);
                salt = salt.wrapping_add(0x4000); fill(&mut v, len, &mut salt);
            }
        }
        "fat_boundary" => {
            // incompressible bytes (blocks are cut after 31 KiB of literals) with a dense patch of short
            // matches around every multiple of 31744, so that a lazy match is pending when the block is cut
            for _ in 0..len { v.push(rng.byte()); }
            let mut k = 31744usize;
            while k < len {
                let lo = k.saturating_sub(rng.range(8, 40));
                let hi = (k + rng.range(8, 40)).min(len);
                let mut p = lo;
                while p + 8 < hi {
                    let n = rng.range(3, 7);
                    let d = rng.range(1, 2000).min(p);
                    for i in 0..n { v[p + i] = v[p + i - d]; }
                    p += n + rng.range(0, 2);
                }
                k += 31744;
            }
        }
        "wrap_runs" => {
            // random bytes with runs and short repeats placed to start exactly at (or within 2 bytes of)
            // multiples of the 32 KiB dictionary size, where ring indices wrap
            for _ in 0..len { v.push(rng.byte()); }
            let mut k = 32768usize;
            while k < len + 4 {
                let delta = rng.range(0, 4) as i64 - 2;
                let start = (k as i64 + if rng.chance(1, 2) { 0 } else { delta }).max(1) as usize;
                let n = rng.range(3, 40);
                if start + n <= len {
                    let b = v[start - 1].wrapping_add(1 + rng.below(200) as u8); // differs from the byte before
                    if rng.chance(2, 3) { for i in 0..n { v[start + i] = b; } }
                    else { let d = rng.range(1, 300).min(start); for i in 0..n { v[start + i] = v[start + i - d]; } }
                }
                k += 32768;
            }
        }
        "xx" => {
            let h = len / 2;
            for _ in 0..h { v.push(rng.byte()); }
            for i in 0..(len - h) { let b = if h > 0 { v[i % h] } else { 0 }; v.push(b); }
        }
        _ => { for i in 0..len { v.push((i * 7 + i / 256) as u8); } }
    }
    v.truncate(len);
    v
}

/// Lengths straddling the thresholds named in the properties.
pub fn threshold_lengths() -> Vec<usize> {
    let mut v = vec![];
    for t in [0usize, 258, 4096, 31744, 31745, 32768, 65535, 65536, 85180, 85196] {
        for d in -3i64..=3 { let x = t as i64 + d; if x >= 0 { v.push(x as usize); } }
    }
    v.sort(); v.dedup(); v
}
