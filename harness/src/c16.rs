//! C16 — checksums equal their definitions and compose incrementally.
use crate::plain;
use crate::tx::{fnv, hex, Ctx};
use miniz_oxide::{mz_adler32_oxide, MZ_ADLER32_INIT};
use miniz_oxide_c_api::{mz_adler32, mz_crc32, mz_crc32_oxide};

fn one(ctx: &mut Ctx, data: &[u8], tag: &str) {
    let id = ctx.id();
    ctx.eval(if data.len() > 1 { fnv(data) } else { 0 });
    ctx.count(&format!("len_class_{}", match data.len() { 0 => "0", 1..=15 => "1-15", 16..=63 => "16-63", 64..=5551 => "64-5551", 5552..=5553 => "5552-5553", 5554..=65534 => "mid", 65535..=65537 => "64k", _ => "big" }));
    let a = mz_adler32_oxide(MZ_ADLER32_INIT, data);
    let c = mz_crc32_oxide(0, data);
    ctx.line(&format!("CK id={} kind=adler what=oxide_{} init=1 data={} got={}", id, tag, hex(data), a));
    ctx.line(&format!("CK id={} kind=crc what=oxide_{} init=0 data={} got={}", id, tag, hex(data), c));
    // C entry points (null pointer returns the initial value)
    let ca = unsafe { mz_adler32(1, data.as_ptr(), data.len()) } as u32;
    let cc = unsafe { mz_crc32(0, data.as_ptr(), data.len()) } as u32;
    if ca != a { ctx.violation(id, "c_api", format!("mz_adler32 {} != mz_adler32_oxide {}", ca, a), format!("CKS in={}", hex(data))); }
    if cc != c { ctx.violation(id, "c_api", format!("mz_crc32 {} != mz_crc32_oxide {}", cc, c), format!("CKS in={}", hex(data))); }
    // every split point (short) or sampled: update(update(init, a), b) == update(init, a ++ b)
    let n = data.len();
    let splits: Vec<usize> = if n <= 70 { (0..=n).collect() } else { let mut v = vec![0, 1, 15, 16, 17, 31, 32, 63, 64, n / 2, n - 1, n]; for _ in 0..6 { v.push(ctx.rng.below(n + 1)); } if n > 5553 { v.extend_from_slice(&[5551, 5552, 5553]); } v };
    for &k in &splits {
        let k = k.min(n);
        let a1 = mz_adler32_oxide(mz_adler32_oxide(MZ_ADLER32_INIT, &data[..k]), &data[k..]);
        let c1 = mz_crc32_oxide(mz_crc32_oxide(0, &data[..k]), &data[k..]);
        ctx.count("splits");
        // the same split through the exported C functions (non-null pointer even for an empty piece:
        // an empty update must return the running value, not the initial one)
        let ca1 = unsafe { let p = mz_adler32(1, data.as_ptr(), k); mz_adler32(p, data.as_ptr().add(k), n - k) } as u32;
        let cc1 = unsafe { let p = mz_crc32(0, data.as_ptr(), k); mz_crc32(p, data.as_ptr().add(k), n - k) } as u32;
        ctx.count("c_splits");
        if ca1 != a { ctx.violation(id, "c_split", format!("mz_adler32 split at {} of {}: {} != one pass {}", k, n, ca1, a), format!("CKS in={}", hex(data))); }
        if cc1 != c { ctx.violation(id, "c_split", format!("mz_crc32 split at {} of {}: {} != one pass {}", k, n, cc1, c), format!("CKS in={}", hex(data))); }
        if a1 != a { ctx.violation(id, "split", format!("adler32 split at {} of {}: {} != one pass {}", k, n, a1, a), format!("CKS in={}", hex(data))); }
        if c1 != c { ctx.violation(id, "split", format!("crc32 split at {} of {}: {} != one pass {}", k, n, c1, c), format!("CKS in={}", hex(data))); }
        // continuation from a prefix checksum is also judged by the definition (on short data)
        if n <= 600 && k > 0 && k < n {
            let init = mz_adler32_oxide(MZ_ADLER32_INIT, &data[..k]);
            ctx.line(&format!("CK id={} kind=adler what=cont init={} data={} got={}", id, init, hex(&data[k..]), a1));
            let initc = mz_crc32_oxide(0, &data[..k]);
            ctx.line(&format!("CK id={} kind=crc what=cont init={} data={} got={}", id, initc, hex(&data[k..]), c1));
        }
    }
}

/// running checksums exposed by the compressor, the zlib decoder and the C stream
fn running(ctx: &mut Ctx, data: &[u8]) {
    use miniz_oxide::deflate::core::{compress, CompressorOxide, TDEFLFlush, create_comp_flags_from_zip_params};
    use miniz_oxide::inflate::stream::{inflate, InflateState};
    use miniz_oxide::{DataFormat, MZFlush};
    let id = ctx.id();
    ctx.eval(fnv(data) ^ 0x77);
    ctx.count("running_cases");
    let mut c = CompressorOxide::new(create_comp_flags_from_zip_params(ctx.rng.range(0, 9) as i32, 15, 0));
    let mut z = vec![];
    let mut pos = 0;
    while pos < data.len() {
        let k = ctx.rng.range(1, 9000).min(data.len() - pos);
        let mut out = vec![0u8; 20000];
        let (_, cin, cout) = compress(&mut c, &data[pos..pos + k], &mut out, TDEFLFlush::None);
        z.extend_from_slice(&out[..cout]); pos += cin;
        ctx.line(&format!("CK id={} kind=adler what=compressor_running init=1 data={} got={}", id, hex(&data[..pos]), c.adler32()));
    }
    loop { let mut out = vec![0u8; 20000]; let (st, _, cout) = compress(&mut c, &[], &mut out, TDEFLFlush::Finish); z.extend_from_slice(&out[..cout]); if st != miniz_oxide::deflate::core::TDEFLStatus::Okay { break; } }
    // decoder side
    let mut st = InflateState::new_boxed(DataFormat::Zlib);
    let mut produced = vec![];
    let mut ipos = 0;
    for _ in 0..100000 {
        let k = ctx.rng.range(1, 700).min(z.len() - ipos);
        let mut out = vec![0u8; ctx.rng.range(1, 3000)];
        let r = inflate(&mut st, &z[ipos..ipos + k], &mut out, MZFlush::None);
        ipos += r.bytes_consumed; produced.extend_from_slice(&out[..r.bytes_written]);
        if let Some(a) = st.decompressor().adler32() {
            // the decoder's running checksum covers what the core has produced, which may be ahead of
            // what inflate() has delivered; compare at points where nothing is pending (delivered == decoded)
            if r.bytes_written < out.len() { ctx.line(&format!("CK id={} kind=adler what=decoder_running init=1 data={} got={}", id, hex(&produced), a)); }
        }
        match r.status { Ok(miniz_oxide::MZStatus::StreamEnd) => break, Ok(_) => {}, Err(_) => break }
    }
    if produced != data { ctx.violation(id, "running", "streaming round trip differs".into(), format!("CKS in={}", hex(data))); }
}

/// The C stream's `adler` field after every `mz_inflate` call, successful or not: it must be the
/// Adler-32 of the output produced so far.  The plaintext is known, so "produced so far" is the
/// bytes delivered plus whatever the decoder has decoded into its window and not yet handed over
/// (at most one window); when the call left output room unused nothing is pending and the field
/// must be the checksum of exactly the delivered bytes.
fn c_stream_field(ctx: &mut Ctx, data: &[u8], level: i32, first_finish: bool) { let seed = ctx.rng.next(); c_stream_field_seeded(ctx, data, level, first_finish, seed) }
fn c_stream_field_seeded(ctx: &mut Ctx, data: &[u8], level: i32, first_finish: bool, seed: u64) {
    use miniz_oxide_c_api::{mz_inflate, mz_inflateEnd, mz_inflateInit, mz_stream};
    let id = ctx.id();
    ctx.eval(fnv(data) ^ seed ^ 0xC5);
    ctx.count(if first_finish { "c_field_first_finish" } else { "c_field_schedule" });
    let z = miniz_oxide::deflate::compress_to_vec_zlib(data, level as u8);
    let replay = format!("CFIELD level={} ff={} seed={} in={}", level, first_finish as u8, seed, hex(data));
    let mut rng = crate::rng::Rng::new(seed);
    unsafe {
        let mut s = mz_stream::default();
        if mz_inflateInit(&mut s) != 0 { ctx.violation(id, "c_field", "mz_inflateInit failed".into(), replay); return; }
        let mut ipos = 0usize; let mut delivered = 0usize;
        let mut finishing = first_finish;
        for call in 0..200000 {
            let left = z.len() - ipos;
            let ain = if finishing { left } else { match rng.below(3) { 0 => rng.range(0, 3).min(left), 1 => rng.range(0, 2000).min(left), _ => left } };
            let aout = if finishing && rng.chance(1, 2) { *rng.pick(&[1usize, 100, 32767, 32768, 32769, 40000]) } else { *rng.pick(&[1usize, 7, 500, 5000, 32768, 70000]) };
            let flush = if finishing { 4 } else { *rng.pick(&[0, 0, 2]) };
            let mut out = vec![0u8; aout];
            s.next_in = z.as_ptr().add(ipos); s.avail_in = ain as u32;
            s.next_out = out.as_mut_ptr(); s.avail_out = aout as u32;
            let rc = mz_inflate(&mut s, flush);
            ctx.count("c_field_calls");
            let used_in = ain - s.avail_in as usize; let used_out = aout - s.avail_out as usize;
            if out[..used_out] != data[delivered..(delivered + used_out).min(data.len())] { ctx.violation(id, "c_field", format!("call #{}: delivered bytes differ from the plaintext", call), replay.clone()); break; }
            ipos += used_in; delivered += used_out;
            if rc < 0 { ctx.count("c_field_error_returns"); if used_out > 0 { ctx.count("c_field_error_returns_with_output"); } }
            // candidates: delivered + k pending bytes, k = 0 when room was left
            let field = s.adler as u32;
            // Until the first header byte has been consumed the decoder exposes no checksum at all
            // (`adler32()` is `None`) and the field keeps the value `mz_inflateInit` gave it.
            if s.total_in == 0 { ctx.count("c_field_before_header"); if field > 1 { ctx.violation(id, "c_field", format!("call #{}: stream.adler {} before any header byte was consumed", call, field), replay.clone()); break; } continue; }
            let max_pending = if used_out < aout { 0 } else { 32768.min(data.len() - delivered) };
            let mut a = mz_adler32_oxide(MZ_ADLER32_INIT, &data[..delivered]);
            if used_out < aout && (delivered <= 8192 || rc == 1) { ctx.line(&format!("CK id={} kind=adler what=c_stream_field init=1 data={} got={}", id, hex(&data[..delivered]), field)); }
            let mut ok = a == field;
            let mut k = 0;
            while !ok && k < max_pending { a = mz_adler32_oxide(a, &data[delivered + k..delivered + k + 1]); k += 1; ok = a == field; }
            if !ok {
                ctx.violation(id, "c_field", format!("call #{} (flush {} in {} out {} rc {}): stream.adler {} is not the Adler-32 of the {} delivered bytes{}", call, flush, ain, aout, rc, field, delivered, if max_pending > 0 { format!(" nor of those plus up to {} pending", max_pending) } else { String::new() }), replay.clone());
                break;
            }
            if rc == 1 { if delivered != data.len() { ctx.violation(id, "c_field", "stream end before all data".into(), replay.clone()); } break; }
            if rc < 0 && rc != -5 { ctx.violation(id, "c_field", format!("call #{}: unexpected error {}", call, rc), replay.clone()); break; }
            if first_finish && call == 0 && rc == -5 { break; } // first-call-finish failed for room: the stream is spent
            if !finishing && ipos == z.len() || rng.chance(1, 6) { finishing = true; }
        }
        mz_inflateEnd(&mut s);
    }
}

/// Start values chosen so that the running sums land exactly on, just below and just above the
/// modulus 65521 after the piece: `a0 + sum(piece) = 65521 + d`, `b0 + len*a0 + weighted(piece) = 65521 + d2 (mod)`.
fn modulus_boundary(ctx: &mut Ctx) {
    const M: u64 = 65521;
    let lens: Vec<usize> = (1..=17).chain([31usize, 32, 33, 63, 64, 65, 100, 255, 256, 257, 5551, 5552, 5553].into_iter()).collect();
    for &n in &lens {
        for rep in 0..2 {
            let piece: Vec<u8> = if rep == 0 { vec![0xFFu8; n] } else { ctx.rng.bytes(n) };
            let s: u64 = piece.iter().map(|&x| x as u64).sum();
            let w: u64 = piece.iter().enumerate().map(|(i, &x)| (n - i) as u64 * x as u64).sum();
            for d in [-2i64, -1, 0, 1, 2] { for d2 in [-1i64, 0, 1] {
                let a0 = ((M as i64 * 4 + d - (s % M) as i64) as u64) % M;
                let b0 = ((M as i64 * 4 + d2 - ((n as u64 * a0 + w) % M) as i64) as u64) % M;
                let init = ((b0 << 16) | a0) as u32;
                let id = ctx.id();
                ctx.eval(fnv(&piece) ^ (init as u64) << 8);
                ctx.count("modulus_boundary");
                let got = mz_adler32_oxide(init, &piece);
                ctx.line(&format!("CK id={} kind=adler what=boundary init={} data={} got={}", id, init, hex(&piece), got));
                let cgot = unsafe { mz_adler32(init as _, piece.as_ptr(), piece.len()) } as u32;
                if cgot != got { ctx.violation(id, "c_api", format!("mz_adler32 {} != mz_adler32_oxide {} from start {}", cgot, got, init), format!("CKS in={}", hex(&piece))); }
            } }
        }
    }
    // the same boundaries reached by real prefixes: 0xFF runs bring the low sum to the modulus after 257 bytes
    for tail in 1..=20usize { for last in [0xEFu8, 0xF0, 0xF1] {
        let mut d = vec![0xFFu8; 256]; d.extend(std::iter::repeat(0u8).take(tail - 1)); d.push(last);
        one(ctx, &d, "ff_boundary");
    } }
}

/// A running Adler-32 of exactly 0 (both halves zero) at a call boundary: 0 is a legitimate value, not
/// "no checksum yet". Start value 0 and its neighbours directly, and a real prefix P with adler32(P) = 0
/// (k zero bytes bring the high half where it must be, 256 x 0xFF + 0xF0 bring the low half to 65521)
/// followed by more data, through the update function, the C wrappers, the compressor (P with a sync
/// flush, then the rest) and the low-level decoder (output granted up to |P|, then the rest).
fn zero_state(ctx: &mut Ctx) {
    use miniz_oxide::deflate::core::{compress, CompressorOxide, TDEFLFlush, create_comp_flags_from_zip_params};
    use miniz_oxide::inflate::core::{decompress_with_limit, inflate_flags::*, DecompressorOxide};
    for init in [0u32, 1, 65536, 65537, 0xFFF0_0000, 0x0000_FFF0, 65520, 65520 << 16] {
        for n in [1usize, 2, 15, 16, 17, 64, 300, 6000] {
            let piece = ctx.rng.bytes(n);
            let id = ctx.id();
            ctx.eval(fnv(&piece) ^ (init as u64) << 8 ^ 0x5a);
            ctx.count("zero_state_starts");
            let got = mz_adler32_oxide(init, &piece);
            ctx.line(&format!("CK id={} kind=adler what=zero_start init={} data={} got={}", id, init, hex(&piece), got));
            let cgot = unsafe { mz_adler32(init as _, piece.as_ptr(), piece.len()) } as u32;
            if cgot != got { ctx.violation(id, "c_api", format!("mz_adler32 {} != mz_adler32_oxide {} from start {}", cgot, got, init), format!("CKS in={}", hex(&piece))); }
        }
    }
    // own arithmetic, independent of the crate: find k with adler32(0^k ++ FF^256 ++ F0) = 0
    let tail: Vec<u8> = { let mut t = vec![0xFFu8; 256]; t.push(0xF0); t };
    let adler = |k: usize| -> (u64, u64) { let (mut a, mut b) = (1u64, k as u64 % 65521); for &x in &tail { a = (a + x as u64) % 65521; b = (b + a) % 65521; } (a, b) };
    let k = (0..65521usize).find(|&k| adler(k) == (0, 0)).expect("a prefix with checksum 0 exists");
    let mut p0 = vec![0u8; k]; p0.extend_from_slice(&tail);
    for rep in 0..(3 * ctx.scale.max(1)) {
        let s_len = [1usize, 700, 40000][rep % 3];
        let suffix = ctx.rng.bytes(s_len);
        let mut data = p0.clone(); data.extend_from_slice(&suffix);
        let id = ctx.id();
        ctx.eval(fnv(&data) ^ 0xa0);
        ctx.count("zero_state_prefixes");
        let mid = mz_adler32_oxide(MZ_ADLER32_INIT, &p0);
        ctx.line(&format!("CK id={} kind=adler what=zero_prefix init=1 data={} got={}", id, hex(&p0), mid));
        let got = mz_adler32_oxide(mid, &suffix);
        ctx.line(&format!("CK id={} kind=adler what=zero_cont init=1 data={} got={}", id, hex(&data), got));
        let cgot = unsafe { let p = mz_adler32(1, data.as_ptr(), p0.len()); mz_adler32(p, data.as_ptr().add(p0.len()), suffix.len()) } as u32;
        ctx.line(&format!("CK id={} kind=adler what=zero_cont_c init=1 data={} got={}", id, hex(&data), cgot));
        // compressor: P with a sync flush, then the rest
        let mut c = CompressorOxide::new(create_comp_flags_from_zip_params((rep % 10) as i32, 15, 0));
        let mut z = vec![];
        let mut out = vec![0u8; data.len() + 70000];
        let (_, _, n1) = compress(&mut c, &p0, &mut out, TDEFLFlush::Sync); z.extend_from_slice(&out[..n1]);
        ctx.line(&format!("CK id={} kind=adler what=zero_compressor_mid init=1 data={} got={}", id, hex(&p0), c.adler32()));
        let (_, _, n2) = compress(&mut c, &suffix, &mut out, TDEFLFlush::Finish); z.extend_from_slice(&out[..n2]);
        ctx.line(&format!("CK id={} kind=adler what=zero_compressor_end init=1 data={} got={}", id, hex(&data), c.adler32()));
        // decoder: output granted up to |P| on the first call, the rest afterwards
        let mut r = DecompressorOxide::new();
        let mut buf = vec![0u8; data.len() + 16];
        let fl = TINFL_FLAG_PARSE_ZLIB_HEADER | TINFL_FLAG_COMPUTE_ADLER32 | TINFL_FLAG_USING_NON_WRAPPING_OUTPUT_BUF;
        let (st1, c1, w1) = decompress_with_limit(&mut r, &z, &mut buf, 0, p0.len(), fl);
        if w1 == p0.len() { if let Some(a) = r.adler32() { ctx.line(&format!("CK id={} kind=adler what=zero_decoder_mid init=1 data={} got={}", id, hex(&p0), a)); } }
        let (st2, _c2, w2) = decompress_with_limit(&mut r, &z[c1..], &mut buf, w1, usize::MAX, fl);
        if st2 != miniz_oxide::inflate::TINFLStatus::Done || w1 + w2 != data.len() || buf[..data.len()] != data[..] {
            ctx.violation(id, "zero_state", format!("zlib stream cut where the running checksum is 0: statuses {:?} / {:?}, {} + {} of {} bytes", st1, st2, w1, w2, data.len()), format!("CKS in={}", hex(&data)));
        } else if let Some(a) = r.adler32() { ctx.line(&format!("CK id={} kind=adler what=zero_decoder_end init=1 data={} got={}", id, hex(&data), a)); }
    }
}

pub fn run(ctx: &mut Ctx) {
    if let Some(lines) = ctx.replay_lines.clone() {
        for l in lines { if let Some(rest) = l.strip_prefix("CKS ") { let kv = crate::kv(rest); let d = crate::tx::unhex(&kv["in"]); one(ctx, &d, "replay"); running(ctx, &d); }
            if let Some(rest) = l.strip_prefix("CFIELD ") { let kv = crate::kv(rest); let d = crate::tx::unhex(&kv["in"]); let sd: u64 = kv["seed"].parse().unwrap(); c_stream_field_seeded(ctx, &d, kv["level"].parse().unwrap(), kv["ff"] == "1", sd); } }
        return;
    }
    let lens: Vec<usize> = vec![0, 1, 2, 15, 16, 17, 31, 32, 33, 63, 64, 65, 5551, 5552, 5553, 65535, 65536, 65537];
    for &n in &lens {
        let d = ctx.rng.bytes(n); one(ctx, &d, "random");
        let f = vec![0xFFu8; n]; one(ctx, &f, "allff");
    }
    modulus_boundary(ctx);
    zero_state(ctx);
    let big = if ctx.quick() { 300_000 } else { 3_000_000 };
    let f = vec![0xFFu8; big]; one(ctx, &f, "allff_big");
    let d = ctx.rng.bytes(big); one(ctx, &d, "random_big");
    for _ in 0..(40 * ctx.scale) {
        let kind = *ctx.rng.pick(plain::KINDS);
        let n = match ctx.rng.below(3) { 0 => ctx.rng.range(0, 100), 1 => ctx.rng.range(100, 7000), _ => ctx.rng.range(7000, 80000) };
        let d = plain::gen(&mut ctx.rng, kind, n); one(ctx, &d, kind);
    }
    for _ in 0..(12 * ctx.scale) {
        let kind = *ctx.rng.pick(plain::KINDS);
        let n = ctx.rng.range(1, 60000);
        let d = plain::gen(&mut ctx.rng, kind, n); running(ctx, &d);
    }
    for i in 0..(16 * ctx.scale) {
        let kind = *ctx.rng.pick(plain::KINDS);
        let n = if i % 2 == 0 { ctx.rng.range(1, 5000) } else { ctx.rng.range(33000, 120000) };
        let d = plain::gen(&mut ctx.rng, kind, n);
        let lv = ctx.rng.range(0, 9) as i32;
        c_stream_field(ctx, &d, lv, i % 4 == 3);
    }
}
