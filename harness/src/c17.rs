//! C17 — C ABI shim: same results as the Rust API, exact accounting, stays inside buffers.
use crate::plain;
use crate::tx::{fnv, hex, Ctx};
use miniz_oxide::deflate::core::{create_comp_flags_from_zip_params, deflate_flags, CompressorOxide};
use miniz_oxide::deflate::stream::deflate;
use miniz_oxide::inflate::stream::{inflate, InflateState};
use miniz_oxide::{DataFormat, MZFlush};
use miniz_oxide_c_api::*;
use std::io::Write;

/// `len` bytes placed directly against an inaccessible page (after the buffer when `right`,
/// before it otherwise): any access past that edge faults.
pub struct Guarded { base: *mut u8, total: usize, pub ptr: *mut u8, pub len: usize }
impl Guarded {
    pub fn new(len: usize, right: bool, fill: u8) -> Guarded {
        unsafe {
            let page = 4096usize;
            let body = (len + page - 1) / page * page + page; // at least one page so ptr is valid for len 0
            let total = body + page;
            let base = libc::mmap(std::ptr::null_mut(), total, libc::PROT_READ | libc::PROT_WRITE, libc::MAP_PRIVATE | libc::MAP_ANONYMOUS, -1, 0) as *mut u8;
            assert!(base as isize != -1);
            std::ptr::write_bytes(base, fill, total);
            let ptr = if right {
                libc::mprotect(base.add(body) as *mut libc::c_void, page, libc::PROT_NONE);
                base.add(body - len)
            } else {
                libc::mprotect(base as *mut libc::c_void, page, libc::PROT_NONE);
                base.add(page)
            };
            Guarded { base, total, ptr, len }
        }
    }
    pub fn write(&mut self, data: &[u8]) { unsafe { std::ptr::copy_nonoverlapping(data.as_ptr(), self.ptr, data.len()); } }
    pub fn slice(&self) -> &[u8] { unsafe { std::slice::from_raw_parts(self.ptr, self.len) } }
}
impl Drop for Guarded { fn drop(&mut self) { unsafe { libc::munmap(self.base as *mut libc::c_void, self.total); } } }

fn announce(tag: &str) { let mut o = std::io::stdout(); let _ = writeln!(o, "CASE {}", tag); let _ = o.flush(); }

/// mz_deflate under an (avail_in, avail_out) schedule vs the Rust `deflate()` driven identically.
/// one C stream call for the `CCALL` correspondence: the stream fields before and after, the return
/// code, what `try_new` looks at, and the result of the same call on the Rust API
#[allow(clippy::too_many_arguments)]
fn ccall_line(ctx: &mut Ctx, id: usize, kind: &str, pre: (usize, u32, u64, usize, u32, u64), flush: i32, rc: i32, post: (usize, u32, u64, usize, u32, u64), inull: bool, onull: bool, kind_ok: bool, state: bool, rust: (i32, usize, usize)) {
    ctx.count("ccall_lines");
    ctx.line(&format!("CCALL id={} what={} ni={} ai={} ti={} no={} ao={} to={} flush={} rc={} ni2={} ai2={} ti2={} no2={} ao2={} to2={} inull={} onull={} kind={} state={} rst={} rcons={} rwr={}",
        id, kind, pre.0, pre.1, pre.2, pre.3, pre.4, pre.5, flush, rc, post.0, post.1, post.2, post.3, post.4, post.5, inull as u8, onull as u8, kind_ok as u8, state as u8, rust.0, rust.1, rust.2));
}
fn fields(s: &mz_stream) -> (usize, u32, u64, usize, u32, u64) { (s.next_in as usize, s.avail_in, s.total_in as u64, s.next_out as usize, s.avail_out, s.total_out as u64) }

fn deflate_schedule(ctx: &mut Ctx, data: &[u8], level: i32, wb: i32, strategy: i32, seed: u64) {
    let id = ctx.id();
    let replay = format!("CDEFL level={} wb={} strategy={} seed={} in={}", level, wb, strategy, seed, hex(data));
    announce(&replay[..replay.len().min(200)]);
    ctx.eval(fnv(data) ^ seed);
    let mut rng = crate::rng::Rng::new(seed);
    unsafe {
        let mut s = mz_stream::default();
        let rc = mz_deflateInit2(&mut s, level, MZ_DEFLATED, wb, 9, strategy);
        if rc != 0 { ctx.violation(id, "init", format!("mz_deflateInit2 returned {}", rc), replay); return; }
        let flags = deflate_flags::TDEFL_COMPUTE_ADLER32 | create_comp_flags_from_zip_params(level, wb, strategy);
        let mut rust = CompressorOxide::new(flags);
        let mut inb = Guarded::new(data.len(), rng.chance(1, 2), 0x11);
        inb.write(data);
        let mut ipos = 0usize;
        let mut cout: Vec<u8> = vec![]; let mut rout: Vec<u8> = vec![];
        let mut finishing = false;
        for call in 0..200000 {
            let left = data.len() - ipos;
            let ain = if finishing { left } else { match rng.below(4) { 0 => 0, 1 => 1.min(left), 2 => rng.range(0, 300).min(left), _ => left } };
            let aout = *rng.pick(&[1usize, 2, 5, 100, 4000, 100000]);
            if ain == left && rng.chance(1, 2) { finishing = true; }
            let flush = if finishing { 4 } else { *rng.pick(&[0, 0, 0, 1, 2, 3]) };
            let right = rng.chance(1, 2);
            let outb = Guarded::new(aout, right, 0xEE);
            s.next_in = inb.ptr.add(ipos); s.avail_in = ain as u32;
            s.next_out = outb.ptr; s.avail_out = aout as u32;
            let (ti, to) = (s.total_in, s.total_out);
            let (ni, no) = (s.next_in as usize, s.next_out as usize);
            let pre = fields(&s);
            let rc = mz_deflate(&mut s, flush);
            let post = fields(&s);
            let used_in = ain - s.avail_in as usize; let used_out = aout - s.avail_out as usize;
            ctx.count("c_deflate_calls");
            if s.avail_in as usize > ain || s.avail_out as usize > aout { ctx.violation(id, "accounting", format!("call #{}: avail grew", call), replay.clone()); break; }
            if s.next_in as usize - ni != used_in || (s.total_in - ti) as usize != used_in || s.next_out as usize - no != used_out || (s.total_out - to) as usize != used_out {
                ctx.violation(id, "accounting", format!("call #{}: next_in +{} avail_in -{} total_in +{}; next_out +{} avail_out -{} total_out +{}", call, s.next_in as usize - ni, used_in, s.total_in - ti, s.next_out as usize - no, used_out, s.total_out - to), replay.clone()); break;
            }
            cout.extend_from_slice(&outb.slice()[..used_out]);
            // the same call on the Rust API
            let mut ro = vec![0u8; aout];
            let rr = deflate(&mut rust, &data[ipos..ipos + ain], &mut ro, MZFlush::new(flush).unwrap());
            rout.extend_from_slice(&ro[..rr.bytes_written]);
            let rrc = match rr.status { Ok(s) => s as i32, Err(e) => e as i32 };
            ccall_line(ctx, id, "deflate", pre, flush, rc, post, false, false, true, true, (rrc, rr.bytes_consumed, rr.bytes_written));
            if rrc != rc || rr.bytes_consumed != used_in || rr.bytes_written != used_out || ro[..used_out] != outb.slice()[..used_out] {
                ctx.violation(id, "same", format!("call #{} (in {} out {} flush {}): C returned {} ({}/{}), Rust returned {} ({}/{})", call, ain, aout, flush, rc, used_in, used_out, rrc, rr.bytes_consumed, rr.bytes_written), replay.clone()); break;
            }
            if s.adler as u32 != rust.adler32() { ctx.violation(id, "adler", format!("call #{}: stream.adler {} != compressor adler {}", call, s.adler, rust.adler32()), replay.clone()); break; }
            ipos += used_in;
            if rc == 1 { break; }
            if rc < 0 && rc != -5 { ctx.violation(id, "status", format!("call #{}: mz_deflate returned {}", call, rc), replay.clone()); break; }
        }
        mz_deflateEnd(&mut s);
        if !cout.is_empty() { ctx.line(&format!("ENC id={} rp=CDEFL;seed={};inkey=in checks=rt modes=- level={} strategy={} fmt={} wb=15 in={} comp={}", id, seed, level.clamp(0, 10), strategy, (wb > 0) as u8, hex(data), hex(&cout))); }
    }
}

/// mz_inflate under a schedule vs the Rust `inflate()` driven identically.
fn inflate_schedule(ctx: &mut Ctx, z: &[u8], wb: i32, seed: u64, tag: &str) {
    let id = ctx.id();
    let replay = format!("CINFL wb={} seed={} data={}", wb, seed, hex(z));
    announce(&replay[..replay.len().min(200)]);
    ctx.eval(fnv(z) ^ seed);
    ctx.count(&format!("c_inflate_{}", tag));
    let mut rng = crate::rng::Rng::new(seed);
    unsafe {
        let mut s = mz_stream::default();
        let rc = mz_inflateInit2(&mut s, wb);
        if rc != 0 { ctx.violation(id, "init", format!("mz_inflateInit2 returned {}", rc), replay); return; }
        let mut rust = InflateState::new_boxed(DataFormat::from_window_bits(wb));
        let mut inb = Guarded::new(z.len(), rng.chance(1, 2), 0x22);
        inb.write(z);
        let mut ipos = 0usize;
        let mut finishing = false;
        for call in 0..400000 {
            let left = z.len() - ipos;
            let ain = if finishing { left } else { match rng.below(4) { 0 => 0, 1 => 1.min(left), 2 => rng.range(0, 100).min(left), _ => left } };
            let aout = *rng.pick(&[1usize, 3, 64, 3000, 70000]);
            if ain == left && call > 0 && rng.chance(1, 3) { finishing = true; }
            let flush = if finishing { 4 } else { *rng.pick(&[0, 0, 2]) };
            let outb = Guarded::new(aout, rng.chance(1, 2), 0xEE);
            s.next_in = inb.ptr.add(ipos); s.avail_in = ain as u32;
            s.next_out = outb.ptr; s.avail_out = aout as u32;
            let (ti, to) = (s.total_in, s.total_out);
            let (ni, no) = (s.next_in as usize, s.next_out as usize);
            let pre = fields(&s);
            let rc = mz_inflate(&mut s, flush);
            let post = fields(&s);
            ctx.count("c_inflate_calls");
            if s.avail_in as usize > ain || s.avail_out as usize > aout { ctx.violation(id, "accounting", format!("call #{}: avail grew", call), replay.clone()); break; }
            let used_in = ain - s.avail_in as usize; let used_out = aout - s.avail_out as usize;
            if s.next_in as usize - ni != used_in || (s.total_in - ti) as usize != used_in || s.next_out as usize - no != used_out || (s.total_out - to) as usize != used_out {
                ctx.violation(id, "accounting", format!("call #{}: pointer/avail/total disagree", call), replay.clone()); break;
            }
            let mut ro = vec![0u8; aout];
            let rr = inflate(&mut rust, &z[ipos..ipos + ain], &mut ro, MZFlush::new(flush).unwrap());
            let rrc = match rr.status { Ok(s) => s as i32, Err(e) => e as i32 };
            ccall_line(ctx, id, "inflate", pre, flush, rc, post, false, false, true, true, (rrc, rr.bytes_consumed, rr.bytes_written));
            if rrc != rc || rr.bytes_consumed != used_in || rr.bytes_written != used_out || ro[..used_out] != outb.slice()[..used_out] {
                ctx.violation(id, "same", format!("call #{} (in {} out {} flush {}): C returned {} ({}/{}), Rust returned {} ({}/{})", call, ain, aout, flush, rc, used_in, used_out, rrc, rr.bytes_consumed, rr.bytes_written), replay.clone()); break;
            }
            let want_adler = rust.decompressor().adler32().unwrap_or(0);
            if s.adler as u32 != want_adler { ctx.violation(id, "adler", format!("call #{}: stream.adler {} != decoder adler {}", call, s.adler, want_adler), replay.clone()); break; }
            ipos += used_in;
            if rc == 1 || rc < 0 && !(rc == -5 && ipos < z.len()) { break; }
            if rc == -5 && used_in == 0 && used_out == 0 && ain == left && left == 0 { break; }
        }
        mz_inflateEnd(&mut s);
    }
}

fn misuse(ctx: &mut Ctx) {
    let id = ctx.id();
    let replay = "MISUSE".to_string();
    announce("MISUSE");
    ctx.eval(0x4d495355);
    let mut expect = |ctx: &mut Ctx, what: &str, got: i32, want: i32| { ctx.count("misuse_cases"); if got != want { ctx.violation(id, "misuse", format!("{}: returned {}, expected {}", what, got, want), replay.clone()); } };
    unsafe {
        // null stream
        expect(ctx, "mz_deflate(NULL)", mz_deflate(std::ptr::null_mut(), 0), -2);
        expect(ctx, "mz_inflate(NULL)", mz_inflate(std::ptr::null_mut(), 0), -2);
        expect(ctx, "mz_deflateInit(NULL)", mz_deflateInit(std::ptr::null_mut(), 6), -2);
        expect(ctx, "mz_inflateInit(NULL)", mz_inflateInit(std::ptr::null_mut()), -2);
        expect(ctx, "mz_deflateEnd(NULL)", mz_deflateEnd(std::ptr::null_mut()), -2);
        expect(ctx, "mz_inflateEnd(NULL)", mz_inflateEnd(std::ptr::null_mut()), -2);
        expect(ctx, "mz_deflateReset(NULL)", mz_deflateReset(std::ptr::null_mut()), -2);
        // parameter ranges around the legal ones
        for method in [0, 7, 8, 9] { for mem in [0, 1, 9, 10] { for wb in [-16, -15, -14, 0, 14, 15, 16] { for level in [-2, -1, 0, 10, 11, 100] {
            let mut s = mz_stream::default();
            let rc = mz_deflateInit2(&mut s, level, method, wb, mem, 0);
            let ok = method == 8 && (1..=9).contains(&mem) && (wb == 15 || wb == -15);
            expect(ctx, &format!("mz_deflateInit2(level {}, method {}, wb {}, mem {})", level, method, wb, mem), rc, if ok { 0 } else { -10000 });
            if rc == 0 { mz_deflateEnd(&mut s); }
        } } } }
        for wb in [-16, -15, -14, 0, 14, 15, 16] {
            let mut s = mz_stream::default();
            let rc = mz_inflateInit2(&mut s, wb);
            expect(ctx, &format!("mz_inflateInit2(wb {})", wb), rc, if wb == 15 || wb == -15 { 0 } else { -10000 });
            if rc == 0 { mz_inflateEnd(&mut s); }
        }
        // flush values, null buffers, wrong kind, allocators: error code and the stream stays usable
        let data = b"hello hello hello hello";
        let mut out = [0u8; 200];
        let mut s = mz_stream::default();
        mz_deflateInit(&mut s, 6);
        for f in [-1, 5, 6, 100] {
            s.next_in = data.as_ptr(); s.avail_in = data.len() as u32; s.next_out = out.as_mut_ptr(); s.avail_out = 200;
            let pre = fields(&s); let rc = mz_deflate(&mut s, f); let post = fields(&s);
            ccall_line(ctx, id, "misuse_flush", pre, f, rc, post, false, false, true, true, (0, 0, 0));
            expect(ctx, &format!("mz_deflate(flush {})", f), rc, -10000);
            if s.avail_in != data.len() as u32 || s.avail_out != 200 || s.total_in != 0 { ctx.violation(id, "misuse", format!("mz_deflate(flush {}) moved the counters", f), replay.clone()); }
        }
        // NULL pointers, with a non-zero length left in the field: the length is written back as 0
        for (k, ai) in [(0u32, 0u32), (1, 7)] {
            let _ = k;
            s.next_in = std::ptr::null(); s.avail_in = ai; s.next_out = out.as_mut_ptr(); s.avail_out = 200;
            let pre = fields(&s); let rc = mz_deflate(&mut s, 0); let post = fields(&s);
            ccall_line(ctx, id, "misuse_null_in", pre, 0, rc, post, true, false, true, true, (0, 0, 0));
            expect(ctx, "mz_deflate(null next_in)", rc, -2);
            s.next_in = data.as_ptr(); s.avail_in = data.len() as u32; s.next_out = std::ptr::null_mut(); s.avail_out = ai;
            let pre = fields(&s); let rc = mz_deflate(&mut s, 0); let post = fields(&s);
            ccall_line(ctx, id, "misuse_null_out", pre, 0, rc, post, false, true, true, true, (0, 0, 0));
            expect(ctx, "mz_deflate(null next_out)", rc, -2);
        }
        s.next_in = data.as_ptr(); s.avail_in = data.len() as u32;
        s.next_out = out.as_mut_ptr(); s.avail_out = 200;
        let pre = fields(&s); let rc = mz_inflate(&mut s, 0); let post = fields(&s);
        ccall_line(ctx, id, "misuse_kind", pre, 0, rc, post, false, false, false, true, (0, 0, 0));
        expect(ctx, "mz_inflate(on a deflate stream)", rc, -10000);
        expect(ctx, "mz_inflateEnd(on a deflate stream)", mz_inflateEnd(&mut s), -10000);
        unsafe extern "C" fn za(_: *mut libc::c_void, _: usize, _: usize) -> *mut libc::c_void { std::ptr::null_mut() }
        s.zalloc = Some(za);
        expect(ctx, "mz_deflate(custom allocator set)", mz_deflate(&mut s, 0), -10000);
        s.zalloc = None;
        // after all that misuse the stream still works and produces a valid stream
        s.next_in = data.as_ptr(); s.avail_in = data.len() as u32; s.next_out = out.as_mut_ptr(); s.avail_out = 200;
        let rc = mz_deflate(&mut s, 4);
        expect(ctx, "mz_deflate(MZ_FINISH) after misuse", rc, 1);
        let n = s.total_out as usize;
        mz_deflateEnd(&mut s);
        ctx.line(&format!("ENC id={} rp=MISUSE checks=rt modes=- level=6 strategy=0 fmt=1 wb=15 in={} comp={}", id, hex(data), hex(&out[..n])));
        let mut si = mz_stream::default();
        mz_inflateInit(&mut si);
        expect(ctx, "mz_deflate(on an inflate stream)", mz_deflate(&mut si, 0), -10000);
        si.next_in = out.as_ptr(); si.avail_in = n as u32; let mut o2 = [0u8; 100]; si.next_out = o2.as_mut_ptr(); si.avail_out = 100;
        for f in [-1, 5, 9] { expect(ctx, &format!("mz_inflate(flush {})", f), mz_inflate(&mut si, f), -10000); }
        expect(ctx, "mz_inflate(MZ_FULL_FLUSH)", mz_inflate(&mut si, 3), -2);
        expect(ctx, "mz_inflate(MZ_FINISH) after misuse", mz_inflate(&mut si, 4), 1);
        if &o2[..si.total_out as usize] != &data[..] { ctx.violation(id, "misuse", "inflate after misuse produced wrong data".into(), replay.clone()); }
        mz_inflateEnd(&mut si);
        // one-call helpers: null length pointers, oversized lengths
        expect(ctx, "mz_compress2(null dest_len)", mz_compress2(out.as_mut_ptr(), std::ptr::null_mut(), data.as_ptr(), data.len() as _, 6), -10000);
        expect(ctx, "mz_uncompress(null dest_len)", mz_uncompress(out.as_mut_ptr(), std::ptr::null_mut(), data.as_ptr(), data.len() as _), -10000);
        let mut dl: libc::c_ulong = 1 << 33;
        expect(ctx, "mz_compress2(dest_len > 4 GiB)", mz_compress2(out.as_mut_ptr(), &mut dl, data.as_ptr(), data.len() as _, 6), -10000);
        // tinfl: null decompressor
        let mut isz = 0usize; let mut osz = 10usize; let mut ob = [0u8; 10];
        expect(ctx, "tinfl_decompress(NULL decompressor)", tinfl_decompress(std::ptr::null_mut(), data.as_ptr(), &mut isz, ob.as_mut_ptr(), ob.as_mut_ptr(), &mut osz, 0), -3);
        expect(ctx, "mz_adler32(NULL) == 1", mz_adler32(77, std::ptr::null(), 5) as i32, 1);
        expect(ctx, "mz_crc32(NULL) == 0", mz_crc32(77, std::ptr::null(), 5) as i32, 0);
    }
}

/// one-call C helpers against the Rust API, buffers against guard pages
fn oneshot(ctx: &mut Ctx, data: &[u8], level: i32) {
    let id = ctx.id();
    let replay = format!("CONE level={} in={}", level, hex(data));
    announce(&replay[..replay.len().min(200)]);
    ctx.eval(fnv(data) ^ 0x31 ^ level as u64);
    unsafe {
        let bound = mz_compressBound(data.len() as _) as usize;
        let mut inb = Guarded::new(data.len(), true, 0x33); inb.write(data);
        let outb = Guarded::new(bound, true, 0xEE);
        let mut dl = bound as libc::c_ulong;
        let rc = mz_compress2(outb.ptr, &mut dl, inb.ptr, data.len() as _, level);
        if rc != 0 { ctx.violation(id, "compress2", format!("mz_compress2 returned {}", rc), replay.clone()); return; }
        let z = outb.slice()[..dl as usize].to_vec();
        let lvl = if level < 0 { 6 } else { level.min(10) as u8 };
        // the corresponding Rust call: a compressor with the flags mz_deflateInit builds, finished in one call
        let rz = {
            let mut c = CompressorOxide::new(deflate_flags::TDEFL_COMPUTE_ADLER32 | create_comp_flags_from_zip_params(level, 15, 0));
            let mut o = vec![0u8; bound];
            let r = deflate(&mut c, data, &mut o, MZFlush::Finish);
            o.truncate(r.bytes_written); o
        };
        if rz != z { ctx.violation(id, "same", format!("mz_compress2(level {}) gives {} bytes, compress_to_vec_zlib gives {} bytes or different content", level, z.len(), rz.len()), replay.clone()); }
        ctx.line(&format!("ENC id={} rp=CONE checks=rt modes=- level={} strategy=0 fmt=1 wb=15 in={} comp={}", id, lvl, hex(data), hex(&z)));
        // uncompress with an exactly sized destination against a guard page
        let mut zin = Guarded::new(z.len(), true, 0x44); zin.write(&z);
        let dst = Guarded::new(data.len(), true, 0xEE);
        let mut dl2 = data.len() as libc::c_ulong;
        let rc = mz_uncompress(dst.ptr, &mut dl2, zin.ptr, z.len() as _);
        if rc != 0 || dl2 as usize != data.len() || dst.slice() != data { ctx.violation(id, "uncompress", format!("mz_uncompress returned {} with {} bytes", rc, dl2), replay.clone()); }
        // too small: buffer error, nothing outside
        if data.len() > 1 {
            let small = Guarded::new(data.len() - 1, true, 0xEE);
            let mut dl3 = (data.len() - 1) as libc::c_ulong;
            let rc = mz_uncompress(small.ptr, &mut dl3, zin.ptr, z.len() as _);
            if rc == 0 { ctx.violation(id, "uncompress", "mz_uncompress succeeded with a destination one byte too small".into(), replay.clone()); }
        }
        // tinfl helpers
        let dst2 = Guarded::new(data.len(), true, 0xEE);
        let n = tinfl_decompress_mem_to_mem(dst2.ptr as *mut libc::c_void, data.len(), zin.ptr as *const libc::c_void, z.len(), 1);
        if n != data.len() || dst2.slice() != data { ctx.violation(id, "tinfl", format!("tinfl_decompress_mem_to_mem returned {}", n), replay.clone()); }
        let mut hl = 0usize;
        let hp = tinfl_decompress_mem_to_heap(zin.ptr as *const libc::c_void, z.len(), &mut hl, 1);
        if hp.is_null() || hl != data.len() || std::slice::from_raw_parts(hp as *const u8, hl) != data { ctx.violation(id, "tinfl", format!("tinfl_decompress_mem_to_heap returned {} bytes", hl), replay.clone()); }
        if !hp.is_null() { libc::free(hp); }
        let flags = tdefl_create_comp_flags_from_zip_params(lvl as i32, 15, 0) as i32;
        let rz2 = miniz_oxide::deflate::compress_to_vec_zlib(data, lvl);
        let mut tl = 0usize;
        let tp = tdefl_compress_mem_to_heap(inb.ptr as *const libc::c_void, data.len(), &mut tl, flags);
        if tp.is_null() { ctx.violation(id, "tdefl", "tdefl_compress_mem_to_heap returned NULL".into(), replay.clone()); }
        else { let tz = std::slice::from_raw_parts(tp as *const u8, tl).to_vec(); libc::free(tp);
            if tz != rz2 { ctx.violation(id, "same", format!("tdefl_compress_mem_to_heap gives {} bytes, Rust API {}", tz.len(), rz2.len()), replay.clone()); } }
        let mo = Guarded::new(bound, true, 0xEE);
        let mn = tdefl_compress_mem_to_mem(mo.ptr as *mut libc::c_void, bound, inb.ptr as *const libc::c_void, data.len(), flags);
        if mn != rz2.len() || mo.slice()[..mn] != rz2[..] { ctx.violation(id, "same", format!("tdefl_compress_mem_to_mem returned {}", mn), replay.clone()); }
    }
}

// exported C symbols that the crate does not re-export to Rust users
extern "C" {
    fn tinfl_decompressor_alloc() -> *mut tinfl_decompressor;
    fn tinfl_decompressor_free(c: *mut tinfl_decompressor);
    fn tinfl_init(c: *mut tinfl_decompressor);
    fn tinfl_get_adler32(c: *mut tinfl_decompressor) -> libc::c_int;
}

/// The low-level exports (`tinfl_*`, `tdefl_*`) against the Rust calls they wrap: an allocated
/// decompressor / compressor object driven under a schedule, sizes passed by pointer, the callback
/// sink, the accessors; buffers against guard pages.
fn lowlevel(ctx: &mut Ctx, data: &[u8], level: i32, seed: u64) {
    use miniz_oxide::deflate::core::{compress, compress_to_output, CompressorOxide, TDEFLFlush, TDEFLStatus};
    use miniz_oxide::inflate::core::{decompress, DecompressorOxide};
    let id = ctx.id();
    let replay = format!("CLOW level={} seed={} in={}", level, seed, hex(data));
    announce(&replay[..replay.len().min(200)]);
    ctx.eval(fnv(data) ^ seed ^ 0x10e);
    ctx.count("lowlevel_cases");
    let mut rng = crate::rng::Rng::new(seed);
    let flags = tdefl_create_comp_flags_from_zip_params(level, 15, 0);
    unsafe {
        // ---- tdefl object: tdefl_compress into caller buffers under a schedule
        let d = tdefl_allocate();
        if d.is_null() { ctx.violation(id, "tdefl", "tdefl_allocate returned NULL".into(), replay); return; }
        if tdefl_get_prev_return_status(d.as_mut()) as i32 != -2 { ctx.violation(id, "tdefl", "prev_return_status of an uninitialised compressor is not BAD_PARAM".into(), replay.clone()); }
        let rc = tdefl_init(d.as_mut(), None, std::ptr::null_mut(), flags as i32) as i32;
        if rc != 0 { ctx.violation(id, "tdefl", format!("tdefl_init returned {}", rc), replay.clone()); }
        let mut rust = CompressorOxide::new(flags);
        let mut inb = Guarded::new(data.len(), rng.chance(1, 2), 0x33);
        inb.write(data);
        let mut ipos = 0usize; let mut cz: Vec<u8> = vec![];
        let mut done = false;
        for call in 0..200000 {
            let left = data.len() - ipos;
            let ain = match rng.below(3) { 0 => rng.range(0, 40).min(left), 1 => rng.range(0, 5000).min(left), _ => left };
            let aout = *rng.pick(&[1usize, 5, 100, 4000, 70000]);
            let fl = if ain == left && rng.chance(1, 2) { 4 } else { *rng.pick(&[0, 0, 2, 3]) };
            let cfl = match fl { 0 => tdefl_flush::TDEFL_NO_FLUSH, 2 => tdefl_flush::TDEFL_SYNC_FLUSH, 3 => tdefl_flush::TDEFL_FULL_FLUSH, _ => tdefl_flush::TDEFL_FINISH };
            let rfl = match fl { 0 => TDEFLFlush::None, 2 => TDEFLFlush::Sync, 3 => TDEFLFlush::Full, _ => TDEFLFlush::Finish };
            let outb = Guarded::new(aout, rng.chance(1, 2), 0xEE);
            let (mut isz, mut osz) = (ain, aout);
            let rc = tdefl_compress(d.as_mut(), inb.ptr.add(ipos) as *const libc::c_void, Some(&mut isz), outb.ptr as *mut libc::c_void, Some(&mut osz), cfl) as i32;
            ctx.count("tdefl_compress_calls");
            let mut ro = vec![0u8; aout];
            let (rs, ri, rw) = compress(&mut rust, &data[ipos..ipos + ain], &mut ro, rfl);
            if rc != rs as i32 || isz != ri || osz != rw || (osz <= aout && ro[..rw.min(aout)] != outb.slice()[..osz.min(aout)]) {
                ctx.violation(id, "same", format!("tdefl_compress call #{} (in {} out {} flush {}): C ({}, {}, {}) vs Rust ({}, {}, {})", call, ain, aout, fl, rc, isz, osz, rs as i32, ri, rw), replay.clone()); break;
            }
            if tdefl_get_prev_return_status(d.as_mut()) as i32 != rust.prev_return_status() as i32 { ctx.violation(id, "same", format!("call #{}: tdefl_get_prev_return_status differs", call), replay.clone()); break; }
            if tdefl_get_adler32(d.as_mut()) != rust.adler32() { ctx.violation(id, "same", format!("call #{}: tdefl_get_adler32 {} vs {}", call, tdefl_get_adler32(d.as_mut()), rust.adler32()), replay.clone()); break; }
            cz.extend_from_slice(&outb.slice()[..osz]); ipos += isz;
            if rs == TDEFLStatus::Done { done = true; break; }
            if rs != TDEFLStatus::Okay { break; }
        }
        tdefl_deallocate(d);
        if done { ctx.line(&format!("ENC id={} rp=CLOW;level={};seed={};inkey=in checks=rt modes=- level={} strategy=0 fmt=1 wb=15 in={} comp={}", id, level, seed, level.clamp(0, 10), hex(data), hex(&cz))); }

        // ---- tdefl object with a callback sink: tdefl_compress_buffer / tdefl_compress_mem_to_output
        struct Sink { out: Vec<u8>, calls: usize, fail_at: usize }
        unsafe extern "C" fn put(buf: *const libc::c_void, len: libc::c_int, user: *mut libc::c_void) -> i32 {
            let s = &mut *(user as *mut Sink);
            s.calls += 1;
            if s.calls == s.fail_at { return 0; }
            s.out.extend_from_slice(std::slice::from_raw_parts(buf as *const u8, len as usize)); 1
        }
        let mut want: Vec<u8> = vec![];
        let mut rust2 = CompressorOxide::new(flags);
        let (rs2, _) = compress_to_output(&mut rust2, data, TDEFLFlush::Finish, |b| { want.extend_from_slice(b); true });
        let mut sink = Sink { out: vec![], calls: 0, fail_at: 0 };
        let ok = tdefl_compress_mem_to_output(inb.ptr as *const libc::c_void, data.len(), Some(put), &mut sink as *mut Sink as *mut libc::c_void, flags as i32);
        ctx.count("tdefl_mem_to_output");
        if (ok != 0) != (rs2 == TDEFLStatus::Done) || sink.out != want { ctx.violation(id, "same", format!("tdefl_compress_mem_to_output: returned {}, {} bytes; Rust compress_to_output {:?}, {} bytes", ok, sink.out.len(), rs2, want.len()), replay.clone()); }
        // a sink that refuses the k-th buffer: failure reported, nothing after the refusal
        if sink.calls > 0 {
            let k = 1 + rng.below(sink.calls);
            let mut s2 = Sink { out: vec![], calls: 0, fail_at: k };
            let ok2 = tdefl_compress_mem_to_output(inb.ptr as *const libc::c_void, data.len(), Some(put), &mut s2 as *mut Sink as *mut libc::c_void, flags as i32);
            if ok2 != 0 || s2.calls != k || s2.out[..] != want[..s2.out.len()] { ctx.violation(id, "callback", format!("sink refusing buffer {}: returned {}, {} calls, prefix ok = {}", k, ok2, s2.calls, s2.out[..] == want[..s2.out.len().min(want.len())]), replay.clone()); }
        }
        if tdefl_compress_mem_to_output(inb.ptr as *const libc::c_void, data.len(), None, std::ptr::null_mut(), flags as i32) != 0 { ctx.violation(id, "misuse", "tdefl_compress_mem_to_output without a callback reported success".into(), replay.clone()); }
        // object + callback + tdefl_compress_buffer in pieces
        let d2 = tdefl_allocate();
        let mut s3 = Sink { out: vec![], calls: 0, fail_at: 0 };
        tdefl_init(d2.as_mut(), Some(put), &mut s3 as *mut Sink as *mut libc::c_void, flags as i32);
        let cut = rng.range(0, data.len());
        let r1 = tdefl_compress_buffer(d2.as_mut(), inb.ptr as *const libc::c_void, cut, tdefl_flush::TDEFL_NO_FLUSH) as i32;
        let r2 = tdefl_compress_buffer(d2.as_mut(), inb.ptr.add(cut) as *const libc::c_void, data.len() - cut, tdefl_flush::TDEFL_FINISH) as i32;
        tdefl_deallocate(d2);
        ctx.count("tdefl_compress_buffer");
        if r1 != 0 || r2 != 1 { ctx.violation(id, "tdefl", format!("tdefl_compress_buffer returned {} then {}", r1, r2), replay.clone()); }
        else { ctx.line(&format!("ENC id={} rp=CLOW;level={};seed={};inkey=in checks=rt modes=- level={} strategy=0 fmt=1 wb=15 in={} comp={}", id, level, seed, level.clamp(0, 10), hex(data), hex(&s3.out))); }

        // ---- tinfl object: tinfl_decompress under a schedule, flat buffer, sizes by pointer
        let z = miniz_oxide::deflate::compress_to_vec_zlib(data, 6);
        let mut zin = Guarded::new(z.len(), rng.chance(1, 2), 0x44);
        zin.write(&z);
        let r = tinfl_decompressor_alloc();
        tinfl_init(r);
        let mut rr = DecompressorOxide::new();
        let cap = data.len() + rng.range(0, 300);
        let outb = Guarded::new(cap, rng.chance(1, 2), 0xEE);
        let mut ro = vec![0xEEu8; cap];
        let (mut ip, mut op) = (0usize, 0usize);
        for call in 0..400000 {
            let left = z.len() - ip;
            let ain = match rng.below(3) { 0 => rng.range(0, 3).min(left), 1 => rng.range(0, 300).min(left), _ => left };
            let fl: u32 = 1 | 4 | if ip + ain < z.len() { 2 } else { 0 } | if rng.chance(1, 3) { 8 } else { 0 };
            let (mut isz, mut osz) = (ain, cap - op);
            let rc = tinfl_decompress(r, zin.ptr.add(ip), &mut isz, outb.ptr, outb.ptr.add(op), &mut osz, fl);
            ctx.count("tinfl_decompress_calls");
            let (rs, ri, rw) = decompress(&mut rr, &z[ip..ip + ain], &mut ro, op, fl);
            if rc != rs as i32 || isz != ri || osz != rw || ro[..] != outb.slice()[..] {
                ctx.violation(id, "same", format!("tinfl_decompress call #{} (in {} at out {}): C ({}, {}, {}) vs Rust ({}, {}, {})", call, ain, op, rc, isz, osz, rs as i32, ri, rw), replay.clone()); break;
            }
            let ca = tinfl_get_adler32(r) as u32; let ra = rr.adler32().unwrap_or(0);
            if ca != ra { ctx.violation(id, "same", format!("call #{}: tinfl_get_adler32 {} vs {}", call, ca, ra), replay.clone()); break; }
            ip += isz; op += osz;
            if rc != 1 && rc != 2 { break; }
            if rc == 2 && op == cap { break; }
            if rc == 1 && ip == z.len() && ain == left { break; }
        }
        // tinfl_init on a used object: as good as new
        tinfl_init(r);
        let (mut isz, mut osz) = (z.len(), cap);
        let rc = tinfl_decompress(r, zin.ptr, &mut isz, outb.ptr, outb.ptr, &mut osz, 1 | 4);
        if rc != 0 || osz != data.len() || outb.slice()[..osz] != data[..] { ctx.violation(id, "tinfl", format!("after tinfl_init: one call returned {} with {} bytes", rc, osz), replay.clone()); }
        tinfl_decompressor_free(r);
        tinfl_decompressor_free(std::ptr::null_mut());
        tdefl_deallocate(std::ptr::null_mut());
        // too small a destination for the one-call helper: the failure value, nothing outside the buffer
        if data.len() > 1 {
            let small = Guarded::new(data.len() - 1, rng.chance(1, 2), 0xEE);
            let n = tinfl_decompress_mem_to_mem(small.ptr as *mut libc::c_void, data.len() - 1, zin.ptr as *const libc::c_void, z.len(), 1);
            if n != usize::MAX { ctx.violation(id, "tinfl", format!("tinfl_decompress_mem_to_mem into a short buffer returned {}", n), replay.clone()); }
        }
        // heap helper on a corrupt stream: NULL and length 0
        let (m, _) = crate::sgen::mutate(&mut rng, &z);
        let want_ok = miniz_oxide::inflate::decompress_to_vec_zlib(&m);
        let mut mg = Guarded::new(m.len(), rng.chance(1, 2), 0x55); mg.write(&m);
        let mut hl = 77usize;
        let hp = tinfl_decompress_mem_to_heap(mg.ptr as *const libc::c_void, m.len(), &mut hl, 1);
        match (&want_ok, hp.is_null()) {
            (Ok(v), false) => { if hl != v.len() || std::slice::from_raw_parts(hp as *const u8, hl) != &v[..] { ctx.violation(id, "same", "tinfl_decompress_mem_to_heap differs from decompress_to_vec_zlib".into(), replay.clone()); } }
            (Err(_), true) => { if hl != 0 { ctx.violation(id, "tinfl", format!("tinfl_decompress_mem_to_heap failed but left length {}", hl), replay.clone()); } }
            (Ok(_), true) => ctx.violation(id, "same", "tinfl_decompress_mem_to_heap failed where decompress_to_vec_zlib succeeds".into(), replay.clone()),
            (Err(_), false) => ctx.violation(id, "same", "tinfl_decompress_mem_to_heap succeeded where decompress_to_vec_zlib fails".into(), replay.clone()),
        }
        if !hp.is_null() { miniz_def_free_func(std::ptr::null_mut(), hp); }
    }
}

pub fn run(ctx: &mut Ctx) {
    if let Some(lines) = ctx.replay_lines.clone() {
        for l in lines {
            let (tag, rest) = l.split_once(' ').unwrap_or((l.as_str(), ""));
            let kv = crate::kv(rest);
            match tag {
                "CDEFL" => deflate_schedule(ctx, &crate::tx::unhex(&kv["in"]), kv["level"].parse().unwrap(), kv.get("wb").map(|x| x.parse().unwrap()).unwrap_or(15), kv["strategy"].parse().unwrap(), kv["seed"].parse().unwrap()),
                "CINFL" => inflate_schedule(ctx, &crate::tx::unhex(&kv["data"]), kv["wb"].parse().unwrap(), kv["seed"].parse().unwrap(), "replay"),
                "CONE" => oneshot(ctx, &crate::tx::unhex(&kv["in"]), kv["level"].parse().unwrap()),
                "MISUSE" => misuse(ctx),
                "CLOW" => lowlevel(ctx, &crate::tx::unhex(&kv["in"]), kv["level"].parse().unwrap(), kv["seed"].parse().unwrap()),
                _ => {}
            }
        }
        return;
    }
    misuse(ctx);
    for _ in 0..(60 * ctx.scale) {
        let kind = *ctx.rng.pick(plain::KINDS);
        let n = match ctx.rng.below(3) { 0 => ctx.rng.range(0, 40), 1 => ctx.rng.range(40, 5000), _ => ctx.rng.range(5000, 90000) };
        let data = plain::gen(&mut ctx.rng, kind, n);
        let level = ctx.rng.range(0, 11) as i32 - 1;
        let wb = if ctx.rng.chance(1, 2) { 15 } else { -15 };
        let strategy = ctx.rng.below(5) as i32;
        let seed = ctx.rng.next();
        deflate_schedule(ctx, &data, level, wb, strategy, seed);
        // inflate what the Rust API compressed, plus corrupted and truncated variants
        let z = if wb > 0 { miniz_oxide::deflate::compress_to_vec_zlib(&data, 6) } else { miniz_oxide::deflate::compress_to_vec(&data, 6) };
        let seed = ctx.rng.next();
        inflate_schedule(ctx, &z, wb, seed, "valid");
        let (m, _) = crate::sgen::mutate(&mut ctx.rng, &z);
        inflate_schedule(ctx, &m, wb, seed ^ 1, "mutated");
        let mut t = z.clone(); t.extend(ctx.rng.bytes(7));
        inflate_schedule(ctx, &t, wb, seed ^ 2, "trailing");
    }
    for _ in 0..(40 * ctx.scale) {
        let kind = *ctx.rng.pick(plain::KINDS);
        let n = match ctx.rng.below(3) { 0 => ctx.rng.range(0, 40), 1 => ctx.rng.range(40, 5000), _ => ctx.rng.range(5000, 120000) };
        let data = plain::gen(&mut ctx.rng, kind, n);
        let level = ctx.rng.range(0, 11) as i32 - 1;
        oneshot(ctx, &data, level);
    }
    for _ in 0..(30 * ctx.scale) {
        let kind = *ctx.rng.pick(plain::KINDS);
        let n = match ctx.rng.below(3) { 0 => ctx.rng.range(0, 40), 1 => ctx.rng.range(40, 5000), _ => ctx.rng.range(5000, 150000) };
        let data = plain::gen(&mut ctx.rng, kind, n);
        let level = ctx.rng.range(0, 10) as i32;
        let seed = ctx.rng.next();
        lowlevel(ctx, &data, level, seed);
    }
    ctx.sample("mz_deflate/mz_inflate under random (avail_in, avail_out, flush) schedules with input and output placed against PROT_NONE pages, compared call by call with deflate()/inflate() of the Rust API".into());
}
