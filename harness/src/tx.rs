//! Transcript writer and run context.
use crate::rng::Rng;
use std::collections::BTreeMap;
use std::fmt::Write as _;
use std::io::Write;

pub fn hex(b: &[u8]) -> String {
    if b.is_empty() { return "-".into(); }
    let mut s = String::with_capacity(b.len() * 2);
    const H: &[u8; 16] = b"0123456789abcdef";
    for &x in b { s.push(H[(x >> 4) as usize] as char); s.push(H[(x & 15) as usize] as char); }
    s
}
pub fn unhex(s: &str) -> Vec<u8> {
    if s == "-" { return vec![]; }
    let b = s.as_bytes();
    (0..b.len() / 2).map(|i| {
        let h = |c: u8| match c { b'0'..=b'9' => c - b'0', b'a'..=b'f' => c - b'a' + 10, b'A'..=b'F' => c - b'A' + 10, _ => 0 };
        h(b[2 * i]) * 16 + h(b[2 * i + 1])
    }).collect()
}

pub struct Ctx {
    pub prop: String,
    pub tier: String,
    pub seed: u64,
    pub rng: Rng,
    pub out: std::io::BufWriter<std::fs::File>,
    pub next_id: usize,
    /// native (harness-side) oracle failures: (id, clause, message, replay line)
    pub viol: Vec<(usize, String, String, String)>,
    pub counters: BTreeMap<String, u64>,
    pub samples: Vec<String>,
    pub evals: u64,
    pub nontrivial: std::collections::BTreeSet<u64>,
    pub scale: usize,
    pub replay_lines: Option<Vec<String>>,
}

impl Ctx {
    pub fn quick(&self) -> bool { self.tier != "thorough" }
    pub fn id(&mut self) -> usize { self.next_id += 1; self.next_id }
    pub fn line(&mut self, s: &str) { self.out.write_all(s.as_bytes()).unwrap(); self.out.write_all(b"\n").unwrap(); }
    pub fn count(&mut self, k: &str) { *self.counters.entry(k.to_string()).or_insert(0) += 1; }
    pub fn count_n(&mut self, k: &str, n: u64) { *self.counters.entry(k.to_string()).or_insert(0) += n; }
    pub fn sample(&mut self, s: String) { if self.samples.len() < 6 { let mut t = s; if t.len() > 400 { t.truncate(400); t.push_str("…"); } self.samples.push(t); } }
    /// record one evaluated case; `key` identifies distinct non-trivial cases (0 = trivial)
    pub fn eval(&mut self, key: u64) { self.evals += 1; if key != 0 { self.nontrivial.insert(key); } }
    pub fn violation(&mut self, id: usize, clause: &str, msg: String, replay: String) {
        if self.viol.len() < 50 { self.viol.push((id, clause.to_string(), msg, replay)); }
    }
    pub fn write_result(&mut self, path: &str) {
        self.out.flush().unwrap();
        let mut s = String::new();
        s.push_str("{\n");
        write!(s, "  \"prop\": \"{}\", \"tier\": \"{}\", \"seed\": {},\n", self.prop, self.tier, self.seed).unwrap();
        write!(s, "  \"evaluations\": {}, \"distinct_nontrivial\": {},\n", self.evals, self.nontrivial.len()).unwrap();
        s.push_str("  \"counters\": {");
        let mut first = true;
        for (k, v) in &self.counters { if !first { s.push_str(", "); } first = false; write!(s, "\"{}\": {}", esc(k), v).unwrap(); }
        s.push_str("},\n  \"samples\": [");
        for (i, x) in self.samples.iter().enumerate() { if i > 0 { s.push_str(", "); } write!(s, "\"{}\"", esc(x)).unwrap(); }
        s.push_str("],\n  \"violations\": [");
        for (i, (id, c, m, r)) in self.viol.iter().enumerate() {
            if i > 0 { s.push_str(", "); }
            write!(s, "{{\"id\": {}, \"clause\": \"{}\", \"msg\": \"{}\", \"replay\": \"{}\"}}", id, esc(c), esc(m), esc(r)).unwrap();
        }
        s.push_str("]\n}\n");
        std::fs::write(path, s).unwrap();
    }
}
pub fn esc(s: &str) -> String { s.replace('\\', "\\\\").replace('"', "\\\"").replace('\n', "\\n") }

pub fn fnv(data: &[u8]) -> u64 { let mut h = 0xcbf29ce484222325u64; for &b in data { h ^= b as u64; h = h.wrapping_mul(0x100000001b3); } h | 1 }
