//! Correspondence / oracle harness: runs the real miniz_oxide code in-process on generated
//! inputs and call schedules and writes a transcript for the Lean driver (`mzdriver check`).
//! usage: mzharness <prop> <tier> <seed> <transcript> <result.json> [replay-file]
mod rng; mod plain; mod sgen; mod tx;
mod comp; mod dec; mod eps;
mod c01; mod c02; mod c03; mod c08; mod c13; mod c14; mod c17; mod c18; mod c19; mod c20; mod c09; mod c10; mod c11; mod c12; mod c15; mod c16;

use tx::Ctx;

/// parse `k=v k=v` into a map
pub fn kv(s: &str) -> std::collections::HashMap<String, String> {
    s.split_whitespace().filter_map(|f| f.split_once('=')).map(|(k, v)| (k.to_string(), v.to_string())).collect()
}

fn main() {
    let a: Vec<String> = std::env::args().collect();
    if a.len() < 6 { eprintln!("usage: mzharness <prop> <tier> <seed> <transcript> <result.json> [replay]"); std::process::exit(2); }
    let seed: u64 = a[3].parse().unwrap_or(1);
    let replay_lines = a.get(6).map(|p| std::fs::read_to_string(p).unwrap().lines().map(|s| s.to_string()).collect());
    let mut ctx = Ctx {
        prop: a[1].clone(), tier: a[2].clone(), seed, rng: rng::Rng::new(seed ^ tx::fnv(a[1].as_bytes())),
        out: std::io::BufWriter::with_capacity(1 << 20, std::fs::File::create(&a[4]).unwrap()),
        next_id: 0, viol: vec![], counters: Default::default(), samples: vec![], evals: 0,
        nontrivial: Default::default(), scale: std::env::var("VERIF_SCALE").ok().and_then(|s| s.parse().ok()).unwrap_or(1) * if a[2] == "thorough" { 10 } else { 1 }, replay_lines,
    };
    if std::env::var("VERIF_TRACE_PANIC").is_ok() { std::panic::set_hook(Box::new(|i| { eprintln!("PANIC {}", i); })); } else { std::panic::set_hook(Box::new(|_| {})); }
    match a[1].as_str() {
        "C01" => c01::run(&mut ctx),
        "C02" => c02::run(&mut ctx),
        "C03" => c03::run(&mut ctx),
        "C04" => c03::run_c04(&mut ctx),
        "C05" => c08::run_c05(&mut ctx),
        "C06" => c03::run_c06(&mut ctx),
        "C07" => c03::run_c07(&mut ctx),
        "C08" => c08::run_c08(&mut ctx),
        "C09" => c09::run(&mut ctx),
        "C10" => c10::run(&mut ctx),
        "C11" => c11::run(&mut ctx),
        "C12" => c12::run(&mut ctx),
        "C13" => c13::run(&mut ctx),
        "C14" => c14::run(&mut ctx),
        "C15" => c15::run(&mut ctx),
        "C17" => c17::run(&mut ctx),
        "C18" => c18::run(&mut ctx),
        "C19" => c19::run(&mut ctx),
        "C20" => c20::run(&mut ctx),
        "C16" => c16::run(&mut ctx),
        p => { eprintln!("unknown property {}", p); std::process::exit(2); }
    }
    ctx.write_result(&a[5]);
}
