//! Decoder entry points (C03/C04/C06/C07): run one stream through each and report
//! (status, output, consumed) in a common shape.
use crate::dec::*;
use crate::rng::Rng;
use miniz_oxide::inflate::core::DecompressorOxide;
use miniz_oxide::inflate::stream::{inflate, InflateState};
use miniz_oxide::inflate::{decompress_slice_iter_to_slice, decompress_to_vec_with_limit, decompress_to_vec_zlib_with_limit, TINFLStatus};
use miniz_oxide::{DataFormat, MZError, MZFlush, MZStatus};
use std::panic::{catch_unwind, AssertUnwindSafe};

pub struct EpRes { pub ep: String, pub st: i32, pub out: Vec<u8>, pub consumed: i64, pub has_more: bool, pub problems: Vec<(String, String)>, pub suspensions: Vec<(u8, i32)> }

/// the inner calls of the last `ep_vec` on this thread, as a `VECI` transcript line (without id / replay key)
pub fn take_vec_line(z_len: usize, limit: usize, r: &EpRes) -> String {
    let t = miniz_oxide::verif_vec_trace::take();
    let v: Vec<String> = t.iter().filter(|e| e[0] == 1).map(|e| format!("{}:{}:{}:{}:{}:{}", e[1], e[2], e[3], e[4], e[5], e[6])).collect();
    format!("VECI in={} limit={} ok={} st={} len={} calls={}", z_len, limit, (r.st == 0) as u8, r.st, r.out.len(), if v.is_empty() { "-".into() } else { v.join(";") })
}

pub fn ep_vec(z: &[u8], zlib: bool, limit: usize) -> EpRes {
    let _ = miniz_oxide::verif_vec_trace::take();
    let r = catch_unwind(AssertUnwindSafe(|| if zlib { decompress_to_vec_zlib_with_limit(z, limit) } else { decompress_to_vec_with_limit(z, limit) }));
    match r {
        Err(_) => EpRes { ep: "vec".into(), st: -100, out: vec![], consumed: -1, has_more: false, problems: vec![("panic".into(), "panic in decompress_to_vec".into())], suspensions: vec![] },
        Ok(Ok(v)) => EpRes { ep: "vec".into(), st: 0, out: v, consumed: -1, has_more: false, problems: vec![], suspensions: vec![] },
        Ok(Err(e)) => EpRes { ep: "vec".into(), st: e.status as i32, out: e.output, consumed: -1, has_more: false, problems: vec![], suspensions: vec![] },
    }
}

pub fn ep_low(z: &[u8], zlib: bool, mode: &Mode, sched: &Sched, rng: &mut Rng, fill: u8, name: &str) -> EpRes {
    let mut r = DecompressorOxide::new();
    let res = run_low(&mut r, z, base_flags(zlib), mode, sched, rng, fill);
    EpRes { ep: name.into(), st: if res.overflow { 2 } else { res.st }, out: res.out, consumed: res.consumed as i64, has_more: res.last_has_more, problems: res.problems, suspensions: res.suspensions }
}

pub fn ep_iter(z: &[u8], zlib: bool, cap: usize, rng: &mut Rng) -> EpRes {
    let mut out = vec![0u8; cap];
    // random partition into slices
    let mut cuts = vec![0usize];
    let style = rng.below(3);
    while *cuts.last().unwrap() < z.len() { let last = *cuts.last().unwrap(); let step = match style { 0 => z.len(), 1 => 1, _ => rng.range(1, 50) }; cuts.push((last + step).min(z.len())); }
    let slices: Vec<&[u8]> = cuts.windows(2).map(|w| &z[w[0]..w[1]]).collect();
    let r = catch_unwind(AssertUnwindSafe(|| decompress_slice_iter_to_slice(&mut out, slices.iter().copied(), zlib, false)));
    match r {
        Err(_) => EpRes { ep: "iter".into(), st: -100, out: vec![], consumed: -1, has_more: false, problems: vec![("panic".into(), "panic in decompress_slice_iter_to_slice".into())], suspensions: vec![] },
        Ok(Ok(n)) => { out.truncate(n); EpRes { ep: "iter".into(), st: 0, out, consumed: -1, has_more: false, problems: vec![], suspensions: vec![] } }
        Ok(Err(e)) => EpRes { ep: "iter".into(), st: e as i32, out: vec![], consumed: -1, has_more: false, problems: vec![], suspensions: vec![] },
    }
}

/// The usual driver loop around `inflate()`. Status: 0 stream end, -1 data error, -4 buffer
/// error at the end of input (truncated), other negative = protocol problem.
pub fn ep_inflate(z: &[u8], zlib: bool, rng: &mut Rng, finish_at_end: bool) -> EpRes {
    let mut st = InflateState::new_boxed(if zlib { DataFormat::Zlib } else { DataFormat::Raw });
    let mut res = EpRes { ep: "inflate".into(), st: 1, out: vec![], consumed: 0, has_more: !finish_at_end, problems: vec![], suspensions: vec![] };
    let mut ipos = 0usize;
    let in_style = rng.below(3); let out_style = rng.below(3);
    let mut calls = 0usize;
    let mut finishing = false;
    loop {
        calls += 1;
        if calls > 4 * z.len() + 2_000_000 { res.problems.push(("hang".into(), "inflate() driver loop did not terminate".into())); res.st = -102; break; }
        let left = z.len() - ipos;
        let chunk = if finishing { left } else { match in_style { 0 => left, 1 => 1.min(left), _ => rng.range(0, 60).min(left) } };
        let olen = match out_style { 0 => 70000, 1 => rng.range(1, 4), _ => rng.range(1, 2000) };
        let mut o = vec![0u8; olen];
        // Finish is sticky once issued, and is not used on the very first call (the documented
        // first-call shortcut needs the whole output to fit; that case is exercised by C13)
        if finish_at_end && ipos + chunk == z.len() && calls > 1 { finishing = true; }
        let fl = if finishing { MZFlush::Finish } else if rng.chance(1, 5) { MZFlush::Sync } else { MZFlush::None };
        let r = catch_unwind(AssertUnwindSafe(|| inflate(&mut st, &z[ipos..ipos + chunk], &mut o, fl)));
        let r = match r { Ok(r) => r, Err(_) => { res.problems.push(("panic".into(), "panic in inflate()".into())); res.st = -100; break; } };
        if r.bytes_consumed > chunk || r.bytes_written > olen { res.problems.push(("counts".into(), format!("inflate() reported {}/{} of {}/{}", r.bytes_consumed, r.bytes_written, chunk, olen))); res.st = -101; break; }
        ipos += r.bytes_consumed; res.out.extend_from_slice(&o[..r.bytes_written]); res.consumed = ipos as i64;
        match r.status {
            Ok(MZStatus::StreamEnd) => { res.st = 0; break; }
            Ok(_) => { if r.bytes_consumed == 0 && r.bytes_written == 0 && chunk > 0 && olen > 0 { res.problems.push(("progress".into(), "inflate() made no progress with non-empty input and output".into())); res.st = -103; break; } }
            Err(MZError::Data) => { res.st = -1; break; }
            Err(MZError::Buf) => {
                // with progress: more output space (or input) is wanted; without progress and with all
                // input offered: the stream is truncated
                let progress = r.bytes_consumed > 0 || r.bytes_written > 0;
                if !progress && chunk == left { res.st = -4; break; }
            }
            Err(e) => { res.st = -50 + (e as i32 % 10); res.problems.push(("status".into(), format!("inflate() returned {:?}", e))); break; }
        }
        if res.out.len() > (8 << 20) { res.st = 2; break; }
    }
    res
}

pub fn ts(st: TINFLStatus) -> i32 { st as i32 }
