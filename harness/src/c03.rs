//! C03 / C04 / C06 / C07 share this module: streams (valid, mutated, truncated, with trailing
//! bytes) through every decoder entry point and schedule; the Lean driver compares each result with
//! the RFC reference decoder (`DEC` lines); schedule-independence is compared natively.
use crate::dec::*;
use crate::eps::*;
use crate::sgen::{self, GenCfg};
use crate::tx::{fnv, hex, Ctx};

pub struct StreamCase { pub z: Vec<u8>, pub zlib: bool, pub tag: String, pub expect_len: usize, pub prefix_of_valid: bool, pub trail: usize }

pub fn emit(ctx: &mut Ctx, id: usize, sc: &StreamCase, r: &EpRes, pre: &[u8], maxdist: usize, data_hex: &str, replay: &str) {
    for (cl, m) in &r.problems { ctx.violation(id, cl, format!("[{} ep={}] {}", sc.tag, r.ep, m), replay.to_string()); }
    for &(s, st) in &r.suspensions { ctx.count(&format!("susp_{}_{}", s, st)); }
    ctx.count(&format!("ep_{}", r.ep));
    ctx.count(&format!("status_{}", r.st));
    let extra = format!("rp=STREAM;seed={} pov={} trail={}", ctx.seed, sc.prefix_of_valid as u8, sc.trail);
    ctx.line(&dec_line(id, sc.zlib, pre, maxdist, data_hex, &r.ep, r.st, &r.out, r.consumed, r.has_more, &extra));
}

/// Run a stream through all entry points. `n_sched` extra random schedules per low-level mode.
pub fn run_stream(ctx: &mut Ctx, sc: &StreamCase, n_sched: usize, all_cuts: bool) {
    // correspondence with the Lean decoder model: every low-level call of this stream's runs
    klog_enable(sc.z.len() <= 4000 && sc.expect_len <= 12_000);
    run_stream_inner(ctx, sc, n_sched, all_cuts);
    for l in klog_take() { ctx.line(&l); }
    klog_enable(false);
}

fn run_stream_inner(ctx: &mut Ctx, sc: &StreamCase, n_sched: usize, all_cuts: bool) {
    let id = ctx.id();
    let z = &sc.z;
    let data_hex = hex(z);
    let replay = format!("STREAM fmt={} pov={} trail={} seed={} data={}", sc.zlib as u8, sc.prefix_of_valid as u8, sc.trail, ctx.seed, data_hex);
    ctx.eval(if z.len() > 2 { fnv(z) } else { 0 });
    ctx.count(&format!("kind_{}", sc.tag.split(':').next().unwrap_or("")));
    let cap = (sc.expect_len + 300).max(600).min(4 << 20);
    let mut results: Vec<EpRes> = vec![];
    let mut rng = ctx.rng.fork();
    // one-shot vector function and flat one-shot
    results.push(ep_vec(z, sc.zlib, 8 << 20));
    results.push(ep_low(z, sc.zlib, &Mode::Flat { cap, pos0: 0 }, &Sched::oneshot(), &mut rng, 0xA5, "flat1"));
    for _ in 0..n_sched {
        let s = Sched::random(&mut rng, z.len());
        let name = format!("flatS[{}]", s.describe());
        results.push(ep_low(z, sc.zlib, &Mode::Flat { cap, pos0: 0 }, &s, &mut rng, 0xA5, &name));
    }
    if all_cuts && z.len() <= 300 {
        for cut in 0..=z.len() {
            let s = Sched { in_style: 3, cut, out_style: 0, more_on_last: false };
            results.push(ep_low(z, sc.zlib, &Mode::Flat { cap, pos0: 0 }, &s, &mut rng, 0xA5, &format!("flatCut{}", cut)));
        }
        let s = Sched { in_style: 1, cut: 0, out_style: 0, more_on_last: false };
        results.push(ep_low(z, sc.zlib, &Mode::Flat { cap, pos0: 0 }, &s, &mut rng, 0xA5, "flatBytewise"));
        // every output pause followed by a second pause a few bytes later, all input offered on every call
        // (a call that stops for lack of room while its look-ahead already holds the next bytes)
        let produced = results[1].out.len().min(260);
        for s1 in 0..produced {
            for d in [1usize, 2, 3, 5, 8, 12] {
                let s = Sched { in_style: 0, cut: s1 | (d << 32), out_style: 4, more_on_last: false };
                results.push(ep_low(z, sc.zlib, &Mode::Flat { cap, pos0: 0 }, &s, &mut rng, 0xA5, &format!("flatPause{}+{}", s1, d)));
            }
        }
    }
    // flat results first (same Spec arguments), then ring, so the driver's per-stream cache is effective
    for r in &results { emit(ctx, id, sc, r, &[], 32768, &data_hex, &replay); }
    // schedule independence within the flat mode (C07)
    compare_all(ctx, id, sc, &results, "flat", &replay);
    // ring buffer of 32 KiB (what inflate() uses), pre-filled with a known pattern
    let ring = 32768usize;
    let pre = ring_fill(ring, 0x3C);
    let mut rres: Vec<EpRes> = vec![];
    rres.push(ep_low(z, sc.zlib, &Mode::Ring { size: ring }, &Sched::oneshot_ring(), &mut rng, 0x3C, "ring1"));
    for _ in 0..n_sched {
        let s = Sched::random(&mut rng, z.len());
        let name = format!("ringS[{}]", s.describe());
        rres.push(ep_low(z, sc.zlib, &Mode::Ring { size: ring }, &s, &mut rng, 0x3C, &name));
    }
    for r in &rres { emit(ctx, id, sc, r, &pre, ring, &data_hex, &replay); }
    compare_all(ctx, id, sc, &rres, "ring", &replay);
    // helper and streaming wrapper (flat semantics / zeroed 32 KiB ring)
    let it = ep_iter(z, sc.zlib, sc.expect_len + 1, &mut rng);
    emit(ctx, id, sc, &it, &[], 32768, &data_hex, &replay);
    let zero_ring = vec![0u8; 32768];
    for fin in [false, true] {
        let r = ep_inflate(z, sc.zlib, &mut rng, fin);
        let mut r2 = r; r2.ep = format!("inflate{}", fin as u8);
        emit(ctx, id, sc, &r2, &zero_ring, 32768, &data_hex, &replay);
    }
    ctx.sample(format!("{} zlib={} len={} expect_len={}", sc.tag, sc.zlib, z.len(), sc.expect_len));
}

fn compare_all(ctx: &mut Ctx, id: usize, sc: &StreamCase, rs: &[EpRes], mode: &str, replay: &str) {
    // within one buffer mode: same output bytes, same verdict, same total consumed (for low-level runs)
    let lows: Vec<&EpRes> = rs.iter().filter(|r| r.consumed >= 0 && r.st > -100).collect();
    if lows.len() < 2 { return; }
    let a = lows[0];
    for b in &lows[1..] {
        ctx.count("schedule_pairs");
        // verdict classes: the final status may legitimately differ between "needs more input" (1)
        // and "cannot make progress" (-4) depending on whether more input was announced
        let class = |s: i32| if s == 1 || s == -4 { 1 } else { s };
        if class(a.st) != class(b.st) || a.out != b.out || (a.st == 0 && a.consumed != b.consumed) {
            ctx.violation(id, "schedule", format!("[{} {}] {} gives (st {}, {} bytes, consumed {}) but {} gives (st {}, {} bytes, consumed {}), first output difference at {}", sc.tag, mode, a.ep, a.st, a.out.len(), a.consumed, b.ep, b.st, b.out.len(), b.consumed, a.out.iter().zip(b.out.iter()).position(|(x, y)| x != y).unwrap_or(a.out.len().min(b.out.len()))), replay.to_string());
        }
    }
}

pub fn gen_case(ctx: &mut Ctx, big: bool) -> StreamCase {
    let zlib = ctx.rng.chance(1, 2);
    let cfg = GenCfg { max_tokens: if big { 3000 } else { *ctx.rng.pick(&[4usize, 30, 200, 600]) }, max_blocks: if big { 8 } else { 5 }, zlib, pre_len: 0, big, heavy: ctx.rng.chance(1, 8) };
    let g = sgen::gen_stream(&mut ctx.rng, &cfg);
    for f in &g.features { let k = format!("feat_{}", f); ctx.count(&k); }
    StreamCase { z: g.bytes, zlib, tag: format!("valid:{}", g.features.join(",")), expect_len: g.plain.len(), prefix_of_valid: false, trail: 0 }
}

/// Matches that reach almost a whole 32 KiB ring back (distance 32768 − k for small k): with a ring
/// output buffer the source then lies just AHEAD of the write position. The bundled compressor never
/// emits them; a foreign encoder may. One or two stored blocks of random bytes, then a final
/// fixed-Huffman block with such matches in front of, between and behind literals.
pub fn ring_far_case(ctx: &mut Ctx) -> StreamCase {
    use crate::sgen::{canonical_codes, fixed_lit_lens, write_tokens, BitWriter, Tok};
    let zlib = ctx.rng.chance(1, 2);
    let n = ctx.rng.range(32768, 42000);
    let mut plain: Vec<u8> = ctx.rng.bytes(n);
    let mut w = BitWriter::new();
    if zlib { w.put(0x78, 8); w.put(0x9c, 8); }
    let mut pos = 0;
    while pos < n {
        let k = (n - pos).min(*ctx.rng.pick(&[65535usize, 40000, 33000]));
        w.put(0, 1); w.put(0, 2); w.align();
        w.put(k as u32, 16); w.put((!k as u32) & 0xFFFF, 16);
        for &b in &plain[pos..pos + k] { w.put(b as u32, 8); }
        pos += k;
    }
    let mut toks: Vec<Tok> = vec![];
    let nm = ctx.rng.range(1, 4);
    for _ in 0..nm {
        for _ in 0..ctx.rng.range(0, 70) { let b = ctx.rng.byte(); plain.push(b); toks.push(Tok::Lit(b)); }
        let len = *ctx.rng.pick(&[3usize, 4, 5, 8, 9, 100, 258]);
        let dist = (32768 - *ctx.rng.pick(&[0usize, 1, 1, 1, 2, 3, 7, 8, 257, 258])).min(plain.len());
        for _ in 0..len { let b = plain[plain.len() - dist]; plain.push(b); }
        toks.push(Tok::Copy { len, dist });
    }
    for _ in 0..ctx.rng.range(0, 80) { let b = ctx.rng.byte(); plain.push(b); toks.push(Tok::Lit(b)); }
    let ll = fixed_lit_lens(); let lc = canonical_codes(&ll);
    let dl = vec![5u8; 32]; let dc = canonical_codes(&dl);
    w.put(1, 1); w.put(1, 2);
    write_tokens(&mut w, &toks, &ll, &lc, &dl, &dc);
    w.align();
    if zlib { let a = crate::sgen::adler32(&plain); for sh in [24, 16, 8, 0] { w.put((a >> sh) & 0xFF, 8); } }
    ctx.count("ring_far_cases");
    StreamCase { z: w.finish(), zlib, tag: "valid:ring_far".into(), expect_len: plain.len(), prefix_of_valid: false, trail: 0 }
}

/// Valid streams whose matches sit right at the seam of a ring output buffer: the stored prefix ends a
/// few bytes before a multiple of the ring size, then short and long matches whose SOURCE or whose
/// DESTINATION straddles the seam (distance a little larger than the write position inside the lap).
pub fn ring_seam_case(ctx: &mut Ctx) -> StreamCase {
    use crate::sgen::{canonical_codes, fixed_lit_lens, write_tokens, BitWriter, Tok};
    let zlib = ctx.rng.chance(1, 2);
    let ring = *ctx.rng.pick(&[32768usize, 32768, 32768, 65536]);
    let before = ctx.rng.range(0, 6);
    let n = ring - before;
    let mut plain: Vec<u8> = ctx.rng.bytes(n);
    let mut w = BitWriter::new();
    if zlib { w.put(0x78, 8); w.put(0x9c, 8); }
    let mut pos = 0;
    while pos < n {
        let k = (n - pos).min(*ctx.rng.pick(&[65535usize, 40000, 20000]));
        w.put(0, 1); w.put(0, 2); w.align();
        w.put(k as u32, 16); w.put((!k as u32) & 0xFFFF, 16);
        for &b in &plain[pos..pos + k] { w.put(b as u32, 8); }
        pos += k;
    }
    let mut toks: Vec<Tok> = vec![];
    let nm = ctx.rng.range(1, 5);
    for _ in 0..nm {
        for _ in 0..ctx.rng.range(0, 7) { let b = ctx.rng.byte(); plain.push(b); toks.push(Tok::Lit(b)); }
        let len = *ctx.rng.pick(&[3usize, 3, 3, 4, 5, 8, 9, 100, 258]);
        let p = plain.len() % ring; // write position inside the lap
        let dist = if plain.len() >= ring { (p + *ctx.rng.pick(&[1usize, 2, 1, 2, 3, 4, len])).min(32768) } else { ctx.rng.range(1, 5) };
        for _ in 0..len { let b = plain[plain.len() - dist]; plain.push(b); }
        toks.push(Tok::Copy { len, dist });
    }
    for _ in 0..ctx.rng.range(0, 20) { let b = ctx.rng.byte(); plain.push(b); toks.push(Tok::Lit(b)); }
    let ll = fixed_lit_lens(); let lc = canonical_codes(&ll);
    let dl = vec![5u8; 32]; let dc = canonical_codes(&dl);
    w.put(1, 1); w.put(1, 2);
    write_tokens(&mut w, &toks, &ll, &lc, &dl, &dc);
    w.align();
    if zlib { let a = crate::sgen::adler32(&plain); for sh in [24, 16, 8, 0] { w.put((a >> sh) & 0xFF, 8); } }
    ctx.count("ring_seam_cases");
    StreamCase { z: w.finish(), zlib, tag: "valid:ring_seam".into(), expect_len: plain.len(), prefix_of_valid: false, trail: 0 }
}

pub fn replay(ctx: &mut Ctx) -> bool {
    if let Some(lines) = ctx.replay_lines.clone() {
        for l in lines { if let Some(rest) = l.strip_prefix("STREAM ") { let kv = crate::kv(rest);
            let z = crate::tx::unhex(&kv["data"]);
            if let Some(s) = kv.get("seed") { ctx.rng = crate::rng::Rng::new(s.parse().unwrap_or(1)); }
            let sc = StreamCase { z, zlib: kv["fmt"] == "1", tag: "replay".into(), expect_len: 70000, prefix_of_valid: kv.get("pov").map(|x| x == "1").unwrap_or(false), trail: kv.get("trail").and_then(|x| x.parse().ok()).unwrap_or(0) };
            run_stream(ctx, &sc, 6, true); } }
        return true;
    }
    false
}

pub fn run(ctx: &mut Ctx) {
    if replay(ctx) { return; }
    let n = 220 * ctx.scale;
    for i in 0..n {
        let sc = gen_case(ctx, i % 9 == 8);
        let small = sc.z.len() <= 300;
        run_stream(ctx, &sc, 3, small && i % 4 == 0);
    }
    for _ in 0..(12 * ctx.scale) {
        let sc = ring_far_case(ctx);
        run_stream(ctx, &sc, 2, false);
    }
    for _ in 0..(16 * ctx.scale) {
        let sc = ring_seam_case(ctx);
        run_stream(ctx, &sc, 2, false);
    }
}

// ---------------------------------------------------------------------------------------------
/// C04: invalid and truncated streams.
pub fn run_c04(ctx: &mut Ctx) {
    if replay(ctx) { return; }
    let n = 90 * ctx.scale;
    for i in 0..n {
        let base = gen_case(ctx, false);
        // every truncation of short streams / sampled truncations of longer ones: proper prefixes of a valid stream
        let cuts: Vec<usize> = if base.z.len() <= 40 { (0..base.z.len()).collect() } else { (0..6).map(|_| ctx.rng.below(base.z.len())).collect() };
        for c in cuts {
            let sc = StreamCase { z: base.z[..c].to_vec(), zlib: base.zlib, tag: "truncated".into(), expect_len: base.expect_len, prefix_of_valid: true, trail: 0 };
            run_stream(ctx, &sc, 1, false);
        }
        // mutations
        for _ in 0..5 {
            let (z, how) = sgen::mutate(&mut ctx.rng, &base.z);
            let sc = StreamCase { z, zlib: base.zlib, tag: format!("mut_{}", how), expect_len: base.expect_len + 70000, prefix_of_valid: false, trail: 0 };
            run_stream(ctx, &sc, 1, i % 10 == 0);
        }
    }
    // one targeted constructor per failure class, raw and behind a valid zlib header
    for rep in 0..(4 * ctx.scale) {
        for which in 0..17 {
            let (body, how) = sgen::targeted_invalid(&mut ctx.rng, which);
            let sc = StreamCase { z: body.clone(), zlib: false, tag: format!("targeted_{}", how), expect_len: 1000, prefix_of_valid: false, trail: 0 };
            run_stream(ctx, &sc, 2, rep == 0);
            let mut z = vec![0x78, 0x9c]; z.extend_from_slice(&body); z.extend_from_slice(&[0, 0, 0, 1]);
            let sc = StreamCase { z, zlib: true, tag: format!("targeted_zlib_{}", how), expect_len: 1000, prefix_of_valid: false, trail: 0 };
            run_stream(ctx, &sc, 1, false);
        }
    }
    // random bytes
    for _ in 0..(40 * ctx.scale) {
        let n = ctx.rng.range(0, 120);
        let z = ctx.rng.bytes(n);
        let sc = StreamCase { z, zlib: ctx.rng.chance(1, 2), tag: "random".into(), expect_len: 70000, prefix_of_valid: false, trail: 0 };
        run_stream(ctx, &sc, 1, false);
    }
    // every zlib header with a correct check field (method, window size 2^8..2^23, preset-dictionary bit),
    // flat and in rings smaller than, equal to and larger than the announced window
    crate::c09::headers_with(ctx, &[0, 256, 32768, 65536, 131072, 1 << 20], true);
    ctx.count("zlib_header_sweep");
}

/// C06: valid streams followed by 0..64 unrelated bytes.
pub fn run_c06(ctx: &mut Ctx) {
    if let Some(lines) = ctx.replay_lines.clone() { crate::c13::replay_ifbs(ctx, &lines); }
    if replay(ctx) { return; }
    let n = 160 * ctx.scale;
    for i in 0..n {
        let base = gen_case(ctx, i % 11 == 10);
        let k = match ctx.rng.below(5) { 0 => 0, 1 => 1, 2 => ctx.rng.range(2, 8), 3 => 64, _ => ctx.rng.range(8, 64) };
        let mut z = base.z.clone();
        // adversarial trailing content: looks like another block / another stream / zeros / 0xFF / random
        let tail: Vec<u8> = match ctx.rng.below(5) {
            0 => { let other = gen_case(ctx, false); other.z.iter().cycle().take(k).cloned().collect() }
            1 => vec![0u8; k], 2 => vec![0xFFu8; k], 3 => vec![0x03, 0x00].iter().cycle().take(k).cloned().collect(),
            _ => ctx.rng.bytes(k),
        };
        z.extend_from_slice(&tail);
        ctx.count(&format!("trail_{}", if k == 0 { "0" } else if k < 8 { "1-7" } else if k < 64 { "8-63" } else { "64" }));
        let sc = StreamCase { z, zlib: base.zlib, tag: format!("trailing:{}", base.tag), expect_len: base.expect_len, prefix_of_valid: false, trail: k };
        run_stream(ctx, &sc, 3, base.z.len() <= 120 && i % 5 == 0);
        if i % 4 == 0 && base.tag.starts_with("valid") { trailer_cuts(ctx, &base, &tail); }
        // the streaming wrapper with its bytes (model `InflBytes`, op IFB; `C06x`): any chunking, any
        // output sizes; at stream end exactly the stream's bytes have been consumed
        if i % 2 == 1 && base.tag.starts_with("valid") && base.z.len() <= 20000 {
            for rep in 0..2 { let seed = ctx.rng.next(); crate::c13::ifb_session_enc(ctx, &sc.z, base.zlib, "trailing", 0, None, rep, seed, Some(base.z.len())); }
        }
    }
}

/// zlib streams under the flag variants (verify / ignore / compute the checksum) with a single cut at
/// every position of the last bytes (header of the trailer, inside it, after it): the stream must end
/// exactly at its last byte whatever the flags, and every call is replayed through the model
fn trailer_cuts(ctx: &mut Ctx, base: &StreamCase, trail: &[u8]) {
    use miniz_oxide::inflate::core::inflate_flags::*;
    if !base.zlib { return; }
    let id = ctx.id();
    let mut z = base.z.clone(); z.extend_from_slice(trail);
    let n = base.z.len();
    ctx.eval(crate::tx::fnv(&z) ^ 0x7a11);
    let replay = format!("STREAM fmt=1 pov=0 trail={} seed={} data={}", trail.len(), ctx.seed, crate::tx::hex(&z));
    for extra in [0u32, TINFL_FLAG_IGNORE_ADLER32, TINFL_FLAG_COMPUTE_ADLER32] {
        for back in 0..=7usize {
            if back > n { continue; }
            let cut = n - back;
            for mode in [Mode::Flat { cap: base.expect_len + 8, pos0: 0 }, Mode::Ring { size: 1 << 15 }] {
                if let Mode::Ring { size } = mode { if base.expect_len > size { continue; } }
                let s = Sched { in_style: 3, cut, out_style: 0, more_on_last: false };
                let mut r = miniz_oxide::inflate::core::DecompressorOxide::new();
                let mut rng = ctx.rng.fork();
                let res = run_low(&mut r, &z, base_flags(true) | extra, &mode, &s, &mut rng, 0xA5);
                ctx.count("trailer_cut_runs");
                for (cl, m) in &res.problems { ctx.violation(id, cl, format!("[flags +{} cut {} of {}] {}", extra, cut, n, m), replay.clone()); }
                if res.st != 0 { ctx.violation(id, "status", format!("valid zlib stream, extra flags {}, cut at {} of {}: status {}", extra, cut, n, res.st), replay.clone()); }
                else if res.consumed != n { ctx.violation(id, "consumed", format!("valid zlib stream of {} bytes, extra flags {}, cut at {}: {} bytes reported consumed", n, extra, cut, res.consumed), replay.clone()); }
            }
        }
    }
}

/// C07: suspension/resumption anywhere: many schedules per stream, valid or not.
pub fn run_c07(ctx: &mut Ctx) {
    if replay(ctx) { return; }
    let n = 70 * ctx.scale;
    for i in 0..n {
        let base = gen_case(ctx, i % 7 == 6);
        let sc = if i % 3 == 2 { let (z, how) = sgen::mutate(&mut ctx.rng, &base.z); StreamCase { z, zlib: base.zlib, tag: format!("mut_{}", how), expect_len: base.expect_len + 70000, prefix_of_valid: false, trail: 0 } } else { base };
        let small = sc.z.len() <= 300;
        run_stream(ctx, &sc, 10, small);
    }
    // a Huffman block directly followed by a stored block (the stored header and first bytes come out of
    // the look-ahead bit buffer): every input cut and every pair of nearby output pauses
    for i in 0..(6 * ctx.scale) {
        let zlib = i % 2 == 1;
        let (z, plain, _) = sgen::huff_then_stored(&mut ctx.rng, zlib);
        let sc = StreamCase { z, zlib, tag: "huff_then_stored".into(), expect_len: plain.len(), prefix_of_valid: false, trail: 0 };
        run_stream(ctx, &sc, 3, true);
    }
    // matches at the seam of the ring buffer, far matches in a ring: whole-window grants (fast copy
    // routes) against small grants (byte-serial resumption routes)
    for i in 0..(10 * ctx.scale) {
        let sc = if i % 3 == 2 { ring_far_case(ctx) } else { ring_seam_case(ctx) };
        run_stream(ctx, &sc, 3, false);
    }
}
