//! Driving the low-level decoder (`decompress_with_limit`) under generated schedules, with the
//! per-call native oracles of C05/C08 (counts, write window, truthful statuses, progress).
use crate::rng::Rng;
use miniz_oxide::inflate::core::{decompress_with_limit, inflate_flags::*, DecompressorOxide};
use miniz_oxide::inflate::TINFLStatus;
use std::panic::{catch_unwind, AssertUnwindSafe};

#[derive(Clone, Debug)]
pub enum Mode { Flat { cap: usize, pos0: usize }, Ring { size: usize } }

#[derive(Clone, Debug)]
pub struct Sched {
    /// 0 all at once, 1 one byte per call, 2 random chunks (incl. empty), 3 single cut at `cut`
    pub in_style: u8,
    pub cut: usize,
    /// 0 unlimited, 1 grants 0..3, 2 random grants, 3 grants around 258/259,
    /// 4 planned: first call `cut & 0xFFFFFFFF` bytes, second call `cut >> 32` bytes, then unlimited
    pub out_style: u8,
    /// announce more input even on the last chunk (stream ends in needs-more-input when truncated)
    pub more_on_last: bool,
}

impl Sched {
    pub fn random(rng: &mut Rng, n: usize) -> Sched {
        Sched { in_style: rng.below(4) as u8, cut: rng.below(n + 1), out_style: *rng.pick(&[0u8, 0, 1, 2, 2, 3]), more_on_last: rng.chance(1, 3) }
    }
    pub fn oneshot() -> Sched { Sched { in_style: 0, cut: 0, out_style: 0, more_on_last: false } }
    pub fn oneshot_ring() -> Sched { Sched { in_style: 0, cut: 0, out_style: 0, more_on_last: false } }
    pub fn describe(&self) -> String { format!("in{}:{}/out{}/more{}", self.in_style, self.cut, self.out_style, self.more_on_last as u8) }
}

pub struct LowRes {
    pub st: i32,
    pub out: Vec<u8>,
    pub consumed: usize,
    pub ncalls: usize,
    pub last_has_more: bool,
    pub problems: Vec<(String, String)>,
    /// (automaton state id, status) pairs seen at call returns (coverage)
    pub suspensions: Vec<(u8, i32)>,
    pub overflow: bool,
    pub adler: Option<u32>,
}

pub fn ring_fill(size: usize, seed: u8) -> Vec<u8> { (0..size).map(|i| (i as u8).wrapping_mul(31).wrapping_add(seed)).collect() }

thread_local! {
    /// correspondence lines (INEW / ICALL) recorded by `run_low` when enabled
    pub static KLOG: std::cell::RefCell<Option<Vec<String>>> = std::cell::RefCell::new(None);
    pub static KID: std::cell::Cell<usize> = std::cell::Cell::new(0);
}
pub fn klog_enable(on: bool) { KLOG.with(|k| *k.borrow_mut() = if on { Some(vec![]) } else { None }); }
pub fn klog_take() -> Vec<String> { KLOG.with(|k| k.borrow_mut().as_mut().map(|v| std::mem::take(v)).unwrap_or_default()) }
fn klog(line: String) { KLOG.with(|k| if let Some(v) = k.borrow_mut().as_mut() { v.push(line); }); }
fn klog_on() -> bool { KLOG.with(|k| k.borrow().is_some()) }

pub fn run_low(r: &mut DecompressorOxide, z: &[u8], base_flags: u32, mode: &Mode, sched: &Sched, rng: &mut Rng, fill: u8) -> LowRes {
    let (mut buf, pos0, ring) = match mode {
        Mode::Flat { cap, pos0 } => (ring_fill(*cap, fill), *pos0, false),
        Mode::Ring { size } => (ring_fill(*size, fill), 0usize, true),
    };
    let flags0 = if ring { base_flags & !TINFL_FLAG_USING_NON_WRAPPING_OUTPUT_BUF } else { base_flags | TINFL_FLAG_USING_NON_WRAPPING_OUTPUT_BUF };
    let mut res = LowRes { st: 1, out: vec![], consumed: 0, ncalls: 0, last_has_more: false, problems: vec![], suspensions: vec![], overflow: false, adler: None };
    let mut ipos = 0usize;
    let mut opos = pos0;
    let mut cut_done = false;
    let kid = KID.with(|k| { k.set(k.get() + 1); k.get() });
    // the model starts from a fresh decoder: only record runs that do
    let record = klog_on() && r.verif_state().0 == 0 && buf.len() <= (1 << 20);
    if record { klog(format!("INEW id={} outlen={} fill={}", kid, buf.len(), fill)); }
    let max_calls = 4 * z.len() + 400_000;
    loop {
        res.ncalls += 1;
        if res.ncalls > max_calls { res.problems.push(("hang".into(), format!("no terminal status after {} calls", max_calls))); break; }
        let left = z.len() - ipos;
        let chunk = match sched.in_style { 0 => left, 1 => 1.min(left), 2 => if rng.chance(1, 6) { 0 } else { rng.range(1, 40).min(left) }, _ => if !cut_done { cut_done = true; sched.cut.saturating_sub(ipos).min(left) } else { left } };
        let last = ipos + chunk == z.len();
        let has_more = !last || sched.more_on_last;
        let grant = match sched.out_style { 0 => usize::MAX, 1 => rng.below(4), 2 => *rng.pick(&[1usize, 2, 5, 17, 100, 257, 258, 259, 260, 1000, 40000]), 4 => match res.ncalls { 1 => sched.cut & 0xFFFF_FFFF, 2 => sched.cut >> 32, _ => usize::MAX }, _ => rng.range(255, 262) };
        let flags = flags0 | if has_more { TINFL_FLAG_HAS_MORE_INPUT } else { 0 };
        let before: Option<Vec<u8>> = if buf.len() <= 4096 || res.ncalls <= 48 { Some(buf.clone()) } else { None };
        let input = &z[ipos..ipos + chunk];
        let rr = catch_unwind(AssertUnwindSafe(|| decompress_with_limit(r, input, &mut buf, opos, grant, flags)));
        let (st, c, w) = match rr { Ok(x) => x, Err(_) => { res.problems.push(("panic".into(), format!("panic in decode call #{} (chunk {} grant {} pos {} len {} flags {})", res.ncalls, chunk, grant, opos, buf.len(), flags))); res.st = -100; break; } };
        let room = buf.len() - opos;
        let window = grant.min(room);
        if c > chunk { res.problems.push(("counts".into(), format!("call #{} consumed {} > offered {}", res.ncalls, c, chunk))); res.st = -101; break; }
        if w > window { res.problems.push(("counts".into(), format!("call #{} wrote {} > granted window {} (grant {} room {})", res.ncalls, w, window, grant, room))); res.st = -101; break; }
        if let Some(b) = &before {
            if b[..opos] != buf[..opos] { res.problems.push(("window".into(), format!("call #{} changed bytes before out_pos {}", res.ncalls, opos))); }
            let end = opos + w;
            if b[end..] != buf[end..] { let k = (end..buf.len()).find(|&i| b[i] != buf[i]).unwrap(); res.problems.push(("window".into(), format!("call #{} changed byte {} outside the written region [{}, {}) (granted window {} bytes)", res.ncalls, k, opos, end, window))); }
        }
        let sti = st as i32;
        if record {
            let ad = r.adler32().map(|a| format!(" adler={}", a)).unwrap_or_default();
            klog(format!("ICALL id={} ipos={} pos={} budget={} flags={} st={} c={} w={}{} in={} wr={}", kid, ipos, opos, grant.min(1 << 40), flags, sti, c, w, ad, crate::tx::hex(input), crate::tx::hex(&buf[opos..opos + w])));
        }
        if st == TINFLStatus::HasMoreOutput && w != window { res.problems.push(("status".into(), format!("call #{}: HasMoreOutput but only {} of {} granted bytes written", res.ncalls, w, window))); }
        if st == TINFLStatus::NeedsMoreInput && c != chunk { res.problems.push(("status".into(), format!("call #{}: NeedsMoreInput but only {} of {} offered bytes consumed", res.ncalls, c, chunk))); }
        if st == TINFLStatus::NeedsMoreInput && !has_more { res.problems.push(("status".into(), format!("call #{}: NeedsMoreInput although no more input was announced", res.ncalls))); }
        if st == TINFLStatus::FailedCannotMakeProgress && has_more { res.problems.push(("status".into(), format!("call #{}: FailedCannotMakeProgress although more input was announced", res.ncalls))); }
        if chunk > 0 && window > 0 && c == 0 && w == 0 && (sti == 1 || sti == 2) { res.problems.push(("progress".into(), format!("call #{} with {} input bytes and a {}-byte window made no progress (status {})", res.ncalls, chunk, window, sti))); res.st = sti; break; }
        res.suspensions.push((r.verif_state().0, sti));
        res.out.extend_from_slice(&buf[opos..opos + w]);
        ipos += c; opos += w;
        if ring && opos == buf.len() { opos = 0; }
        res.consumed = ipos; res.st = sti; res.last_has_more = has_more;
        match st {
            TINFLStatus::NeedsMoreInput => { if ipos == z.len() && last { break; } }
            TINFLStatus::HasMoreOutput => { if !ring && opos == buf.len() { res.overflow = true; break; } if res.out.len() > (8 << 20) { res.overflow = true; break; } }
            _ => break,
        }
    }
    res.adler = r.adler32();
    res
}

pub fn base_flags(zlib: bool) -> u32 { if zlib { TINFL_FLAG_PARSE_ZLIB_HEADER } else { 0 } }

/// One line for the Lean driver: what this entry point reported for `data`.
pub fn dec_line(id: usize, zlib: bool, pre: &[u8], maxdist: usize, data_hex: &str, ep: &str, st: i32, out: &[u8], consumed: i64, has_more: bool, extra: &str) -> String {
    format!("DEC id={} fmt={} maxdist={} ep={} st={} consumed={} more={} {} pre={} out={} data={}", id, zlib as u8, maxdist, ep, st, consumed, has_more as u8, extra, crate::tx::hex(pre), crate::tx::hex(out), data_hex)
}
