//! C12 — flush points make all input so far decodable; full flush cuts history.
use crate::comp::*;
use crate::plain;
use crate::tx::{fnv, hex, Ctx};
use miniz_oxide::deflate::core::{compress, TDEFLFlush, TDEFLStatus};

pub fn case(ctx: &mut Ctx, cfg: &Cfg, data: &[u8], kind: &str, seed: u64) {
    let id = ctx.id();
    let mut rng = crate::rng::Rng::new(seed);
    let o = SchedOpts { sink: if rng.chance(1, 5) { Sink::Callback } else { Sink::Buf }, flush_p: 35, max_calls: 200_000, tiny_out: false };
    let run = run_schedule(&mut rng, cfg, data, &o);
    let replay = format!("FLUSH {} seed={} in={}", cfg.describe(), seed, hex(data));
    ctx.eval(if !run.flush_points.is_empty() { fnv(data) ^ seed } else { 0 });
    for (cl, m) in &run.problems { ctx.violation(id, cl, format!("{} [{}]", m, cfg.describe()), replay.clone()); }
    ctx.count_n("flush_points", run.flush_points.len() as u64);
    ctx.sample(format!("{} kind={} len={} flush_points={:?}", cfg.describe(), kind, data.len(), &run.flush_points[..run.flush_points.len().min(6)]));
    let mut last_full: Option<(usize, usize)> = None;
    // at most 5 prefixes per case (first, last, three random ones): each line carries the whole prefix
    let np = run.flush_points.len();
    let mut chosen: Vec<usize> = vec![];
    if np > 0 { chosen.push(0); chosen.push(np - 1); for _ in 0..3 { chosen.push(rng.below(np)); } chosen.sort(); chosen.dedup(); }
    for (k, &(ipos, opos, fl)) in run.flush_points.iter().enumerate() {
        ctx.count(&format!("point_kind_{}", fl));
        if fl == 3 { last_full = Some((ipos, opos)); }
        if chosen.contains(&k) {
            ctx.count("prefixes_checked");
            ctx.line(&format!("PFX id={} rp=FLUSH;seed={};inkey=full {} kind={} in={} out={} full={}", id, seed, cfg.describe(), fl, hex(&data[..ipos]), hex(&run.out[..opos]), hex(data)));
        }
    }
    if run.done {
        if let Some((ipos, opos)) = last_full {
            ctx.count("tails");
            ctx.line(&format!("TAIL id={} rp=FLUSH;seed={};inkey=full {} tail={} expect={} full={}", id, seed, cfg.describe(), hex(&run.out[opos..]), hex(&data[ipos..]), hex(data)));
        }
        ctx.line(&format!("ENC id={} rp=FLUSH;seed={} checks=rt modes=- {} in={} comp={}", id, seed, cfg.describe(), hex(data), hex(&run.out)));
    }
}

/// a no-sync flush followed later by a sync flush is equivalent to the sync flush alone
fn nosync_then_sync(ctx: &mut Ctx, cfg: &Cfg, data: &[u8]) {
    let id = ctx.id();
    let drive = |first: Option<TDEFLFlush>| -> Option<Vec<u8>> {
        let mut c = cfg.make();
        let mut out = vec![0u8; data.len() * 2 + 2000];
        let mut n = 0;
        let mut consumed = 0;
        if let Some(f) = first {
            let (st, i, o) = compress(&mut c, data, &mut out[n..], f);
            if st != TDEFLStatus::Okay { return None; }
            n += o; consumed = i;
        }
        let (st, _, o) = compress(&mut c, &data[consumed..], &mut out[n..], TDEFLFlush::Sync);
        if st != TDEFLStatus::Okay { return None; }
        n += o;
        let (st, _, o) = compress(&mut c, &[], &mut out[n..], TDEFLFlush::Finish);
        if st != TDEFLStatus::Done { return None; }
        n += o; out.truncate(n); Some(out)
    };
    let a = drive(Some(TDEFLFlush::NoSync));
    let b = drive(None);
    ctx.eval(fnv(data) ^ 0x55);
    ctx.count("nosync_sync_pairs");
    match (a, b) {
        (Some(a), Some(b)) => {
            if a != b { ctx.violation(id, "nosync", format!("NoSync+Sync emitted {} bytes, Sync alone {} bytes, and they differ [{}]", a.len(), b.len(), cfg.describe()), format!("NOSYNC {} in={}", cfg.describe(), hex(data))); }
            ctx.line(&format!("ENC id={} rp=NOSYNC checks=rt modes=- {} in={} comp={}", id, cfg.describe(), hex(data), hex(&a)));
        }
        _ => ctx.violation(id, "status", "unexpected status in NoSync/Sync sequence".into(), format!("NOSYNC {} in={}", cfg.describe(), hex(data))),
    }
}

pub fn run(ctx: &mut Ctx) {
    if let Some(lines) = ctx.replay_lines.clone() {
        for l in lines {
            let (tag, rest) = l.split_once(' ').unwrap_or(("", ""));
            let kv = crate::kv(rest);
            if tag != "FLUSH" && tag != "NOSYNC" { continue; }
            let cfg = Cfg { level: kv["level"].parse().unwrap(), strategy: kv["strategy"].parse().unwrap(), zlib: kv["fmt"] == "1", wb: kv["wb"].parse().unwrap() };
            let data = crate::tx::unhex(&kv["in"]);
            if tag == "FLUSH" { case(ctx, &cfg, &data, "replay", kv["seed"].parse().unwrap()); } else { nosync_then_sync(ctx, &cfg, &data); }
        }
        return;
    }
    let n = 150 * ctx.scale;
    for i in 0..n {
        let cfg = if i < 55 { Cfg { level: (i % 11) as u8, strategy: ((i / 11) % 5) as u8, zlib: i % 2 == 0, wb: 15 } } else { Cfg::random(&mut ctx.rng) };
        let kind = *ctx.rng.pick(plain::KINDS);
        let len = match ctx.rng.below(4) { 0 => ctx.rng.range(1, 600), 1 => ctx.rng.range(600, 9000), 2 => ctx.rng.range(9000, 70000), _ => ctx.rng.range(60000, 150000) };
        let data = plain::gen(&mut ctx.rng, kind, len);
        let seed = ctx.rng.next();
        case(ctx, &cfg, &data, kind, seed);
    }
    let m = 60 * ctx.scale;
    for _ in 0..m {
        let cfg = Cfg::random(&mut ctx.rng);
        let kind = *ctx.rng.pick(plain::KINDS);
        let len = ctx.rng.range(0, 40000);
        let data = plain::gen(&mut ctx.rng, kind, len);
        nosync_then_sync(ctx, &cfg, &data);
    }
}
