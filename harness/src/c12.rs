//! C12 — flush points make all input so far decodable; full flush cuts history.
use crate::comp::*;
use crate::plain;
use crate::tx::{fnv, hex, Ctx};
use miniz_oxide::deflate::core::{compress, TDEFLFlush, TDEFLStatus};

pub fn case(ctx: &mut Ctx, cfg: &Cfg, data: &[u8], kind: &str, seed: u64) {
    let id = ctx.id();
    let mut rng = crate::rng::Rng::new(seed);
    let o = SchedOpts { sink: if rng.chance(1, 5) { Sink::Callback } else { Sink::Buf }, flush_p: 35, max_calls: 200_000, tiny_out: false };
    let run = run_schedule(&mut rng, cfg, data, &o);
    let replay = format!("FLUSH {} seed={} in={}", cfg.describe(), seed, hex(data));
    ctx.eval(if !run.flush_points.is_empty() { fnv(data) ^ seed } else { 0 });
    for (cl, m) in &run.problems { ctx.violation(id, cl, format!("{} [{}]", m, cfg.describe()), replay.clone()); }
    ctx.count_n("flush_points", run.flush_points.len() as u64);
    ctx.sample(format!("{} kind={} len={} flush_points={:?}", cfg.describe(), kind, data.len(), &run.flush_points[..run.flush_points.len().min(6)]));
    let mut last_full: Option<(usize, usize)> = None;
    // at most 5 prefixes per case (first, last, three random ones): each line carries the whole prefix
    let np = run.flush_points.len();
    let mut chosen: Vec<usize> = vec![];
    if np > 0 { chosen.push(0); chosen.push(np - 1); for _ in 0..3 { chosen.push(rng.below(np)); } chosen.sort(); chosen.dedup(); }
    for (k, &(ipos, opos, fl)) in run.flush_points.iter().enumerate() {
        ctx.count(&format!("point_kind_{}", fl));
        if fl == 3 { last_full = Some((ipos, opos)); }
        if chosen.contains(&k) {
            ctx.count("prefixes_checked");
            ctx.line(&format!("PFX id={} rp=FLUSH;seed={};inkey=full {} kind={} in={} out={} full={}", id, seed, cfg.describe(), fl, hex(&data[..ipos]), hex(&run.out[..opos]), hex(data)));
        }
    }
    if run.done {
        if let Some((ipos, opos)) = last_full {
            ctx.count("tails");
            ctx.line(&format!("TAIL id={} rp=FLUSH;seed={};inkey=full {} tail={} expect={} full={}", id, seed, cfg.describe(), hex(&run.out[opos..]), hex(&data[ipos..]), hex(data)));
        }
        ctx.line(&format!("ENC id={} rp=FLUSH;seed={} checks=rt modes=- {} in={} comp={}", id, seed, cfg.describe(), hex(data), hex(&run.out)));
    }
}

/// a no-sync flush followed later by a sync flush is equivalent to the sync flush alone
fn nosync_then_sync(ctx: &mut Ctx, cfg: &Cfg, data: &[u8]) {
    let id = ctx.id();
    let drive = |first: Option<TDEFLFlush>| -> Option<Vec<u8>> {
        let mut c = cfg.make();
        let mut out = vec![0u8; data.len() * 2 + 2000];
        let mut n = 0;
        let mut consumed = 0;
        if let Some(f) = first {
            let (st, i, o) = compress(&mut c, data, &mut out[n..], f);
            if st != TDEFLStatus::Okay { return None; }
            n += o; consumed = i;
        }
        let (st, _, o) = compress(&mut c, &data[consumed..], &mut out[n..], TDEFLFlush::Sync);
        if st != TDEFLStatus::Okay { return None; }
        n += o;
        let (st, _, o) = compress(&mut c, &[], &mut out[n..], TDEFLFlush::Finish);
        if st != TDEFLStatus::Done { return None; }
        n += o; out.truncate(n); Some(out)
    };
    let a = drive(Some(TDEFLFlush::NoSync));
    let b = drive(None);
    ctx.eval(fnv(data) ^ 0x55);
    ctx.count("nosync_sync_pairs");
    match (a, b) {
        (Some(a), Some(b)) => {
            if a != b { ctx.violation(id, "nosync", format!("NoSync+Sync emitted {} bytes, Sync alone {} bytes, and they differ [{}]", a.len(), b.len(), cfg.describe()), format!("NOSYNC {} in={}", cfg.describe(), hex(data))); }
            ctx.line(&format!("ENC id={} rp=NOSYNC checks=rt modes=- {} in={} comp={}", id, cfg.describe(), hex(data), hex(&a)));
        }
        _ => ctx.violation(id, "status", "unexpected status in NoSync/Sync sequence".into(), format!("NOSYNC {} in={}", cfg.describe(), hex(data))),
    }
}

/// A full flush requested when nothing is pending (the previous call already flushed everything)
/// must still cut the history: the data after it repeats the data before it, and the tail has to
/// decode on its own.
fn idle_full_flush(ctx: &mut Ctx, cfg: &Cfg, a: &[u8], b: &[u8], first: u8) {
    let id = ctx.id();
    let mut data = a.to_vec(); data.extend_from_slice(b);
    let replay = format!("IDLEFULL {} first={} split={} in={}", cfg.describe(), first, a.len(), hex(&data));
    ctx.eval(fnv(&data) ^ first as u64 ^ 0x1d1e);
    ctx.count("idle_full_cases");
    let mut c = cfg.make();
    let mut out = vec![0u8; data.len() * 2 + 4000];
    let mut n = 0;
    let (st, i, o) = compress(&mut c, a, &mut out[n..], flush_of(first));
    if st != TDEFLStatus::Okay || i != a.len() { ctx.violation(id, "status", format!("first call: {:?} consumed {} of {}", st, i, a.len()), replay); return; }
    n += o;
    let (st, _, o) = compress(&mut c, &[], &mut out[n..], TDEFLFlush::Full);
    if st != TDEFLStatus::Okay { ctx.violation(id, "status", format!("idle full flush: {:?}", st), replay); return; }
    n += o;
    let cut = n;
    let (st, i, o) = compress(&mut c, b, &mut out[n..], TDEFLFlush::Finish);
    if st != TDEFLStatus::Done || i != b.len() { ctx.violation(id, "status", format!("finish call: {:?} consumed {} of {}", st, i, b.len()), replay); return; }
    n += o; out.truncate(n);
    ctx.count("tails");
    ctx.line(&format!("TAIL id={} rp=IDLEFULL;first={};split={};inkey=full {} tail={} expect={} full={}", id, first, a.len(), cfg.describe(), hex(&out[cut..]), hex(b), hex(&data)));
    ctx.line(&format!("ENC id={} rp=IDLEFULL;first={};split={} checks=rt modes=- {} in={} comp={}", id, first, a.len(), cfg.describe(), hex(&data), hex(&out)));
}

/// The same flush request repeated with empty input while earlier output is still being drained
/// through a small buffer: the first repetition made when nothing is pending any more is a
/// qualifying flush point (it must complete the flush the drained calls could not perform).
/// `a` is sized so that the engine cuts a block of its own just as the input of the first call ends.
fn pending_flush(ctx: &mut Ctx, cfg: &Cfg, a: &[u8], b: &[u8], flush: u8, out_size: usize) {
    let id = ctx.id();
    let mut data = a.to_vec(); data.extend_from_slice(b);
    let replay = format!("PENDFLUSH {} flush={} split={} osz={} in={}", cfg.describe(), flush, a.len(), out_size, hex(&data));
    ctx.eval(fnv(&data) ^ (flush as u64) << 3 ^ out_size as u64 ^ 0x9e4d);
    ctx.count("pending_flush_cases");
    let mut c = cfg.make();
    let mut outv: Vec<u8> = vec![];
    let mut buf = vec![0u8; out_size];
    let mut ipos = 0usize;
    let mut prev_spare = true;
    let mut drained_calls = 0;
    let mut point: Option<usize> = None;
    for _ in 0..200_000 {
        let (st, cin, cout) = compress(&mut c, &a[ipos..], &mut buf, flush_of(flush));
        if st != TDEFLStatus::Okay { ctx.violation(id, "status", format!("flush call: {:?}", st), replay); return; }
        outv.extend_from_slice(&buf[..cout]); ipos += cin;
        let spare = cout < out_size;
        if ipos == a.len() && spare && prev_spare { point = Some(outv.len()); break; }
        if !prev_spare { drained_calls += 1; }
        prev_spare = spare;
    }
    let Some(opos) = point else { ctx.violation(id, "progress", "no qualifying flush point reached".into(), replay); return; };
    if drained_calls > 0 { ctx.count("pending_flush_with_drain"); }
    ctx.count("prefixes_checked");
    ctx.line(&format!("PFX id={} rp=PENDFLUSH;flush={};split={};osz={};inkey=full {} kind={} in={} out={} full={}", id, flush, a.len(), out_size, cfg.describe(), flush, hex(a), hex(&outv), hex(&data)));
    let mut big = vec![0u8; b.len() * 2 + 4000];
    let (st, i, o) = compress(&mut c, b, &mut big, TDEFLFlush::Finish);
    if st != TDEFLStatus::Done || i != b.len() { ctx.violation(id, "status", format!("finish call: {:?} consumed {} of {}", st, i, b.len()), replay); return; }
    outv.extend_from_slice(&big[..o]);
    if flush == 3 {
        ctx.count("tails");
        ctx.line(&format!("TAIL id={} rp=PENDFLUSH;flush={};split={};osz={};inkey=full {} tail={} expect={} full={}", id, flush, a.len(), out_size, cfg.describe(), hex(&outv[opos..]), hex(b), hex(&data)));
    }
    ctx.line(&format!("ENC id={} rp=PENDFLUSH;flush={};split={};osz={} checks=rt modes=- {} in={} comp={}", id, flush, a.len(), out_size, cfg.describe(), hex(&data), hex(&outv)));
}

pub fn run(ctx: &mut Ctx) {
    if let Some(lines) = ctx.replay_lines.clone() {
        for l in lines {
            let (tag, rest) = l.split_once(' ').unwrap_or(("", ""));
            let kv = crate::kv(rest);
            if tag == "IDLEFULL" {
                let cfg = Cfg { level: kv["level"].parse().unwrap(), strategy: kv["strategy"].parse().unwrap(), zlib: kv["fmt"] == "1", wb: kv["wb"].parse().unwrap() };
                let data = crate::tx::unhex(&kv["in"]);
                let k: usize = kv["split"].parse().unwrap();
                idle_full_flush(ctx, &cfg, &data[..k.min(data.len())], &data[k.min(data.len())..], kv["first"].parse().unwrap());
                continue;
            }
            if tag == "PENDFLUSH" {
                let cfg = Cfg { level: kv["level"].parse().unwrap(), strategy: kv["strategy"].parse().unwrap(), zlib: kv["fmt"] == "1", wb: kv["wb"].parse().unwrap() };
                let data = crate::tx::unhex(&kv["in"]);
                let k: usize = kv["split"].parse().unwrap();
                pending_flush(ctx, &cfg, &data[..k.min(data.len())], &data[k.min(data.len())..], kv["flush"].parse().unwrap(), kv["osz"].parse().unwrap());
                continue;
            }
            if tag != "FLUSH" && tag != "NOSYNC" { continue; }
            let cfg = Cfg { level: kv["level"].parse().unwrap(), strategy: kv["strategy"].parse().unwrap(), zlib: kv["fmt"] == "1", wb: kv["wb"].parse().unwrap() };
            let data = crate::tx::unhex(&kv["in"]);
            if tag == "FLUSH" { case(ctx, &cfg, &data, "replay", kv["seed"].parse().unwrap()); } else { nosync_then_sync(ctx, &cfg, &data); }
        }
        return;
    }
    let n = 150 * ctx.scale;
    for i in 0..n {
        let cfg = if i < 55 { Cfg { level: (i % 11) as u8, strategy: ((i / 11) % 5) as u8, zlib: i % 2 == 0, wb: 15 } } else { Cfg::random(&mut ctx.rng) };
        let kind = *ctx.rng.pick(plain::KINDS);
        let len = match ctx.rng.below(4) { 0 => ctx.rng.range(1, 600), 1 => ctx.rng.range(600, 9000), 2 => ctx.rng.range(9000, 70000), _ => ctx.rng.range(60000, 150000) };
        let data = plain::gen(&mut ctx.rng, kind, len);
        let seed = ctx.rng.next();
        case(ctx, &cfg, &data, kind, seed);
    }
    let m = 60 * ctx.scale;
    for _ in 0..m {
        let cfg = Cfg::random(&mut ctx.rng);
        let kind = *ctx.rng.pick(plain::KINDS);
        let len = ctx.rng.range(0, 40000);
        let data = plain::gen(&mut ctx.rng, kind, len);
        nosync_then_sync(ctx, &cfg, &data);
    }
    // idle full flush: flush, then Full with nothing pending, then data that repeats the earlier data
    for k in 0..(60 * ctx.scale) {
        let cfg = if k < 22 { Cfg { level: (k % 11) as u8, strategy: 0, zlib: k % 2 == 0, wb: 15 } } else { Cfg::random(&mut ctx.rng) };
        let kind = *ctx.rng.pick(plain::KINDS);
        let len = ctx.rng.range(40, 20000);
        let a = plain::gen(&mut ctx.rng, kind, len);
        let take = ctx.rng.range(20, a.len() + 1).min(a.len());
        let b = a[a.len() - take..].to_vec();
        let first = *ctx.rng.pick(&[1u8, 2, 2, 3, 5, 6, 7, 0]);
        idle_full_flush(ctx, &cfg, &a, &b, first);
    }
    // a flush repeated while output is pending: input lengths around the engine's own block cuts
    // (31 KiB of literals, 64 Ki LZ codes), small output buffers
    for k in 0..(50 * ctx.scale) {
        let cfg = if k % 2 == 0 { Cfg { level: *ctx.rng.pick(&[1u8, 2, 6, 6, 9]), strategy: 0, zlib: k % 4 == 0, wb: 15 } } else { Cfg::random(&mut ctx.rng) };
        let incompressible = k % 5 != 4;
        let len = if incompressible { *ctx.rng.pick(&[31744usize, 31745, 31800, 31900, 32000, 32002, 32003, 63488 + 200, 95232 + 300]) + if k % 7 == 0 { ctx.rng.range(0, 300) } else { 0 } } else { ctx.rng.range(1000, 90000) };
        let a = if incompressible { ctx.rng.bytes(len) } else { let kind = *ctx.rng.pick(plain::KINDS); plain::gen(&mut ctx.rng, kind, len) };
        let take = ctx.rng.range(20, 3000).min(a.len());
        let b = a[a.len() - take..].to_vec();
        let flush = *ctx.rng.pick(&[1u8, 2, 2, 3, 3]);
        let osz = *ctx.rng.pick(&[64usize, 300, 1000, 1000, 4096]);
        pending_flush(ctx, &cfg, &a, &b, flush, osz);
    }
}
