//! C01 — one-shot compress/decompress is lossless for every input and level.
use crate::plain;
use crate::tx::{hex, Ctx, fnv};
use miniz_oxide::deflate::{compress_to_vec, compress_to_vec_zlib};
use miniz_oxide::inflate::{decompress_to_vec, decompress_to_vec_zlib};
use std::panic::{catch_unwind, AssertUnwindSafe};

pub fn one(ctx: &mut Ctx, data: &[u8], level: u8, zlib: bool, tag: &str) {
    let id = ctx.id();
    let _ = miniz_oxide::verif_vec_trace::take();
    let mut vec_lines: Vec<String> = vec![];
    let r = catch_unwind(AssertUnwindSafe(|| {
        let c = if zlib { compress_to_vec_zlib(data, level) } else { compress_to_vec(data, level) };
        let tr = miniz_oxide::verif_vec_trace::take();
        let d = if zlib { decompress_to_vec_zlib(&c) } else { decompress_to_vec(&c) };
        let tr2 = miniz_oxide::verif_vec_trace::take();
        (c, d, tr, tr2)
    }));
    let r = r.map(|(c, d, tr, tr2)| {
        let fmt = |t: &Vec<[i64; 7]>, k: i64| -> String { let v: Vec<String> = t.iter().filter(|e| e[0] == k).map(|e| format!("{}:{}:{}:{}:{}:{}", e[1], e[2], e[3], e[4], e[5], e[6])).collect(); if v.is_empty() { "-".into() } else { v.join(";") } };
        vec_lines.push(format!("VECD in={} len={} calls={}", data.len(), c.len(), fmt(&tr, 2)));
        let (ok, st, len) = match &d { Ok(v) => (1, 0, v.len()), Err(e) => (0, e.status as i32, e.output.len()) };
        vec_lines.push(format!("VECI in={} limit={} ok={} st={} len={} calls={}", c.len(), usize::MAX, ok, st, len, fmt(&tr2, 1)));
        (c, d)
    });
    let replay = format!("RT level={} fmt={} in={}", level, zlib as u8, hex(data));
    ctx.eval(if data.len() > 3 { fnv(data) ^ (level as u64) << 1 ^ (zlib as u64) << 9 } else { 0 });
    ctx.count(&format!("level_{}", level.min(11)));
    ctx.count(&format!("kind_{}", tag));
    match r {
        Err(_) => ctx.violation(id, "panic", format!("panic in one-shot round trip, level {} zlib {} len {}", level, zlib, data.len()), replay),
        Ok((c, d)) => {
            match d {
                Ok(v) if v == data => {}
                Ok(v) => ctx.violation(id, "rt", format!("decompressed {} bytes differ from input {} bytes", v.len(), data.len()), replay.clone()),
                Err(e) => ctx.violation(id, "rt", format!("decompress_to_vec failed: {:?}", e.status), replay.clone()),
            }
            // level clamp: values above 10 behave as 10
            if level > 10 {
                let c10 = if zlib { compress_to_vec_zlib(data, 10) } else { compress_to_vec(data, 10) };
                if c10 != c { ctx.violation(id, "clamp", format!("level {} output differs from level 10", level), replay.clone()); }
            }
            ctx.sample(format!("level={} zlib={} kind={} in_len={} comp_len={}", level, zlib, tag, data.len(), c.len()));
            ctx.line(&format!("ENC id={} rp=RT checks=rt level={} fmt={} wb=15 in={} comp={}", id, level, zlib as u8, hex(data), hex(&c)));
            for l in &vec_lines { ctx.count("vec_loop_lines"); ctx.line(&format!("{} id={} rp=RT;level={};fmt={};inkey=full full={}", l, id, level, zlib as u8, hex(data))); }
        }
    }
}

pub fn run(ctx: &mut Ctx) {
    if let Some(lines) = ctx.replay_lines.clone() {
        for l in lines { if let Some(rest) = l.strip_prefix("RT ") { let kv = crate::kv(rest); one(ctx, &crate::tx::unhex(&kv["in"]), kv["level"].parse().unwrap(), kv["fmt"] == "1", "replay"); } }
        return;
    }
    let levels: Vec<u8> = vec![0, 1, 2, 3, 4, 5, 6, 7, 8, 9, 10, 11, 200, 255];
    // tiny inputs, every level, both formats
    for len in 0..=3usize {
        for &lv in &levels { for z in [false, true] { let d = ctx.rng.bytes(len); one(ctx, &d, lv, z, "tiny"); } }
    }
    // lengths 0..300 (stride in quick)
    let stride = if ctx.quick() { 7 } else { 1 };
    let mut len = 4;
    while len <= 300 {
        let kind = *ctx.rng.pick(plain::KINDS);
        let d = plain::gen(&mut ctx.rng, kind, len);
        let lv = *ctx.rng.pick(&levels); let z = ctx.rng.chance(1, 2);
        one(ctx, &d, lv, z, kind);
        len += stride;
    }
    // thresholds
    let th = plain::threshold_lengths();
    for (i, &n) in th.iter().enumerate() {
        if ctx.quick() && i % 3 != (ctx.seed % 3) as usize && n > 300 { continue; }
        let kind = *ctx.rng.pick(plain::KINDS);
        let d = plain::gen(&mut ctx.rng, kind, n);
        let lv = *ctx.rng.pick(&levels); let z = ctx.rng.chance(1, 2);
        one(ctx, &d, lv, z, kind);
    }
    // block-size boundaries: incompressible and high-byte data of exactly the sizes at which a block is cut
    // or a stored block is emitted whole (a 32768-byte block fills the dictionary ring exactly)
    for &n in &[31744usize, 31745, 32767, 32768, 32769, 65535, 65536, 65537] {
        for &lv in &[0u8, 1, 2, 6, 9] {
            for kind in ["random", "highbyte"] {
                if ctx.quick() && kind == "highbyte" && lv != 1 { continue; }
                let d = plain::gen(&mut ctx.rng, kind, n);
                one(ctx, &d, lv, n % 2 == 0, "block_size_boundary");
            }
        }
    }
    // random sizes, all kinds x levels
    let n_cases = 120 * ctx.scale;
    for _ in 0..n_cases {
        let kind = *ctx.rng.pick(plain::KINDS);
        let n = match ctx.rng.below(6) { 0 => ctx.rng.range(4, 600), 1 => ctx.rng.range(600, 9000), 2 => ctx.rng.range(9000, 70000), 3 => ctx.rng.range(30000, 36000), 4 => ctx.rng.range(60000, 90000), _ => ctx.rng.range(70000, 200000) };
        let d = plain::gen(&mut ctx.rng, kind, n);
        let lv = *ctx.rng.pick(&levels); let z = ctx.rng.chance(1, 2);
        one(ctx, &d, lv, z, kind);
    }
    // poorly compressible data with sparse short matches at lazy levels: the grow-and-retry loop of
    // compress_to_vec is re-entered after a block flush in the middle of the input
    for _ in 0..(60 * ctx.scale) {
        let len = ctx.rng.range(60000, 75000);
        let mut d = Vec::with_capacity(len);
        let alpha = ctx.rng.range(30, 200);
        while d.len() < len {
            if d.len() > 40 && ctx.rng.chance(1, 7) {
                let dist = ctx.rng.range(1, d.len().min(3000)); let k = ctx.rng.range(3, 7);
                for _ in 0..k { let b = d[d.len() - dist]; d.push(b); }
            } else { d.push(ctx.rng.below(alpha) as u8); }
        }
        d.truncate(len);
        let lv = ctx.rng.range(4, 10) as u8; let z = ctx.rng.chance(1, 2);
        one(ctx, &d, lv, z, "lazy_boundary");
    }
    for _ in 0..(60 * ctx.scale) {
        let len = ctx.rng.range(32000, 63000);
        let d = plain::gen(&mut ctx.rng, "fat_boundary", len);
        let lv = ctx.rng.range(2, 10) as u8; let z = ctx.rng.chance(1, 2);
        one(ctx, &d, lv, z, "fat_boundary");
    }
    for _ in 0..(60 * ctx.scale) {
        let len = ctx.rng.range(33000, 50000);
        let d = plain::gen(&mut ctx.rng, "lazy_cut", len);
        let lv = ctx.rng.range(4, 10) as u8; let z = ctx.rng.chance(1, 2);
        one(ctx, &d, lv, z, "lazy_cut");
    }
    // stale hash entries almost a whole dictionary back (mostly level 1, whose matcher loads up to
    // 4 KiB of lookahead into the ring before matching), and Huffman trees deeper than the limit
    for _ in 0..(40 * ctx.scale) {
        let len = ctx.rng.range(36000, 140000);
        let d = plain::gen(&mut ctx.rng, "far_trigram", len);
        let lv = *ctx.rng.pick(&[1u8, 1, 1, 1, 2, 3, 6, 9]); let z = ctx.rng.chance(1, 2);
        one(ctx, &d, lv, z, "far_trigram");
    }
    for _ in 0..(12 * ctx.scale) {
        let d = plain::gen(&mut ctx.rng, "deep_tree", 60000);
        let lv = ctx.rng.range(1, 10) as u8; let z = ctx.rng.chance(1, 2);
        one(ctx, &d, lv, z, "deep_tree");
    }
    // several windows long
    let n_big = if ctx.quick() { 3 } else { 40 };
    for _ in 0..n_big {
        let kind = *ctx.rng.pick(plain::KINDS);
        let n = ctx.rng.range(200_000, if ctx.quick() { 600_000 } else { 4_000_000 });
        let d = plain::gen(&mut ctx.rng, kind, n);
        let lv = *ctx.rng.pick(&levels); let z = ctx.rng.chance(1, 2);
        one(ctx, &d, lv, z, kind);
    }
}
