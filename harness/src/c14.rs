//! C14 — streaming deflate obeys its status protocol and always makes progress.
use crate::comp::Cfg;
use crate::plain;
use crate::tx::{fnv, hex, Ctx};
use miniz_oxide::deflate::core::{CompressorOxide, TDEFLStatus};
use miniz_oxide::deflate::stream::deflate;
use miniz_oxide::{MZError, MZFlush, MZStatus};
use std::panic::{catch_unwind, AssertUnwindSafe};

const CHUNKS: [usize; 3] = [0, 1, usize::MAX];
const OUTS: [usize; 4] = [0, 1, 5, 200_000];
const FLUSHES: [MZFlush; 4] = [MZFlush::None, MZFlush::Sync, MZFlush::Full, MZFlush::Finish];
pub const NACT: usize = 48;
pub fn act(a: usize) -> (usize, usize, MZFlush) { (CHUNKS[a % 3], OUTS[(a / 3) % 4], FLUSHES[(a / 12) % 4]) }
pub fn act_name(a: usize) -> String { format!("c{}o{}f{}", a % 3, (a / 3) % 4, (a / 12) % 4) }

struct Runner<'a> { klines: Vec<String>, record: bool, data: &'a [u8], limit: usize, c: CompressorOxide, ipos: usize, out: Vec<u8>, ended: bool, finishing: bool, dead: bool, calls: usize, trace: String }

impl<'a> Runner<'a> {
    fn step(&mut self, chunk_sel: usize, out_len: usize, flush: MZFlush, problems: &mut Vec<(String, String)>) -> bool {
        // Finish promises that no input follows what has been offered: the stream's input is frozen there
        let left = self.limit - self.ipos;
        // once Finish has been issued the caller re-offers all unconsumed input on every call
        let chunk = if self.finishing && flush == MZFlush::Finish { left } else { chunk_sel.min(left) };
        if flush == MZFlush::Finish && !self.finishing && out_len > 0 && !self.dead && !self.ended { self.limit = self.ipos + chunk; }
        let mut out = vec![0u8; out_len];
        self.calls += 1;
        let calls = self.calls;
        let snap_before = (self.c.verif_snapshot(), self.c.prev_return_status(), self.c.adler32());
        let (ipos, data) = (self.ipos, self.data);
        let c = &mut self.c;
        let r = catch_unwind(AssertUnwindSafe(|| deflate(c, &data[ipos..ipos + chunk], &mut out, flush)));
        let r = match r { Ok(r) => r, Err(_) => { problems.push(("panic".into(), format!("panic in deflate() call #{}", calls))); return false; } };
        let tr = self.c.verif_take_trace();
        if self.record {
            // correspondence line for the Lean model of deflate(): the inner compress() calls as the engine script
            let inner: Vec<&[u64; 8]> = tr.iter().filter(|e| e[0] == 2).collect();
            let script: Vec<String> = inner.iter().map(|e| format!("{}:{}:{}", e[4] as i64, e[5], e[6])).collect();
            let args: Vec<String> = inner.iter().map(|e| format!("{}:{}", e[2], e[3])).collect();
            let code = match r.status { Ok(s) => s as i32, Err(e) => e as i32 };
            self.klines.push(format!("DFL prevdone={} in={} out={} flush={} res={}:{}:{} script={} args={}", (snap_before.1 == TDEFLStatus::Done) as u8, chunk, out_len, flush as i32, code, r.bytes_consumed, r.bytes_written, if script.is_empty() { "-".into() } else { script.join(";") }, if args.is_empty() { "-".into() } else { args.join(";") }));
        }
        self.trace.push_str(&format!("{}/{}/{:?}->{:?}:{}:{};", chunk, out_len, flush, r.status, r.bytes_consumed, r.bytes_written));
        if r.bytes_consumed > chunk || r.bytes_written > out_len { problems.push(("counts".into(), format!("call #{}: consumed {}/{} written {}/{}", calls, r.bytes_consumed, chunk, r.bytes_written, out_len))); return false; }
        self.ipos += r.bytes_consumed;
        self.out.extend_from_slice(&out[..r.bytes_written]);
        if out_len == 0 {
            if r.status != Err(MZError::Buf) || r.bytes_consumed != 0 || r.bytes_written != 0 { problems.push(("emptyout".into(), format!("call #{} with an empty output buffer returned {:?}", calls, r.status))); }
            let snap_after = (self.c.verif_snapshot(), self.c.prev_return_status(), self.c.adler32());
            if snap_after != snap_before { problems.push(("emptyout".into(), format!("call #{} with an empty output buffer changed the compressor state", calls))); }
            return true;
        }
        if self.dead {
            if r.status != Err(MZError::Param) || r.bytes_consumed != 0 || r.bytes_written != 0 { problems.push(("dead".into(), format!("call #{} after a usage error returned {:?}", calls, r.status))); }
            return true;
        }
        if self.ended {
            if flush == MZFlush::Finish {
                if r.status != Ok(MZStatus::StreamEnd) || r.bytes_written != 0 || r.bytes_consumed != 0 { problems.push(("afterend".into(), format!("Finish after stream end returned {:?} ({} written)", r.status, r.bytes_written))); }
            } else if r.status != Err(MZError::Buf) || r.bytes_written != 0 || r.bytes_consumed != 0 { problems.push(("afterend".into(), format!("{:?} after stream end returned {:?}", flush, r.status))); }
            return true;
        }
        if self.finishing && flush != MZFlush::Finish {
            // reported as an error rather than corrupting the stream; the compressor stays failed
            if r.status != Err(MZError::Param) || r.bytes_consumed != 0 || r.bytes_written != 0 { problems.push(("afterfinish".into(), format!("call #{}: {:?} after Finish returned {:?} ({} consumed, {} written)", calls, flush, r.status, r.bytes_consumed, r.bytes_written))); }
            self.dead = true;
            return true;
        }
        if flush == MZFlush::Finish { self.finishing = true; }
        match r.status {
            Ok(MZStatus::StreamEnd) => {
                self.ended = true;
                if flush != MZFlush::Finish { problems.push(("streamend".into(), format!("stream end reported for {:?}", flush))); }
                if self.ipos != self.limit { problems.push(("streamend".into(), "stream end with unconsumed input".into())); }
                if self.c.prev_return_status() != TDEFLStatus::Done { problems.push(("streamend".into(), "stream end but the compressor is not Done".into())); }
            }
            Ok(_) => {
                if r.bytes_consumed == 0 && r.bytes_written == 0 && flush == MZFlush::None { problems.push(("progress".into(), format!("call #{} reported Ok without progress and without a flush request", calls))); }
                if flush == MZFlush::Finish && r.bytes_written != out_len { problems.push(("finish".into(), format!("call #{}: Finish returned Ok with only {} of {} output bytes used", calls, r.bytes_written, out_len))); }
            }
            Err(MZError::Buf) => {
                if chunk > 0 || flush != MZFlush::None { problems.push(("progress".into(), format!("call #{} with output space and {} returned a buffer error", calls, if chunk > 0 { "input" } else { "a flush request" }))); }
            }
            Err(e) => problems.push(("status".into(), format!("call #{}: unexpected {:?}", calls, e))),
        }
        true
    }
}

pub fn run_sequence(cfg: &Cfg, data: &[u8], actions: &[usize], seed: u64, record: bool) -> (Vec<(String, String)>, Option<(Vec<u8>, usize, usize)>, String, Vec<String>) {
    let mut problems = vec![];
    let mut rn = Runner { klines: vec![], record, data, limit: data.len(), c: cfg.make(), ipos: 0, out: vec![], ended: false, finishing: false, dead: false, calls: 0, trace: String::new() };
    let mut rng = crate::rng::Rng::new(seed);
    for &a in actions {
        let (c, o, f) = act(a);
        if !rn.step(c, o, f, &mut problems) || !problems.is_empty() { return (problems, None, rn.trace, rn.klines); }
    }
    if rn.dead { return (problems, None, rn.trace, rn.klines); }
    // finish: repeating Finish must terminate
    let out_len = *rng.pick(&[1usize, 2, 7, 64, 1000, 200_000]);
    let budget = (data.len() * 2 + 2000) / out_len + 200;
    let mut n = 0;
    while !rn.ended {
        n += 1;
        if n > budget { problems.push(("finish".into(), format!("repeating Finish with {}-byte buffers did not end the stream within {} calls", out_len, budget))); break; }
        if !rn.step(usize::MAX, out_len, MZFlush::Finish, &mut problems) || !problems.is_empty() { return (problems, None, rn.trace, rn.klines); }
    }
    // after the end
    if rn.ended && problems.is_empty() {
        rn.step(0, 10, MZFlush::Finish, &mut problems);
        rn.step(0, 10, *rng.pick(&[MZFlush::None, MZFlush::Sync, MZFlush::Full]), &mut problems);
        rn.step(0, 10, MZFlush::Finish, &mut problems);
    }
    let consumed = rn.ipos;
    let limit = rn.limit;
    let kl = std::mem::take(&mut rn.klines);
    (problems, if rn.ended { Some((rn.out, consumed, limit)) } else { None }, rn.trace, kl)
}

fn one(ctx: &mut Ctx, cfg: &Cfg, data: &[u8], actions: &[usize], seed: u64, emit: bool) {
    let (problems, fin, trace, klines) = run_sequence(cfg, data, actions, seed, emit);
    for (k, l) in klines.iter().enumerate() { let id = ctx.next_id + 1; ctx.line(&format!("{} id={} call={}", l, id, k)); }
    ctx.evals += 1; ctx.nontrivial.insert(fnv(data) ^ seed.wrapping_mul(31) ^ (actions.len() as u64) << 56 | 1);
    let acts: Vec<String> = actions.iter().map(|a| a.to_string()).collect();
    let replay = format!("DEFSEQ {} seed={} actions={} in={}", cfg.describe(), seed, if acts.is_empty() { "-".into() } else { acts.join(",") }, hex(data));
    if !problems.is_empty() {
        let id = ctx.id();
        for (cl, m) in problems { ctx.violation(id, &cl, format!("[{} len={} actions={}] {} trace={}", cfg.describe(), data.len(), actions.iter().map(|&a| act_name(a)).collect::<Vec<_>>().join(" "), m, &trace[..trace.len().min(300)]), replay.clone()); }
        return;
    }
    if let Some((out, consumed, limit)) = fin {
        if consumed != limit { let id = ctx.id(); ctx.violation(id, "streamend", format!("stream ended with {} of {} input bytes consumed", consumed, limit), replay.clone()); }
        let data = &data[..limit];
        if emit {
            let id = ctx.id();
            ctx.line(&format!("ENC id={} rp=DEFSEQ;seed={};actions={} checks=rt modes=- {} in={} comp={}", id, seed, if acts.is_empty() { "-".into() } else { acts.join(",") }, cfg.describe(), hex(data), hex(&out)));
        }
    }
}

pub fn run(ctx: &mut Ctx) {
    if let Some(lines) = ctx.replay_lines.clone() {
        for l in lines { if let Some(rest) = l.strip_prefix("DEFSEQ ") { let kv = crate::kv(rest);
            let cfg = Cfg { level: kv["level"].parse().unwrap(), strategy: kv["strategy"].parse().unwrap(), zlib: kv["fmt"] == "1", wb: kv["wb"].parse().unwrap() };
            let actions: Vec<usize> = if kv["actions"] == "-" { vec![] } else { kv["actions"].split(',').map(|x| x.parse().unwrap()).collect() };
            one(ctx, &cfg, &crate::tx::unhex(&kv["in"]), &actions, kv["seed"].parse().unwrap(), true); } }
        return;
    }
    let big_n = if ctx.quick() { 9000 } else { 70000 };
    let inputs: Vec<Vec<u8>> = vec![vec![], vec![b'a'], plain::gen(&mut ctx.rng, "words", 60), plain::gen(&mut ctx.rng, "sparse3", 3000), plain::gen(&mut ctx.rng, "random", big_n)];
    // depth 3 (110 592 sequences per input and level) only in the optimised build: the debug build repeats depth 2
    let depth = if ctx.quick() || cfg!(debug_assertions) { 2 } else { 3 };
    let total = NACT.pow(depth as u32);
    for (ii, data) in inputs.iter().enumerate() {
        for (li, level) in [0u8, 1, 6].iter().enumerate() {
            let cfg = Cfg { level: *level, strategy: 0, zlib: (ii + li) % 2 == 0, wb: 15 };
            for idx in 0..total {
                let mut actions = vec![]; let mut x = idx; for _ in 0..depth { actions.push(x % NACT); x /= NACT; }
                let seed = idx as u64 * 31 + ii as u64;
                one(ctx, &cfg, data, &actions, seed, idx % 97 == 0);
                ctx.count("exhaustive");
            }
        }
    }
    for _ in 0..(600 * ctx.scale) {
        let cfg = Cfg::random(&mut ctx.rng);
        let kind = *ctx.rng.pick(plain::KINDS);
        let n = match ctx.rng.below(3) { 0 => ctx.rng.range(0, 50), 1 => ctx.rng.range(50, 5000), _ => ctx.rng.range(5000, 100000) };
        let data = plain::gen(&mut ctx.rng, kind, n);
        let k = ctx.rng.range(0, 14);
        let actions: Vec<usize> = (0..k).map(|_| ctx.rng.below(NACT)).collect();
        let seed = ctx.rng.next();
        one(ctx, &cfg, &data, &actions, seed, true);
        ctx.count("random_schedules");
    }
    ctx.sample(format!("depth-{} exhaustive over 48 actions (chunk 0/1/rest x out 0/1/5/200000 x None/Sync/Full/Finish) on 5 inputs x levels 0,1,6; e.g. [{} {}]", depth, act_name(17), act_name(40)));
}
