//! C18 — reset restores fresh behaviour after any history; results are deterministic.
use crate::comp::*;
use crate::plain;
use crate::sgen::{self, GenCfg};
use crate::tx::{fnv, hex, Ctx};
use miniz_oxide::deflate::core::{compress, CompressorOxide, TDEFLFlush};
use miniz_oxide::inflate::core::DecompressorOxide;
use miniz_oxide::inflate::stream::{inflate, FullReset, InflateState, MinReset, ZeroReset};
use miniz_oxide::{DataFormat, MZFlush};

/// Drive a compressor over `data` with a seeded schedule; returns every (status, in, out) and all bytes.
fn drive_comp(c: &mut CompressorOxide, data: &[u8], seed: u64, max_calls: usize, finish: bool) -> (Vec<(i32, usize, usize)>, Vec<u8>) {
    let mut rng = crate::rng::Rng::new(seed);
    let mut pos = 0; let mut log = vec![]; let mut out = vec![];
    let mut finishing = false;
    for k in 0..max_calls {
        let left = data.len() - pos;
        let chunk = if finishing { left } else { match rng.below(3) { 0 => left, 1 => rng.range(0, 100).min(left), _ => rng.range(0, 20000).min(left) } };
        if finish && chunk == left { finishing = true; }
        let fl = if finishing { 4u8 } else { *rng.pick(&[0u8, 0, 0, 2, 3, 1, 7]) };
        let mut o = vec![0u8; *rng.pick(&[1usize, 10, 1000, 100000])];
        let (st, i, n) = compress(c, &data[pos..pos + chunk], &mut o, flush_of(fl));
        log.push((st as i32, i, n)); out.extend_from_slice(&o[..n]); pos += i.min(chunk);
        if (st as i32) != 0 { break; }
        let _ = k;
    }
    (log, out)
}

fn comp_case(ctx: &mut Ctx, cfg: &Cfg, a: &[u8], b: &[u8], seed: u64) {
    let id = ctx.id();
    let replay = format!("RCOMP {} seed={} a={} in={}", cfg.describe(), seed, hex(a), hex(b));
    ctx.eval(fnv(a) ^ fnv(b) ^ seed);
    ctx.count("compressor_reset_cases");
    let mut rng = crate::rng::Rng::new(seed);
    let mut used = cfg.make();
    // history: abandon anywhere, maybe finish, maybe end in a usage error
    let hist_calls = rng.range(0, 12);
    let fin = rng.chance(1, 3);
    let (hlog, _) = drive_comp(&mut used, a, seed ^ 0xA, hist_calls, fin);
    if rng.chance(1, 4) { let mut o = [0u8; 64]; let _ = compress(&mut used, b"x", &mut o, TDEFLFlush::Finish); let _ = compress(&mut used, b"y", &mut o, TDEFLFlush::None); ctx.count("history_usage_error"); }
    ctx.count(&format!("history_last_status_{}", hlog.last().map(|x| x.0).unwrap_or(9)));
    used.reset();
    let mut fresh = cfg.make();
    let (l1, o1) = drive_comp(&mut used, b, seed ^ 0xB, 100000, true);
    let (l2, o2) = drive_comp(&mut fresh, b, seed ^ 0xB, 100000, true);
    if l1 != l2 || o1 != o2 {
        let k = o1.iter().zip(o2.iter()).position(|(x, y)| x != y).unwrap_or(o1.len().min(o2.len()));
        ctx.violation(id, "compressor", format!("after reset the compressor emitted {} bytes, a fresh one {} bytes (first difference at {}; call logs equal: {}) [{}]", o1.len(), o2.len(), k, l1 == l2, cfg.describe()), replay.clone());
    }
    ctx.line(&format!("ENC id={} rp=RCOMP;seed={};a={} checks=rt modes=- {} in={} comp={}", id, seed, hex(&a[..a.len().min(2000)]), cfg.describe(), hex(b), hex(&o1)));
}

fn drive_inflate(st: &mut InflateState, z: &[u8], seed: u64, max_calls: usize) -> (Vec<(i32, usize, usize)>, Vec<u8>) {
    let mut rng = crate::rng::Rng::new(seed);
    let mut pos = 0; let mut log = vec![]; let mut out = vec![];
    for k in 0..max_calls {
        let left = z.len() - pos;
        let chunk = match rng.below(3) { 0 => left, 1 => rng.range(0, 30).min(left), _ => rng.range(0, 3000).min(left) };
        let fl = if chunk == left && k > 0 && rng.chance(1, 2) { MZFlush::Finish } else { MZFlush::None };
        let mut o = vec![0u8; *rng.pick(&[1usize, 17, 1000, 70000])];
        let r = inflate(st, &z[pos..pos + chunk], &mut o, fl);
        let code = match r.status { Ok(s) => s as i32, Err(e) => e as i32 };
        log.push((code, r.bytes_consumed, r.bytes_written)); out.extend_from_slice(&o[..r.bytes_written]); pos += r.bytes_consumed;
        if code == 1 || code == -3 || (code == -5 && chunk == left && r.bytes_written == 0) { break; }
        if fl == MZFlush::Finish && code != 0 && code != -5 { break; }
    }
    (log, out)
}

fn inflate_case(ctx: &mut Ctx, a: &[u8], b: &[u8], b_tag: &str, zlib: bool, seed: u64) {
    let id = ctx.id();
    let replay = format!("RINFL fmt={} seed={} a={} data={}", zlib as u8, seed, hex(a), hex(b));
    ctx.eval(fnv(a) ^ fnv(b) ^ seed ^ 0x18);
    let fmt = if zlib { DataFormat::Zlib } else { DataFormat::Raw };
    let mut rng = crate::rng::Rng::new(seed);
    let hist_calls = rng.range(0, 10);
    for policy in 0..4 {
        ctx.count(&format!("inflate_reset_policy_{}", policy));
        let mut used = InflateState::new_boxed(if rng.chance(1, 2) { fmt } else { DataFormat::Raw });
        let (hlog, _) = drive_inflate(&mut used, a, seed ^ 0xC, hist_calls);
        ctx.count(&format!("inflate_history_last_{}", hlog.last().map(|x| x.0).unwrap_or(9)));
        let name = match policy {
            0 => { used.reset_as(MinReset); // MinReset keeps the data format of the used state
                   "MinReset" }
            1 => { used.reset_as(ZeroReset); "ZeroReset" }
            2 => { used.reset_as(FullReset(fmt)); "FullReset" }
            _ => { used.reset(fmt); "reset" }
        };
        // policies 0 and 1 keep the previous format: compare with a fresh state of that format
        let mut fresh = InflateState::new_boxed(fmt);
        if policy < 2 {
            // rebuild `used` with the right format for a fair comparison
            let mut u2 = InflateState::new_boxed(fmt);
            let _ = drive_inflate(&mut u2, a, seed ^ 0xC, hist_calls);
            if policy == 0 { u2.reset_as(MinReset); } else { u2.reset_as(ZeroReset); }
            used = u2;
        }
        let (l1, o1) = drive_inflate(&mut used, b, seed ^ 0xD, 400000);
        let (l2, o2) = drive_inflate(&mut fresh, b, seed ^ 0xD, 400000);
        if l1 != l2 || o1 != o2 {
            let k = o1.iter().zip(o2.iter()).position(|(x, y)| x != y).unwrap_or(o1.len().min(o2.len()));
            let reach = if b_tag.contains("dist_into_pre") { "a match reaching before the start of the stream" } else { "no match before the start" };
            ctx.violation(id, "inflate", format!("{}: after the reset the decoder returned {} bytes / {} calls, a fresh one {} bytes / {} calls (first output difference at {}); second stream has {} [{}]", name, o1.len(), l1.len(), o2.len(), l2.len(), k, reach, b_tag), replay.clone());
        }
    }
    // low-level decoder: init()
    {
        use miniz_oxide::inflate::core::{decompress, inflate_flags::*};
        let mut used = DecompressorOxide::new();
        let mut buf = vec![0u8; 70000];
        let cut = rng.below(a.len() + 1);
        let _ = decompress(&mut used, &a[..cut], &mut buf, 0, TINFL_FLAG_USING_NON_WRAPPING_OUTPUT_BUF | TINFL_FLAG_HAS_MORE_INPUT | if zlib { 1 } else { 0 });
        used.init();
        let mut fresh = DecompressorOxide::new();
        let f = TINFL_FLAG_USING_NON_WRAPPING_OUTPUT_BUF | if zlib { 1 } else { 0 };
        let mut o1 = vec![0u8; 300000]; let mut o2 = vec![0u8; 300000];
        let r1 = decompress(&mut used, b, &mut o1, 0, f);
        let r2 = decompress(&mut fresh, b, &mut o2, 0, f);
        ctx.count("decoder_init_cases");
        if r1 != r2 || o1 != o2 { ctx.violation(id, "decoder", format!("init(): {:?} vs fresh {:?}", r1, r2), replay.clone()); }
    }
}

fn c_reset_case(ctx: &mut Ctx, a: &[u8], b: &[u8], level: i32, seed: u64) {
    use miniz_oxide_c_api::*;
    let id = ctx.id();
    let replay = format!("RCAPI level={} seed={} a={} in={}", level, seed, hex(a), hex(b));
    ctx.eval(fnv(a) ^ fnv(b) ^ seed ^ 0x19);
    ctx.count("c_reset_cases");
    let run = |s: &mut mz_stream, data: &[u8], calls: usize, seed: u64| -> (Vec<i32>, Vec<u8>) {
        let mut rng = crate::rng::Rng::new(seed); let mut pos = 0; let mut out = vec![]; let mut log = vec![];
        let mut finishing = false;
        for _ in 0..calls {
            let left = data.len() - pos; let ain = if finishing || rng.chance(1, 2) { left } else { rng.range(0, 500).min(left) };
            if ain == left { finishing = true; }
            let mut o = vec![0u8; *rng.pick(&[3usize, 100, 100000])];
            s.next_in = data[pos..].as_ptr(); s.avail_in = ain as u32; s.next_out = o.as_mut_ptr(); s.avail_out = o.len() as u32;
            let fl = if ain == left { 4 } else { 0 };
            let rc = unsafe { mz_deflate(s, fl) };
            let ui = ain - s.avail_in as usize; let uo = o.len() - s.avail_out as usize;
            pos += ui; out.extend_from_slice(&o[..uo]); log.push(rc);
            if rc != 0 { break; }
        }
        (log, out)
    };
    unsafe {
        let mut used = mz_stream::default(); mz_deflateInit(&mut used, level);
        let mut rng = crate::rng::Rng::new(seed);
        let _ = run(&mut used, a, rng.range(0, 6), seed ^ 1);
        let rc = mz_deflateReset(&mut used);
        if rc != 0 { ctx.violation(id, "c_reset", format!("mz_deflateReset returned {}", rc), replay.clone()); }
        if used.total_in != 0 || used.total_out != 0 { ctx.violation(id, "c_reset", "totals not cleared by mz_deflateReset".into(), replay.clone()); }
        let mut fresh = mz_stream::default(); mz_deflateInit(&mut fresh, level);
        let (l1, o1) = run(&mut used, b, 100000, seed ^ 2);
        let (l2, o2) = run(&mut fresh, b, 100000, seed ^ 2);
        if l1 != l2 || o1 != o2 { ctx.violation(id, "c_reset", format!("after mz_deflateReset: {} bytes vs fresh {} bytes", o1.len(), o2.len()), replay.clone()); }
        if used.total_out != fresh.total_out || used.adler != fresh.adler { ctx.violation(id, "c_reset", "totals/adler differ from a fresh stream".into(), replay.clone()); }
        mz_deflateEnd(&mut used); mz_deflateEnd(&mut fresh);
    }
}

fn gen_b(ctx: &mut Ctx, zlib: bool, into_pre: bool) -> (Vec<u8>, String) {
    let cfg = GenCfg { max_tokens: *ctx.rng.pick(&[20usize, 300, 2000]), max_blocks: 4, zlib, pre_len: if into_pre { 32768 } else { 0 }, big: false, heavy: ctx.rng.chance(1, 6) };
    let g = sgen::gen_stream(&mut ctx.rng, &cfg);
    (g.bytes, g.features.join(","))
}

pub fn run(ctx: &mut Ctx) {
    if let Some(lines) = ctx.replay_lines.clone() {
        for l in lines {
            let (tag, rest) = l.split_once(' ').unwrap_or((l.as_str(), ""));
            let kv = crate::kv(rest);
            match tag {
                "RCOMP" => { let cfg = Cfg { level: kv["level"].parse().unwrap(), strategy: kv["strategy"].parse().unwrap(), zlib: kv["fmt"] == "1", wb: kv["wb"].parse().unwrap() };
                             comp_case(ctx, &cfg, &crate::tx::unhex(&kv["a"]), &crate::tx::unhex(&kv["in"]), kv["seed"].parse().unwrap()); }
                "RINFL" => inflate_case(ctx, &crate::tx::unhex(&kv["a"]), &crate::tx::unhex(&kv["data"]), "replay", kv["fmt"] == "1", kv["seed"].parse().unwrap()),
                "RCAPI" => c_reset_case(ctx, &crate::tx::unhex(&kv["a"]), &crate::tx::unhex(&kv["in"]), kv["level"].parse().unwrap(), kv["seed"].parse().unwrap()),
                _ => {}
            }
        }
        return;
    }
    for _ in 0..(80 * ctx.scale) {
        let cfg = Cfg::random(&mut ctx.rng);
        let ka = *ctx.rng.pick(plain::KINDS); let kb = *ctx.rng.pick(plain::KINDS);
        let na = ctx.rng.range(0, 90000); let nb = ctx.rng.range(0, 60000);
        let a = plain::gen(&mut ctx.rng, ka, na); let b = plain::gen(&mut ctx.rng, kb, nb);
        let seed = ctx.rng.next();
        comp_case(ctx, &cfg, &a, &b, seed);
    }
    for i in 0..(80 * ctx.scale) {
        let zlib = ctx.rng.chance(1, 2);
        // history stream: valid, mutated or with trailing garbage
        let za = ctx.rng.chance(1, 2);
        let (mut a, _) = gen_b(ctx, za, false);
        if ctx.rng.chance(1, 3) { a = sgen::mutate(&mut ctx.rng, &a).0; }
        let into_pre = i % 4 == 3;
        let (b, tag) = gen_b(ctx, zlib, into_pre);
        let b = if ctx.rng.chance(1, 6) { sgen::mutate(&mut ctx.rng, &b).0 } else { b };
        let seed = ctx.rng.next();
        inflate_case(ctx, &a, &b, &tag, zlib, seed);
    }
    for _ in 0..(30 * ctx.scale) {
        let ka = *ctx.rng.pick(plain::KINDS);
        let na = ctx.rng.range(0, 50000); let nb = ctx.rng.range(0, 50000);
        let a = plain::gen(&mut ctx.rng, ka, na); let b = plain::gen(&mut ctx.rng, ka, nb);
        let level = ctx.rng.range(0, 10) as i32; let seed = ctx.rng.next();
        c_reset_case(ctx, &a, &b, level, seed);
    }
    ctx.sample("history (0..12 calls, any flush, maybe finished, maybe ended in a usage error) -> reset -> a different input under a seeded schedule, compared call by call and byte by byte with a fresh object; inflate: MinReset/ZeroReset/FullReset/reset after partial, corrupt or abandoned streams".into());
}
