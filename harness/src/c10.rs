//! C10 — compressor output is valid for independent decoders and honours level/strategy.
use crate::comp::*;
use crate::plain;
use crate::tx::{fnv, hex, Ctx};

fn hlim_line(ctx: &mut Ctx, before: &[i32], after: &[i32], len: usize, max: usize, src: &str) {
    let id = ctx.id();
    let j = |v: &[i32]| v.iter().map(|x| x.to_string()).collect::<Vec<_>>().join(",");
    ctx.line(&format!("HLIM id={} rp=HLIMR in={} len={} max={} out={} src={}", id, j(before), len, max, j(after), src));
    ctx.count(&format!("hlim_{}", src));
    ctx.eval(before.iter().fold(len as u64 * 31 + max as u64, |h, &x| h.wrapping_mul(1099511628211).wrapping_add(x as u64)));
}

/// the calls `optimize_table` made to `enforce_max_code_size` since the last drain (hook trace): all
/// those in which the limit was exceeded or the histogram was not complete, a sample of the rest
fn drain_huff_trace(ctx: &mut Ctx, family: &str) {
    let tr = miniz_oxide::verif_huff_trace::take();
    let step = (tr.len() / 120).max(1);
    for (i, (b, a, len, max)) in tr.iter().enumerate() {
        let over = b[(*max + 1).min(32)..].iter().any(|&x| x != 0);
        if over { ctx.count(&format!("hlim_trace_over_limit_{}", family)); }
        if over || b != a || i % step == 0 { hlim_line(ctx, &b[..], &a[..], *len, *max, "trace"); }
    }
}

/// `enforce_max_code_size` on generated histograms, through the hook function: complete prefix codes of
/// any depth up to 32 (random leaf splitting, deep-biased), incomplete ones, and - outside the hypotheses
/// of the theorem, model = code only - over-full ones and the no-op cases
fn huff_limit_generated(ctx: &mut Ctx) {
    for k in 0..(400 * ctx.scale) {
        let mut n = [0i32; 33];
        n[1] = 2;
        let mut count = 2usize;
        let target = *ctx.rng.pick(&[2usize, 3, 5, 19, 30, 40, 100, 286, 288]).min(&ctx.rng.range(2, 289));
        let deep = ctx.rng.chance(1, 2);
        while count < target {
            // pick a level that has a leaf; deep-biased: the deepest one most of the time
            let levels: Vec<usize> = (1..32).filter(|&d| n[d] > 0).collect();
            let d = if deep && ctx.rng.chance(3, 4) { *levels.last().unwrap() } else { *ctx.rng.pick(&levels) };
            n[d] -= 1; n[d + 1] += 2; count += 1;
        }
        let kind = k % 5;
        if kind == 1 { // incomplete: drop a few leaves
            for _ in 0..ctx.rng.range(1, 4) { if count > 2 { let levels: Vec<usize> = (1..33).filter(|&d| n[d] > 0).collect(); let d = *ctx.rng.pick(&levels); n[d] -= 1; count -= 1; } }
        }
        let mut len = count;
        let minmax = (1..32).find(|&m| count <= (1usize << m)).unwrap();
        let mut max = match ctx.rng.below(5) { 0 => 7.max(minmax), 1 => 15.max(minmax), 2 => minmax, 3 => ctx.rng.range(minmax, 21), _ => ctx.rng.range(minmax, (minmax + 3).min(20) + 1) };
        if kind == 2 { // over-full (outside the theorem): extra codes on shallow levels, few loop rounds
            max = ctx.rng.range(2, 9);
            n = [0i32; 33];
            for d in 1..=max { n[d] = ctx.rng.range(0, 4) as i32; }
            n[max] += ctx.rng.range(0, 40) as i32;
            len = n.iter().map(|&x| x as usize).sum();
        }
        if kind == 3 && k % 15 == 3 { len = ctx.rng.range(0, 2); } // the early return
        let before = n;
        let mut after = n;
        let r = std::panic::catch_unwind(std::panic::AssertUnwindSafe(|| { let mut a = after; miniz_oxide::deflate::core::verif_enforce_max_code_size(&mut a, len, max); a }));
        match r { Ok(a) => after = a, Err(_) => { let id = ctx.id(); ctx.violation(id, "panic", format!("enforce_max_code_size panicked on {:?} len {} max {}", &before[..], len, max), format!("HLIMR in={} len={} max={} src=gen", before.iter().map(|x| x.to_string()).collect::<Vec<_>>().join(","), len, max)); continue; } }
        ctx.count(&format!("hlim_gen_kind_{}", kind));
        hlim_line(ctx, &before, &after, len, max, "gen");
    }
}

fn replay_hlim(ctx: &mut Ctx, lines: &[String]) {
    for l in lines { if let Some(rest) = l.strip_prefix("HLIMR ") { let kv = crate::kv(rest);
        let mut n: Vec<i32> = kv["in"].split(',').map(|x| x.parse().unwrap_or(0)).collect();
        let before = n.clone();
        let (len, max) = (kv["len"].parse().unwrap_or(0), kv["max"].parse().unwrap_or(1));
        miniz_oxide::deflate::core::verif_enforce_max_code_size(&mut n, len, max);
        hlim_line(ctx, &before, &n, len, max, "gen"); } }
}

pub fn run(ctx: &mut Ctx) {
    if let Some(lines) = ctx.replay_lines.clone() { replay_hlim(ctx, &lines); return crate::c02::run(ctx); }
    let _ = miniz_oxide::verif_huff_trace::take();
    // every (level, strategy) pair, both formats, window bits cycling 8..15
    let mut k = 0u64;
    let reps = ctx.scale;
    for _ in 0..reps {
        for level in 0..=10u8 { for strategy in 0..5u8 {
            k += 1;
            let cfg = Cfg { level, strategy, zlib: k % 2 == 0, wb: if k % 3 == 0 { 15 } else { 8 + (k % 8) as u8 } };
            let kind = *ctx.rng.pick(plain::KINDS);
            let len = match ctx.rng.below(4) { 0 => ctx.rng.range(0, 400), 1 => ctx.rng.range(400, 9000), 2 => ctx.rng.range(9000, 80000), _ => ctx.rng.range(30000, 120000) };
            let data = plain::gen(&mut ctx.rng, kind, len);
            let seed = ctx.rng.next();
            let sink = if ctx.rng.chance(1, 5) { Sink::Callback } else { Sink::Buf };
            let tiny = ctx.rng.chance(1, 8) && len < 4000;
            crate::c02::case(ctx, &cfg, &data, kind, sink, tiny, seed, "rt,mode,header");
        } }
    }
    // run-length matching around the points where dictionary indices wrap (multiples of 32 KiB)
    for _ in 0..(24 * ctx.scale) {
        let len = ctx.rng.range(66000, 110000);
        let data = plain::gen(&mut ctx.rng, "wrap_runs", len);
        let cfg = if ctx.rng.chance(1, 2) { Cfg { level: ctx.rng.range(1, 10) as u8, strategy: 3, zlib: ctx.rng.chance(1, 2), wb: 15 } }
                  else { Cfg { level: ctx.rng.range(1, 10) as u8, strategy: *ctx.rng.pick(&[0u8, 1, 3, 4]), zlib: ctx.rng.chance(1, 2), wb: ctx.rng.range(8, 11) as u8 } };
        let seed = ctx.rng.next();
        crate::c02::case(ctx, &cfg, &data, "wrap_runs", Sink::Buf, false, seed, "rt,mode,header");
    }
    drain_huff_trace(ctx, "general");
    // Huffman trees deeper than the 15-bit limit (Fibonacci frequencies): the length limiter must keep
    // a code for every symbol, end-of-block included
    for k in 0..(20 * ctx.scale) {
        let data = plain::gen(&mut ctx.rng, "deep_tree", 60000);
        let cfg = Cfg { level: ctx.rng.range(1, 10) as u8, strategy: *ctx.rng.pick(&[2u8, 2, 3, 0]), zlib: k % 2 == 0, wb: 15 };
        let seed = ctx.rng.next();
        ctx.count("deep_tree_cases");
        crate::c02::case(ctx, &cfg, &data, "deep_tree", Sink::Buf, false, seed, "rt,mode,header");
        if k % 4 == 3 { drain_huff_trace(ctx, "deep_tree"); }
    }
    drain_huff_trace(ctx, "deep_tree");
    // zero runs in the code-length sequence exactly at the 138 / 11 / 3 boundaries of the run codes
    for k in 0..(60 * ctx.scale) {
        let data = plain::gen(&mut ctx.rng, "clen_runs", 0);
        let cfg = Cfg { level: ctx.rng.range(1, 10) as u8, strategy: *ctx.rng.pick(&[2u8, 2, 0, 0, 1]), zlib: k % 2 == 0, wb: 15 };
        let seed = ctx.rng.next();
        ctx.count("clen_runs_cases");
        crate::c02::case(ctx, &cfg, &data, "clen_runs", Sink::Buf, false, seed, "rt,mode,header");
    }
    drain_huff_trace(ctx, "clen_runs");
    // a code-length alphabet whose Huffman tree is deeper than its 7-bit limit
    for k in 0..(12 * ctx.scale) {
        let data = plain::gen(&mut ctx.rng, "clen_deep", 0);
        let cfg = Cfg { level: ctx.rng.range(1, 10) as u8, strategy: *ctx.rng.pick(&[2u8, 2, 2, 3]), zlib: k % 2 == 0, wb: 15 };
        let seed = ctx.rng.next();
        ctx.count("clen_deep_cases");
        crate::c02::case(ctx, &cfg, &data, "clen_deep", Sink::Buf, false, seed, "rt,mode,header");
    }
    drain_huff_trace(ctx, "clen_deep");
    huff_limit_generated(ctx);
    // stale hash entries almost a whole dictionary back (level 1 loads up to 4 KiB of lookahead first)
    for _ in 0..(16 * ctx.scale) {
        let len = ctx.rng.range(40000, 120000);
        let data = plain::gen(&mut ctx.rng, "far_trigram", len);
        let cfg = Cfg { level: *ctx.rng.pick(&[1u8, 1, 1, 2, 6]), strategy: *ctx.rng.pick(&[0u8, 0, 1, 4]), zlib: ctx.rng.chance(1, 2), wb: 15 };
        let seed = ctx.rng.next();
        ctx.count("far_trigram_cases");
        crate::c02::case(ctx, &cfg, &data, "far_trigram", Sink::Buf, false, seed, "rt,mode,header");
    }
    // redundancy is exploited: x ++ x compresses to well under its own size (checked, not proved)
    let n_ratio = 40 * ctx.scale;
    for _ in 0..n_ratio {
        let half = ctx.rng.range(64, 16000);
        let x = ctx.rng.bytes(half);
        let mut data = x.clone(); data.extend_from_slice(&x);
        let level = ctx.rng.range(1, 10) as u8;
        let strategy = *ctx.rng.pick(&[0u8, 0, 0, 1, 4]);
        let cfg = Cfg { level, strategy, zlib: ctx.rng.chance(1, 2), wb: 15 };
        let id = ctx.id();
        let mut c = cfg.make();
        let mut out = vec![0u8; data.len() * 2 + 1000];
        let (st, _, n) = miniz_oxide::deflate::core::compress(&mut c, &data, &mut out, miniz_oxide::deflate::core::TDEFLFlush::Finish);
        out.truncate(n);
        ctx.eval(fnv(&data) ^ level as u64);
        ctx.count("ratio_cases");
        if st != miniz_oxide::deflate::core::TDEFLStatus::Done { ctx.violation(id, "status", format!("one-shot Finish returned {:?}", st), format!("SCHED {} sink=0 tiny=0 seed=0 in={}", cfg.describe(), hex(&data))); continue; }
        ctx.line(&format!("ENC id={} rp=SCHED;sink=0;tiny=0;seed=0;oneshot=1 checks=rt,mode,ratio modes={} {} in={} comp={}", id, cfg.modes(), cfg.describe(), hex(&data), hex(&out)));
    }
}
