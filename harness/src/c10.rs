//! C10 — compressor output is valid for independent decoders and honours level/strategy.
use crate::comp::*;
use crate::plain;
use crate::tx::{fnv, hex, Ctx};

pub fn run(ctx: &mut Ctx) {
    if ctx.replay_lines.is_some() { return crate::c02::run(ctx); }
    // every (level, strategy) pair, both formats, window bits cycling 8..15
    let mut k = 0u64;
    let reps = ctx.scale;
    for _ in 0..reps {
        for level in 0..=10u8 { for strategy in 0..5u8 {
            k += 1;
            let cfg = Cfg { level, strategy, zlib: k % 2 == 0, wb: if k % 3 == 0 { 15 } else { 8 + (k % 8) as u8 } };
            let kind = *ctx.rng.pick(plain::KINDS);
            let len = match ctx.rng.below(4) { 0 => ctx.rng.range(0, 400), 1 => ctx.rng.range(400, 9000), 2 => ctx.rng.range(9000, 80000), _ => ctx.rng.range(30000, 120000) };
            let data = plain::gen(&mut ctx.rng, kind, len);
            let seed = ctx.rng.next();
            let sink = if ctx.rng.chance(1, 5) { Sink::Callback } else { Sink::Buf };
            let tiny = ctx.rng.chance(1, 8) && len < 4000;
            crate::c02::case(ctx, &cfg, &data, kind, sink, tiny, seed, "rt,mode,header");
        } }
    }
    // run-length matching around the points where dictionary indices wrap (multiples of 32 KiB)
    for _ in 0..(24 * ctx.scale) {
        let len = ctx.rng.range(66000, 110000);
        let data = plain::gen(&mut ctx.rng, "wrap_runs", len);
        let cfg = if ctx.rng.chance(1, 2) { Cfg { level: ctx.rng.range(1, 10) as u8, strategy: 3, zlib: ctx.rng.chance(1, 2), wb: 15 } }
                  else { Cfg { level: ctx.rng.range(1, 10) as u8, strategy: *ctx.rng.pick(&[0u8, 1, 3, 4]), zlib: ctx.rng.chance(1, 2), wb: ctx.rng.range(8, 11) as u8 } };
        let seed = ctx.rng.next();
        crate::c02::case(ctx, &cfg, &data, "wrap_runs", Sink::Buf, false, seed, "rt,mode,header");
    }
    // Huffman trees deeper than the 15-bit limit (Fibonacci frequencies): the length limiter must keep
    // a code for every symbol, end-of-block included
    for k in 0..(20 * ctx.scale) {
        let data = plain::gen(&mut ctx.rng, "deep_tree", 60000);
        let cfg = Cfg { level: ctx.rng.range(1, 10) as u8, strategy: *ctx.rng.pick(&[2u8, 2, 3, 0]), zlib: k % 2 == 0, wb: 15 };
        let seed = ctx.rng.next();
        ctx.count("deep_tree_cases");
        crate::c02::case(ctx, &cfg, &data, "deep_tree", Sink::Buf, false, seed, "rt,mode,header");
    }
    // zero runs in the code-length sequence exactly at the 138 / 11 / 3 boundaries of the run codes
    for k in 0..(60 * ctx.scale) {
        let data = plain::gen(&mut ctx.rng, "clen_runs", 0);
        let cfg = Cfg { level: ctx.rng.range(1, 10) as u8, strategy: *ctx.rng.pick(&[2u8, 2, 0, 0, 1]), zlib: k % 2 == 0, wb: 15 };
        let seed = ctx.rng.next();
        ctx.count("clen_runs_cases");
        crate::c02::case(ctx, &cfg, &data, "clen_runs", Sink::Buf, false, seed, "rt,mode,header");
    }
    // stale hash entries almost a whole dictionary back (level 1 loads up to 4 KiB of lookahead first)
    for _ in 0..(16 * ctx.scale) {
        let len = ctx.rng.range(40000, 120000);
        let data = plain::gen(&mut ctx.rng, "far_trigram", len);
        let cfg = Cfg { level: *ctx.rng.pick(&[1u8, 1, 1, 2, 6]), strategy: *ctx.rng.pick(&[0u8, 0, 1, 4]), zlib: ctx.rng.chance(1, 2), wb: 15 };
        let seed = ctx.rng.next();
        ctx.count("far_trigram_cases");
        crate::c02::case(ctx, &cfg, &data, "far_trigram", Sink::Buf, false, seed, "rt,mode,header");
    }
    // redundancy is exploited: x ++ x compresses to well under its own size (checked, not proved)
    let n_ratio = 40 * ctx.scale;
    for _ in 0..n_ratio {
        let half = ctx.rng.range(64, 16000);
        let x = ctx.rng.bytes(half);
        let mut data = x.clone(); data.extend_from_slice(&x);
        let level = ctx.rng.range(1, 10) as u8;
        let strategy = *ctx.rng.pick(&[0u8, 0, 0, 1, 4]);
        let cfg = Cfg { level, strategy, zlib: ctx.rng.chance(1, 2), wb: 15 };
        let id = ctx.id();
        let mut c = cfg.make();
        let mut out = vec![0u8; data.len() * 2 + 1000];
        let (st, _, n) = miniz_oxide::deflate::core::compress(&mut c, &data, &mut out, miniz_oxide::deflate::core::TDEFLFlush::Finish);
        out.truncate(n);
        ctx.eval(fnv(&data) ^ level as u64);
        ctx.count("ratio_cases");
        if st != miniz_oxide::deflate::core::TDEFLStatus::Done { ctx.violation(id, "status", format!("one-shot Finish returned {:?}", st), format!("SCHED {} sink=0 tiny=0 seed=0 in={}", cfg.describe(), hex(&data))); continue; }
        ctx.line(&format!("ENC id={} rp=SCHED;sink=0;tiny=0;seed=0;oneshot=1 checks=rt,mode,ratio modes={} {} in={} comp={}", id, cfg.modes(), cfg.describe(), hex(&data), hex(&out)));
    }
}
