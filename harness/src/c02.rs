//! C02 — streaming compression is lossless under every call schedule and configuration.
use crate::comp::*;
use crate::plain;
use crate::tx::{fnv, hex, Ctx};

pub fn case(ctx: &mut Ctx, cfg: &Cfg, data: &[u8], kind: &str, sink: Sink, tiny: bool, seed: u64, checks: &str) {
    let id = ctx.id();
    let mut rng = crate::rng::Rng::new(seed);
    let o = SchedOpts { sink, flush_p: if tiny { 5 } else { 15 }, max_calls: 400_000, tiny_out: tiny };
    let run = run_schedule(&mut rng, cfg, data, &o);
    let replay = format!("SCHED {} sink={} tiny={} seed={} in={}", cfg.describe(), (sink == Sink::Callback) as u8, tiny as u8, seed, hex(data));
    ctx.eval(if run.calls.len() > 1 { fnv(data) ^ seed } else { 0 });
    ctx.count(&format!("strategy_{}", cfg.strategy)); ctx.count(&format!("level_{}", cfg.level)); ctx.count(&format!("wb_{}", cfg.wb));
    ctx.count(if sink == Sink::Callback { "sink_callback" } else { "sink_buf" });
    ctx.count_n("calls", run.calls.len() as u64);
    for c in &run.calls { ctx.count(&format!("flush_{}", c.flush)); if c.chunk == 0 { ctx.count("empty_chunks"); } if c.out == 1 { ctx.count("one_byte_out"); } }
    for (cl, m) in &run.problems { ctx.violation(id, cl, format!("{} [{}] calls={}", m, cfg.describe(), calls_summary(&run.calls)), replay.clone()); }
    ctx.sample(format!("{} kind={} len={} sink={} calls=[{}] out_len={}", cfg.describe(), kind, data.len(), if sink == Sink::Callback { "cb" } else { "buf" }, calls_summary(&run.calls), run.out.len()));
    if sink == Sink::Buf && !run.stg.is_empty() && run.stg.len() < 4000 && run.problems.is_empty() {
        ctx.count_n("stg_calls", run.stg.len() as u64);
        ctx.line(&format!("STG id={} rp=SCHED;sink=0;tiny={};seed={};inkey=full {} calls={} full={}", id, tiny as u8, seed, cfg.describe(), run.stg.join(";"), hex(data)));
    }
    if run.done {
        ctx.line(&format!("ENC id={} rp=SCHED;sink={};tiny={};seed={} checks={} modes={} {} in={} comp={}", id, (sink == Sink::Callback) as u8, tiny as u8, seed, checks, cfg.modes(), cfg.describe(), hex(data), hex(&run.out)));
    }
}

/// A block flush in the middle of one call while a lazy match is pending and the output buffer
/// cannot take the block: poorly compressible data with sparse short matches, 32-50 KiB in one
/// chunk, lazy levels, small output buffers.
fn lazy_boundary(ctx: &mut Ctx) {
    let n = 300 * ctx.scale;
    for _ in 0..n {
        // long enough for the LZ code buffer to fill (a block flush in the middle of the call)
        let len = if ctx.rng.chance(1, 3) { ctx.rng.range(32000, 52000) } else { ctx.rng.range(70000, 130000) };
        let mut data = Vec::with_capacity(len);
        let alpha = ctx.rng.range(12, 40) as u8;
        while data.len() < len {
            if data.len() > 40 && ctx.rng.chance(1, 5) {
                let d = ctx.rng.range(1, data.len().min(3000));
                let k = ctx.rng.range(3, 9);
                for _ in 0..k { let b = data[data.len() - d]; data.push(b); }
            } else { data.push(b'A' + ctx.rng.below(alpha as usize) as u8); }
        }
        data.truncate(len);
        let cfg = Cfg { level: ctx.rng.range(4, 10) as u8, strategy: 0, zlib: ctx.rng.chance(1, 2), wb: 15 };
        let id = ctx.id();
        // the schedule of compress_to_vec: whole input, Finish, output starting at len/2 and growing
        let mut c = cfg.make();
        let mut out = vec![0u8; if ctx.rng.chance(1, 3) { (len / 2).max(2) } else { ctx.rng.range(500, 30000) }];
        let (mut ipos, mut opos) = (0usize, 0usize);
        let mut ok = false;
        for _ in 0..64 {
            let (st, i, o) = miniz_oxide::deflate::core::compress(&mut c, &data[ipos..], &mut out[opos..], miniz_oxide::deflate::core::TDEFLFlush::Finish);
            ipos += i; opos += o;
            if st == miniz_oxide::deflate::core::TDEFLStatus::Done { ok = true; break; }
            if st != miniz_oxide::deflate::core::TDEFLStatus::Okay { break; }
            if out.len() - opos < 30 { let l = out.len() + ctx.rng.range(16, 4000); out.resize(l, 0); }
        }
        ctx.eval(fnv(&data) ^ cfg.level as u64);
        ctx.count("lazy_boundary_cases");
        let replay = format!("SCHED {} sink=0 tiny=0 seed=0 in={}", cfg.describe(), hex(&data));
        if !ok { ctx.violation(id, "status", "grow-and-retry schedule did not finish".into(), replay); continue; }
        out.truncate(opos);
        ctx.line(&format!("ENC id={} rp=SCHED;sink=0;tiny=0;seed=0 checks=rt modes=- {} in={} comp={}", id, cfg.describe(), hex(&data), hex(&out)));
    }
}

fn boundary_case(ctx: &mut Ctx, cfg: &Cfg, data: &[u8], at: usize, flush: u8, small: usize) {
    use miniz_oxide::deflate::core::{compress, TDEFLFlush, TDEFLStatus};
    let id = ctx.id();
    ctx.eval(fnv(data) ^ (at as u64) ^ ((flush as u64) << 40));
    ctx.count("block_boundary_cases");
    let replay = format!("BOUNDARY {} at={} flush={} small={} in={}", cfg.describe(), at, flush, small, hex(data));
    let upto = at.min(data.len());
    let input: &[u8] = if flush == 4 { &data[..upto] } else { data };
    let mut c = cfg.make();
    let _ = c.verif_take_trace();
    let mut stg: Vec<String> = vec![];
    let stg_of = |c: &mut miniz_oxide::deflate::core::CompressorOxide, out_len: usize, fl: u8, st: i32, cout: usize| -> String {
        let evs = c.verif_take_trace();
        let blocks: Vec<String> = evs.iter().filter(|e| e[0] == 1).map(|e| format!("{}.{}.{}.{}", e[3], e[4], e[6] as i64, e[1])).collect();
        format!("{}:{}:{}:{}:{}", out_len, fl, st, cout, if blocks.is_empty() { "-".to_string() } else { blocks.join(",") })
    };
    let mut z: Vec<u8> = vec![];
    let mut ipos = 0usize;
    let mut bad = None;
    // first call: the chunk ending at the probed position, small output
    let r = std::panic::catch_unwind(std::panic::AssertUnwindSafe(|| {
        let mut o = vec![0u8; small];
        let (st, i, w) = compress(&mut c, &input[..upto], &mut o, flush_of(flush));
        (st, i, w, o)
    }));
    if let Ok((st, _, w, _)) = &r { let l = stg_of(&mut c, small, flush, *st as i32, *w); stg.push(l); }
    let mut done = false;
    match r { Ok((st, i, w, o)) => { z.extend_from_slice(&o[..w]); ipos += i; if st == TDEFLStatus::Done { done = true; } else if st != TDEFLStatus::Okay { bad = Some(format!("first call {:?}", st)); } }
              Err(_) => { bad = Some("panic in the boundary call".into()); } }
    // drain and finish with roomy buffers
    if bad.is_none() && !done {
        for _ in 0..1000 {
            let mut o = vec![0u8; 100_000];
            let r = std::panic::catch_unwind(std::panic::AssertUnwindSafe(|| compress(&mut c, &input[ipos..], &mut o, TDEFLFlush::Finish)));
            if let Ok((st, _, w)) = &r { let l = stg_of(&mut c, 100_000, 4, *st as i32, *w); stg.push(l); }
            match r { Ok((st, i, w)) => { z.extend_from_slice(&o[..w]); ipos += i; if st == TDEFLStatus::Done { done = true; break; } if st != TDEFLStatus::Okay { bad = Some(format!("finish loop {:?}", st)); break; } }
                      Err(_) => { bad = Some("panic while finishing".into()); break; } }
        }
    }
    if let Some(m) = bad { ctx.violation(id, "panic", format!("{} [{}] at={} flush={} out={}", m, cfg.describe(), at, flush, small), replay); return; }
    ctx.line(&format!("STG id={} rp=BOUNDARY;at={};flush={};small={};inkey=full {} calls={} full={}", id, at, flush, small, cfg.describe(), stg.join(";"), hex(data)));
    if !done { ctx.violation(id, "progress", format!("not finished [{}] at={}", cfg.describe(), at), replay); return; }
    ctx.line(&format!("ENC id={} rp=BOUNDARY;at={};flush={};small={} checks=rt modes=- {} in={} comp={}", id, at, flush, small, cfg.describe(), hex(input), hex(&z)));
}

/// Input chunks that end exactly where the compressor closes a block on its own, offered together
/// with a flush request and an output buffer too small for that block. The positions are probed
/// from the hook trace of a reference run (payload bytes of every `flush_block`), so the family
/// follows whatever rule the engines use for cutting blocks.
fn block_boundary(ctx: &mut Ctx) {
    use miniz_oxide::deflate::core::{compress, TDEFLFlush, TDEFLStatus};
    let n = 40 * ctx.scale;
    for k in 0..n {
        let kind = if k % 2 == 0 { "random" } else { *ctx.rng.pick(plain::KINDS) };
        let len = ctx.rng.range(40000, 140000);
        let data = plain::gen(&mut ctx.rng, kind, len);
        let cfg = if k % 3 == 0 { Cfg { level: ctx.rng.range(0, 10) as u8, strategy: 0, zlib: k % 2 == 0, wb: 15 } } else { Cfg::random(&mut ctx.rng) };
        // reference run: everything at once, no flush, roomy output
        let mut c = cfg.make();
        let mut out = vec![0u8; data.len() * 2 + 4000];
        let _ = compress(&mut c, &data, &mut out, TDEFLFlush::None);
        let mut cuts: Vec<usize> = vec![];
        let mut pos = 0usize;
        for ev in c.verif_take_trace() { if ev[0] == 1 { pos += ev[2] as usize; if pos > 0 && pos < data.len() { cuts.push(pos); } } }
        ctx.count_n("probed_block_cuts", cuts.len() as u64);
        cuts.truncate(3);
        for cut in cuts {
            for delta in [0isize, -1, 1] {
                let at = (cut as isize + delta).max(1) as usize;
                if at >= data.len() { continue; }
                let flush = *ctx.rng.pick(&[1u8, 2, 3, 4]);
                let small = *ctx.rng.pick(&[1usize, 7, 100, 1000, 20000]);
                boundary_case(ctx, &cfg, &data, at, flush, small);
            }
        }
    }
}

/// The compressor keeps the first 257 bytes of its 32 KiB ring duplicated past the ring's end so
/// that match comparison can run over the end without wrapping.  This family aims at that copy:
/// a call's input ends `cut` bytes (1..=257) after a multiple of 32768 with no flush, so the next
/// call resumes filling the ring just past its start; later the data repeats a string whose
/// earlier occurrence runs over the ring's end and continues with the bytes that sat at the same
/// ring offsets one lap earlier (what a stale duplicate would hold) instead of the true ones.
fn mirror_cut_case(ctx: &mut Ctx, cfg: &Cfg, data: &[u8], cut: usize) {
    use miniz_oxide::deflate::core::{compress, TDEFLFlush, TDEFLStatus};
    let id = ctx.id();
    ctx.eval(fnv(data) ^ (cut as u64) ^ 0x3117);
    ctx.count("mirror_cut_cases");
    let replay = format!("MIRROR {} cut={} in={}", cfg.describe(), cut, hex(data));
    let mut c = cfg.make();
    let mut z: Vec<u8> = vec![];
    let mut done = false;
    let r = std::panic::catch_unwind(std::panic::AssertUnwindSafe(|| {
        let mut ipos = 0usize;
        for _ in 0..1000 { if ipos >= cut { break; }
            let mut o = vec![0u8; 100_000];
            let (st, i, w) = compress(&mut c, &data[ipos..cut], &mut o, TDEFLFlush::None);
            z.extend_from_slice(&o[..w]); ipos += i; if st != TDEFLStatus::Okay { return Err(format!("first piece {:?}", st)); } }
        for _ in 0..1000 {
            let mut o = vec![0u8; 100_000];
            let (st, i, w) = compress(&mut c, &data[ipos..], &mut o, TDEFLFlush::Finish);
            z.extend_from_slice(&o[..w]); ipos += i;
            if st == TDEFLStatus::Done { done = true; break; } if st != TDEFLStatus::Okay { return Err(format!("finish loop {:?}", st)); } }
        Ok(())
    }));
    match r { Err(_) => { ctx.violation(id, "panic", format!("panic [{}] cut={}", cfg.describe(), cut), replay); return; }
              Ok(Err(m)) => { ctx.violation(id, "status", format!("{} [{}] cut={}", m, cfg.describe(), cut), replay); return; } Ok(Ok(())) => {} }
    if !done { ctx.violation(id, "progress", format!("not finished [{}] cut={}", cfg.describe(), cut), replay); return; }
    ctx.line(&format!("ENC id={} rp=MIRROR;cut={} checks=rt modes=- {} in={} comp={}", id, cut, cfg.describe(), hex(data), hex(&z)));
}

fn mirror_cut(ctx: &mut Ctx) {
    let cuts: Vec<usize> = if ctx.quick() { vec![1, 2, 3, 4, 5, 6, 7, 8, 100, 256] } else { (1..=12).chain([16usize, 31, 64, 100, 128, 200, 255, 256, 257].into_iter()).collect() };
    for lap in [1usize, 2] { for &c in &cuts { for &level in &[1u8, 2, 6] {
        if ctx.quick() && level != 1 && (c + lap) % 3 != 0 { continue; }
        let base = lap * 32768;
        let n = base + 8000;
        let mut d = ctx.rng.bytes(n);
        // source: `a` true bytes ending at the ring's end, then the `c` true bytes after it
        let a = ctx.rng.range(3, 60);
        let q = base + ctx.rng.range(300, 3500);
        let mut pat: Vec<u8> = d[base - a..base + c].to_vec();
        // then what sat at ring offsets c.. one lap earlier
        let stale = ctx.rng.range(1, 40).min(257 - c.min(256));
        pat.extend_from_slice(&d[base - 32768 + c..base - 32768 + c + stale]);
        d[q..q + pat.len()].copy_from_slice(&pat);
        let cfg = Cfg { level, strategy: 0, zlib: ctx.rng.chance(1, 2), wb: 15 };
        mirror_cut_case(ctx, &cfg, &d, base + c);
    } } }
}

pub fn run(ctx: &mut Ctx) {
    if let Some(lines) = ctx.replay_lines.clone() {
        for l in lines { if let Some(rest) = l.strip_prefix("BOUNDARY ") { let kv = crate::kv(rest);
            let cfg = Cfg { level: kv["level"].parse().unwrap(), strategy: kv["strategy"].parse().unwrap(), zlib: kv["fmt"] == "1", wb: kv["wb"].parse().unwrap() };
            boundary_case(ctx, &cfg, &crate::tx::unhex(&kv["in"]), kv["at"].parse().unwrap(), kv["flush"].parse().unwrap(), kv["small"].parse().unwrap()); }
          if let Some(rest) = l.strip_prefix("MIRROR ") { let kv = crate::kv(rest);
            let cfg = Cfg { level: kv["level"].parse().unwrap(), strategy: kv["strategy"].parse().unwrap(), zlib: kv["fmt"] == "1", wb: kv["wb"].parse().unwrap() };
            mirror_cut_case(ctx, &cfg, &crate::tx::unhex(&kv["in"]), kv["cut"].parse().unwrap()); }
          if let Some(rest) = l.strip_prefix("SCHED ") { let kv = crate::kv(rest);
            let cfg = Cfg { level: kv["level"].parse().unwrap(), strategy: kv["strategy"].parse().unwrap(), zlib: kv["fmt"] == "1", wb: kv["wb"].parse().unwrap() };
            case(ctx, &cfg, &crate::tx::unhex(&kv["in"]), "replay", if kv["sink"] == "1" { Sink::Callback } else { Sink::Buf }, kv["tiny"] == "1", kv["seed"].parse().unwrap(), "rt"); } }
        return;
    }
    lazy_boundary(ctx);
    block_boundary(ctx);
    mirror_cut(ctx);
    let n = 260 * ctx.scale;
    for i in 0..n {
        let cfg = if i < 55 { Cfg { level: (i % 11) as u8, strategy: ((i / 11) % 5) as u8, zlib: i % 2 == 0, wb: 15 } } else { Cfg::random(&mut ctx.rng) };
        let kind = *ctx.rng.pick(plain::KINDS);
        let tiny = ctx.rng.chance(1, 4);
        let len = if tiny { ctx.rng.range(0, 3000) } else { match ctx.rng.below(5) { 0 => ctx.rng.range(0, 300), 1 => ctx.rng.range(300, 5000), 2 => ctx.rng.range(5000, 70000), 3 => ctx.rng.range(60000, 140000), _ => ctx.rng.range(30000, 36000) } };
        let data = plain::gen(&mut ctx.rng, kind, len);
        let sink = if ctx.rng.chance(1, 4) { Sink::Callback } else { Sink::Buf };
        let seed = ctx.rng.next();
        case(ctx, &cfg, &data, kind, sink, tiny, seed, "rt");
    }
}
