//! C13 — streaming inflate obeys its status protocol and always makes progress.
use crate::sgen::{self, GenCfg};
use crate::tx::{fnv, hex, Ctx};
use miniz_oxide::inflate::stream::{inflate, InflateState};
use miniz_oxide::{DataFormat, MZError, MZFlush, MZStatus};
use std::panic::{catch_unwind, AssertUnwindSafe};

#[derive(Clone)]
pub struct S13 { pub z: Vec<u8>, pub zlib: bool, pub plain: Vec<u8>, pub enc_len: usize, pub kind: &'static str }

const CHUNKS: [usize; 4] = [0, 1, 2, usize::MAX];
const OUTS: [usize; 4] = [0, 1, 3, 100_000];
const FLUSHES: [MZFlush; 4] = [MZFlush::None, MZFlush::Sync, MZFlush::Finish, MZFlush::Full];

pub fn action_name(a: usize) -> String { format!("c{}o{}f{}", a & 3, (a >> 2) & 3, (a >> 4) & 3) }

struct Runner<'a> {
    klines: Vec<String>, record: bool,
    s: &'a S13, st: Box<InflateState>, ipos: usize, delivered: Vec<u8>, ended: bool, data_err: bool,
    finished_flag: bool, poisoned: bool, calls: usize, effective_calls: usize, check_prefix: bool,
}

impl<'a> Runner<'a> {
    fn step(&mut self, chunk_sel: usize, out_len: usize, flush: MZFlush, problems: &mut Vec<(String, String)>, phase: &str) -> Option<Result<MZStatus, MZError>> {
        let s = self.s;
        let left = s.z.len() - self.ipos;
        let chunk = chunk_sel.min(left);
        let mut out = vec![0u8; out_len];
        // a Full-flush request is refused before the state is touched, so it does not count as the first call
        let first = self.effective_calls == 0;
        if flush != MZFlush::Full { self.effective_calls += 1; }
        self.calls += 1;
        let calls = self.calls;
        let ipos = self.ipos;
        let pre = self.st.verif_snapshot();
        let st = &mut self.st;
        let r = catch_unwind(AssertUnwindSafe(|| inflate(st, &s.z[ipos..ipos + chunk], &mut out, flush)));
        let r = match r { Ok(r) => r, Err(_) => { problems.push(("panic".into(), format!("panic in inflate() call #{} ({})", calls, phase))); return None; } };
        let tr = self.st.verif_take_core_trace();
        if self.record {
            let post = self.st.verif_snapshot();
            let script: Vec<String> = tr.iter().map(|e| format!("{}:{}:{}", e[4], e[5], e[6])).collect();
            let args: Vec<String> = tr.iter().map(|e| format!("{}:{}:{}:{}", e[0], e[1], e[2], e[3])).collect();
            let code = match r.status { Ok(s) => s as i32, Err(e) => e as i32 };
            self.klines.push(format!("IFL fmt={} pre={},{},{},{},{} in={} out={} flush={} res={}:{}:{} post={},{},{},{},{} script={} args={}", if s.zlib { 0 } else { 2 }, pre[0], pre[1], pre[2], pre[3], pre[4], chunk, out_len, flush as i32, code, r.bytes_consumed, r.bytes_written, post[0], post[1], post[2], post[3], post[4], if script.is_empty() { "-".into() } else { script.join(";") }, if args.is_empty() { "-".into() } else { args.join(";") }));
        }
        if r.bytes_consumed > chunk || r.bytes_written > out_len { problems.push(("counts".into(), format!("call #{}: consumed {}/{} written {}/{}", calls, r.bytes_consumed, chunk, r.bytes_written, out_len))); return None; }
        self.ipos += r.bytes_consumed;
        self.delivered.extend_from_slice(&out[..r.bytes_written]);
        let delivered = &self.delivered;
        if self.check_prefix && (delivered.len() > s.plain.len() || delivered[..] != s.plain[..delivered.len()]) {
            problems.push(("prefix".into(), format!("call #{} ({}): {} delivered bytes are not a prefix of the plaintext (first mismatch at {})", calls, phase, delivered.len(), delivered.iter().zip(s.plain.iter()).position(|(a, b)| a != b).unwrap_or(s.plain.len())))); return None;
        }
        let status = r.status;
        if flush == MZFlush::Full {
            if status != Err(MZError::Stream) || r.bytes_consumed != 0 || r.bytes_written != 0 { problems.push(("full".into(), format!("call #{}: full flush returned {:?}", calls, status))); }
            return Some(status);
        }
        if self.poisoned {
            // dead stream: a Finish request that could not complete (first-call shortcut without room, or
            // input that was not all there) fails for good — only errors with nothing moved from now on
            if status.is_ok() || r.bytes_consumed != 0 || r.bytes_written != 0 { problems.push(("dead".into(), format!("call #{} on a dead stream returned {:?} ({} consumed, {} written)", calls, status, r.bytes_consumed, r.bytes_written))); }
            return Some(status);
        }
        if self.ended && !(self.finished_flag && flush != MZFlush::Finish) {
            if status != Ok(MZStatus::StreamEnd) || r.bytes_written != 0 || r.bytes_consumed != 0 { problems.push(("stable".into(), format!("call #{} after stream end returned {:?} ({} consumed, {} written)", calls, status, r.bytes_consumed, r.bytes_written))); }
        }
        if self.data_err && status != Err(MZError::Data) { problems.push(("sticky".into(), format!("call #{} after a data error returned {:?}", calls, status))); }
        if self.finished_flag && flush != MZFlush::Finish && !self.data_err {
            if status != Err(MZError::Stream) && !(status == Err(MZError::Buf)) { problems.push(("afterfinish".into(), format!("call #{}: non-Finish after Finish returned {:?}", calls, status))); }
            return Some(status);
        }
        if flush == MZFlush::Finish { self.finished_flag = true; }
        match status {
            Ok(MZStatus::StreamEnd) => {
                self.ended = true;
                if self.check_prefix && s.kind != "truncated" {
                    if self.delivered != s.plain { problems.push(("streamend".into(), format!("stream end with {} of {} plaintext bytes delivered", self.delivered.len(), s.plain.len()))); }
                    if self.ipos != s.enc_len { problems.push(("streamend".into(), format!("stream end with {} bytes consumed, stream is {} bytes", self.ipos, s.enc_len))); }
                }
                if s.kind == "truncated" { problems.push(("streamend".into(), "stream end on a truncated stream".into())); }
            }
            Ok(_) => {
                if chunk > 0 && out_len > 0 && r.bytes_consumed == 0 && r.bytes_written == 0 { problems.push(("progress".into(), format!("call #{} with {} input bytes and {} output bytes made no progress", calls, chunk, out_len))); }
            }
            Err(MZError::Data) => { self.data_err = true; if s.kind == "valid" && !self.poisoned { problems.push(("dataerr".into(), format!("data error on a valid stream at call #{} ({})", calls, phase))); } }
            Err(MZError::Buf) => {
                let _ = first;
                // Finish promises that all input has been supplied and (on the first call) that the output fits
                // (a Buf error with the output completely filled only asks for more room: recoverable)
                let _ = left;
                if flush == MZFlush::Finish && (first || r.bytes_written < out_len) { self.poisoned = true; }
            }
            Err(e) => { problems.push(("status".into(), format!("call #{}: unexpected {:?}", calls, e))); }
        }
        Some(status)
    }
}

/// Run `actions` (indices into the 64-letter alphabet), then the usual driver loop, checking the
/// protocol after every call. Returns problems.
pub fn run_sequence(s: &S13, actions: &[usize], rng_seed: u64, counters: &mut Vec<String>) -> Vec<(String, String)> { run_sequence_k(s, actions, rng_seed, counters, false).0 }

pub fn run_sequence_k(s: &S13, actions: &[usize], rng_seed: u64, counters: &mut Vec<String>, record: bool) -> (Vec<(String, String)>, Vec<String>) {
    let mut problems: Vec<(String, String)> = vec![];
    let mut rn = Runner { klines: vec![], record, s, st: InflateState::new_boxed(if s.zlib { DataFormat::Zlib } else { DataFormat::Raw }), ipos: 0, delivered: vec![], ended: false, data_err: false, finished_flag: false, poisoned: false, calls: 0, effective_calls: 0, check_prefix: s.kind != "corrupt" };
    let mut rng = crate::rng::Rng::new(rng_seed);
    for &a in actions {
        let f = FLUSHES[(a >> 4) & 3];
        if rn.step(CHUNKS[a & 3], OUTS[(a >> 2) & 3], f, &mut problems, "prefix").is_none() { return (problems, std::mem::take(&mut rn.klines)); }
        if !problems.is_empty() { return (problems, std::mem::take(&mut rn.klines)); }
    }
    // the usual driver loop: feed what is left, collect output, finish at the end of input
    let mut idle = 0;
    for _ in 0..(s.z.len() * 4 + s.plain.len() / 50 + 200) {
        if rn.ended || rn.data_err || rn.poisoned { break; }
        let left = s.z.len() - rn.ipos;
        let chunk = if rng.chance(1, 2) { left } else { rng.range(0, 40).min(left) };
        let fl = if rn.finished_flag || (chunk == left && rng.chance(1, 2)) { MZFlush::Finish } else if rng.chance(1, 6) { MZFlush::Sync } else { MZFlush::None };
        let chunk = if fl == MZFlush::Finish { left } else { chunk };
        let olen = *rng.pick(&[1usize, 7, 300, 40000, 100_000]);
        let before = (rn.ipos, rn.delivered.len());
        let stt = match rn.step(chunk, olen, fl, &mut problems, "loop") { None => return (problems, std::mem::take(&mut rn.klines)), Some(x) => x };
        if !problems.is_empty() { return (problems, std::mem::take(&mut rn.klines)); }
        if (rn.ipos, rn.delivered.len()) == before { idle += 1; } else { idle = 0; }
        if let Err(MZError::Buf) = stt {
            if rn.ipos == s.z.len() && idle >= 2 {
                if s.kind == "valid" || s.kind == "trailing" { if !rn.poisoned { problems.push(("loop".into(), "driver loop starved on a complete stream".into())); } }
                break;
            }
        }
        if idle > 6 { problems.push(("loop".into(), format!("driver loop stopped making progress (ipos {} of {}, delivered {})", rn.ipos, s.z.len(), rn.delivered.len()))); break; }
    }
    if (s.kind == "valid" || s.kind == "trailing") && !rn.poisoned && problems.is_empty() {
        if !rn.ended { problems.push(("loop".into(), format!("driver loop did not reach stream end (delivered {} of {})", rn.delivered.len(), s.plain.len()))); }
    }
    if s.kind == "truncated" && rn.ended { problems.push(("streamend".into(), "truncated stream ended".into())); }
    counters.push(format!("final_{}", if rn.ended { "end" } else if rn.data_err { "dataerr" } else if rn.poisoned { "poisoned" } else { "open" }));
    let kl = std::mem::take(&mut rn.klines);
    (problems, kl)
}

pub fn make_streams(ctx: &mut Ctx, n_each: usize) -> Vec<S13> {
    let mut v = vec![];
    for k in 0..n_each {
        let zlib = k % 2 == 0;
        let big = k % 3 == 2;
        let cfg = GenCfg { max_tokens: if big { 3000 } else { 40 }, max_blocks: 3, zlib, pre_len: 0, big, heavy: false };
        let g = sgen::gen_stream(&mut ctx.rng, &cfg);
        let enc = g.bytes.len();
        v.push(S13 { z: g.bytes.clone(), zlib, plain: g.plain.clone(), enc_len: enc, kind: "valid" });
        if enc > 3 { let c = ctx.rng.range(1, enc - 1); v.push(S13 { z: g.bytes[..c].to_vec(), zlib, plain: g.plain.clone(), enc_len: enc, kind: "truncated" }); }
        let (m, _) = sgen::mutate(&mut ctx.rng, &g.bytes);
        v.push(S13 { z: m, zlib, plain: g.plain.clone(), enc_len: enc, kind: "corrupt" });
        let mut t = g.bytes.clone(); let extra = ctx.rng.range(1, 20); t.extend(ctx.rng.bytes(extra));
        v.push(S13 { z: t, zlib, plain: g.plain.clone(), enc_len: enc, kind: "trailing" });
    }
    v
}

/// Byte-level sessions for the wrapper model with bytes (`Model/InflBytes`, op IFB): real `inflate()`
/// calls that do not ask to finish, over valid / truncated / corrupt / trailing streams and over
/// streams whose plaintext laps the 32 KiB window several times; the caller re-offers what was
/// not consumed followed by a new chunk. Every call is replayed by the Lean model.
pub fn bytes_sessions(ctx: &mut Ctx) {
    let mut streams: Vec<(Vec<u8>, bool, &'static str, usize, Option<Vec<u8>>, Option<usize>)> = vec![];
    for s in make_streams(ctx, 2 * ctx.scale.max(1)) { let ok = s.kind == "valid" || s.kind == "trailing"; let pl = if ok { Some(s.plain.clone()) } else { None }; streams.push((s.z, s.zlib, s.kind, 0, pl, if ok { Some(s.enc_len) } else { None })); }
    // plaintexts that lap the window: the library's own compressor at levels 0 (stored), 1 and 6
    for k in 0..(3 * ctx.scale.max(1)) {
        let kind = *ctx.rng.pick(&["words", "random", "runs", "text4"]);
        let len = ctx.rng.range(33_000, 120_000);
        let plain = crate::plain::gen(&mut ctx.rng, kind, len);
        let level = [0u8, 1, 6][k % 3];
        let zlib = ctx.rng.chance(1, 2);
        let z = if zlib { miniz_oxide::deflate::compress_to_vec_zlib(&plain, level) } else { miniz_oxide::deflate::compress_to_vec(&plain, level) };
        // every other one is followed by unrelated bytes: the stream must end at its own last byte
        let enc = z.len();
        let mut z = z;
        if k % 2 == 1 { let extra = ctx.rng.range(1, 40); z.extend(ctx.rng.bytes(extra)); }
        // the input offset at which the window is full for the first time (dry run, whole input, one
        // window of room): sessions whose first chunk ends within the decoder's look-ahead of that point
        // (the inner call then stops for lack of room with its input used up or nearly so)
        {
            let mut st = InflateState::new_boxed(if zlib { DataFormat::Zlib } else { DataFormat::Raw });
            let mut out = vec![0u8; 32768];
            let r = inflate(&mut st, &z, &mut out, MZFlush::None);
            let _ = st.verif_take_core_trace();
            if r.status.is_ok() && r.bytes_written == 32768 {
                let deltas: &[i64] = if ctx.quick() { &[0, 1, 2, 3, 5, 8] } else { &[-2, -1, 0, 1, 2, 3, 4, 5, 6, 7, 8, 9] };
                for &d in deltas { let cut = (r.bytes_consumed as i64 + d).clamp(1, z.len() as i64) as usize; streams.push((z.clone(), zlib, "lapcut", cut, Some(plain.clone()), Some(enc))); }
            }
        }
        streams.push((z, zlib, "laps", 0, Some(plain), Some(enc)));
    }
    // a stored block that starts within a few bytes of the end of the window (the parked-byte exits)
    for k in 0..(4 * ctx.scale.max(1)) {
        let zlib = k % 2 == 1;
        let head = 32768 - ctx.rng.range(0, 6);
        let (z, past) = sgen::window_edge_stream(&mut ctx.rng, zlib, head);
        streams.push((z, zlib, "edge", past, None, None));
    }
    for (z, zlib, kind, past, plain, enc) in streams {
        // the first-call Finish shortcut, with room around the plaintext size
        if kind != "lapcut" {
            let full = miniz_oxide::inflate::decompress_to_vec_with_limit(if zlib && z.len() >= 2 { &z[2..] } else { &z[..] }, 1 << 20).map(|v| v.len()).unwrap_or(300);
            for room in [0usize, 1, full.saturating_sub(1), full, full + 1, full + 1000] {
                let id = ctx.id();
                let mut st = InflateState::new_boxed(if zlib { DataFormat::Zlib } else { DataFormat::Raw });
                let mut out = vec![0u8; room];
                let stm = &mut st;
                let r = match catch_unwind(AssertUnwindSafe(|| inflate(stm, &z, &mut out, MZFlush::Finish))) { Ok(r) => r, Err(_) => { ctx.violation(id, "panic", "panic in inflate(Finish) first call".into(), format!("IFFS zlib={} data={}", zlib as u8, hex(&z))); continue; } };
                let code = match r.status { Ok(s) => s as i32, Err(e) => e as i32 };
                ctx.line(&format!("IFF id={} zlib={} in={} room={} c={} out={} st={}", id, zlib as u8, hex(&z), room, r.bytes_consumed, hex(&out[..r.bytes_written]), code));
                ctx.count("iff_calls"); ctx.count(&format!("iff_{}_{}", kind, code));
            }
        }
        for rep in 0..(if kind == "lapcut" { 1 } else if ctx.quick() { 3 } else { 6 }) {
            let seed = ctx.rng.next();
            ifb_session_enc(ctx, &z, zlib, kind, past, plain.as_deref(), rep, seed, enc);
        }
    }
}

/// One byte-level session; every schedule choice comes from `seed`, so the session replays exactly
/// (`IFBS` replay line). `plain` (when the stream is known to be valid): native oracle — delivered bytes
/// are a prefix of it after every call, equal to it at stream end, never a data error.
pub fn ifb_session(ctx: &mut Ctx, z: &[u8], zlib: bool, kind: &str, past: usize, plain: Option<&[u8]>, rep: usize, seed: u64) { ifb_session_enc(ctx, z, zlib, kind, past, plain, rep, seed, None) }

/// the same with the encoded length of the (valid) stream that starts `z` known (`enc`): native oracle —
/// at the first stream end the calls together have consumed exactly `enc` bytes (C06 / C13), and never
/// more than that before
pub fn ifb_session_enc(ctx: &mut Ctx, z: &[u8], zlib: bool, kind: &str, past: usize, plain: Option<&[u8]>, rep: usize, seed: u64, enc: Option<usize>) {
    let mut rng = crate::rng::Rng::new(seed);
    let id = ctx.id();
    let replay = format!("IFBS zlib={} kind={} past={} rep={} seed={} enc={} plain={} data={}", zlib as u8, kind, past, rep, seed, enc.map(|e| e.to_string()).unwrap_or("?".into()), plain.map(|p| hex(p)).unwrap_or("?".into()), hex(z));
    let mut consumed_total = 0usize;
    ctx.line(&format!("IFBNEW id={} zlib={}", id, zlib as u8));
    let mut st = InflateState::new_boxed(if zlib { DataFormat::Zlib } else { DataFormat::Raw });
    let mut fed = 0usize;       // bytes of z handed to the caller's buffer so far
    let mut carry: Vec<u8> = vec![];
    let mut delivered: Vec<u8> = vec![];
    // styles 6, 7: a fixed output size per call chosen so that the number of bytes handed over reaches
    // 32767 / 32768 / 32769 modulo the window size exactly at the end of a call (32767 = 7 * 4681 = 31 * 1057 = 151 * 217)
    let style = if kind == "lapcut" { 5 } else if kind == "edge" { 2 + rng.below(4) } else if kind == "laps" && rep == 1 { 6 } else if kind == "laps" && rep >= 2 { 6 + rng.below(2) } else { rng.below(4) };
    let fixed_room = if rep == 1 { *rng.pick(&[32767usize, 4681, 1057, 217]) } else { *rng.pick(&[32767usize, 32766, 32769, 16383, 4681, 1057, 217, 65535]) };
    let mut first = true;
    let mut idle = 0;
    for call in 0..400 {
        let left = z.len() - fed;
        let chunk = match style { 6 => usize::MAX, 7 => rng.range(0, 3000), 4 if first => usize::MAX, 5 if first => past, 4 | 5 => rng.range(0, 3000), 0 => *rng.pick(&[0usize, 1, 2, 7, 100, 5000, usize::MAX]), 1 => 1, 2 => usize::MAX, _ => rng.range(0, 3000) }.min(left);
        let room = match style { 6 | 7 => fixed_room, 4 if first => 32768, 5 if first => 100_000, 2 => *rng.pick(&[1usize, 40000, 100_000]), _ => *rng.pick(&[0usize, 1, 3, 100, 4000, 32768, 40000, 100_000]) };
        first = false;
        let mut inp = carry.clone(); inp.extend_from_slice(&z[fed..fed + chunk]);
        let new = &z[fed..fed + chunk];
        fed += chunk;
        let mut out = vec![0u8; room];
        let fl = if rng.chance(1, 5) { MZFlush::Sync } else { MZFlush::None };
        let stm = &mut st;
        let r = match catch_unwind(AssertUnwindSafe(|| inflate(stm, &inp, &mut out, fl))) { Ok(r) => r, Err(_) => { ctx.violation(id, "panic", "panic in inflate() during a byte-level session".into(), replay.clone()); break; } };
        let tr = st.verif_take_core_trace();
        let last_inner = tr.last().map(|e| e[4].to_string()).unwrap_or("-".into());
        let code = match r.status { Ok(s) => s as i32, Err(e) => e as i32 };
        ctx.line(&format!("IFB id={} in={} room={} c={} out={} st={} last={}", id, hex(new), room, r.bytes_consumed, hex(&out[..r.bytes_written]), code, last_inner));
        ctx.count("ifb_calls"); ctx.count(&format!("ifb_{}_{}", kind, code));
        delivered.extend_from_slice(&out[..r.bytes_written]);
        consumed_total += r.bytes_consumed;
        if let Some(e) = enc {
            if consumed_total > e { ctx.violation(id, "consumed", format!("[session style {}] call #{}: {} bytes consumed in total, the stream is {} bytes long (bytes after the stream were consumed)", style, call + 1, consumed_total, e), replay.clone()); break; }
            if r.status == Ok(MZStatus::StreamEnd) && consumed_total != e { ctx.violation(id, "consumed", format!("[session style {}] call #{}: stream end with {} bytes consumed in total, the stream is {} bytes long", style, call + 1, consumed_total, e), replay.clone()); break; }
            ctx.count("ifb_enc_checked_calls");
        }
        if let Some(p) = plain {
            if delivered.len() > p.len() || delivered[..] != p[..delivered.len()] {
                ctx.violation(id, "prefix", format!("[session style {} room {}] call #{}: {} delivered bytes are not a prefix of the plaintext (first mismatch at {})", style, room, call + 1, delivered.len(), delivered.iter().zip(p.iter()).position(|(a, b)| a != b).unwrap_or(p.len())), replay.clone());
                break;
            }
            if r.status == Ok(MZStatus::StreamEnd) && delivered.len() != p.len() { ctx.violation(id, "streamend", format!("call #{}: stream end with {} of {} plaintext bytes delivered", call + 1, delivered.len(), p.len()), replay.clone()); break; }
            if r.status == Err(MZError::Data) { ctx.violation(id, "dataerr", format!("call #{}: data error on a valid stream", call + 1), replay.clone()); break; }
        }
        carry = inp[r.bytes_consumed..].to_vec();
        if r.bytes_consumed == 0 && r.bytes_written == 0 { idle += 1; } else { idle = 0; }
        if r.status == Ok(MZStatus::StreamEnd) || r.status == Err(MZError::Data) { if rng.chance(1, 2) || idle > 1 { break; } }
        if left == 0 && idle > 2 { break; }
    }
    ctx.evals += 1; ctx.nontrivial.insert(fnv(z) ^ (id as u64) << 8 | 1);
    ctx.count("ifb_sessions");
}

fn report(ctx: &mut Ctx, s: &S13, actions: &[usize], seed: u64, problems: Vec<(String, String)>) {
    if problems.is_empty() { return; }
    let id = ctx.id();
    let acts: Vec<String> = actions.iter().map(|a| a.to_string()).collect();
    let replay = format!("INFSEQ fmt={} kind={} enc={} seed={} actions={} plain={} data={}", s.zlib as u8, s.kind, s.enc_len, seed, if acts.is_empty() { "-".into() } else { acts.join(",") }, hex(&s.plain), hex(&s.z));
    for (cl, m) in problems { ctx.violation(id, &cl, format!("[{} zlib={} actions={}] {}", s.kind, s.zlib, actions.iter().map(|&a| action_name(a)).collect::<Vec<_>>().join(" "), m), replay.clone()); }
}

/// replay of recorded byte-level sessions (`IFBS` lines)
pub fn replay_ifbs(ctx: &mut Ctx, lines: &[String]) {
    for l in lines { if let Some(rest) = l.strip_prefix("IFBS ") { let kv = crate::kv(rest);
        let z = crate::tx::unhex(&kv["data"]);
        let plain = if kv["plain"] == "?" { None } else { Some(crate::tx::unhex(&kv["plain"])) };
        let kind: &'static str = match kv["kind"].as_str() { "laps" => "laps", "lapcut" => "lapcut", "edge" => "edge", "valid" => "valid", "trailing" => "trailing", "truncated" => "truncated", _ => "corrupt" };
        let enc = kv.get("enc").and_then(|e| e.parse::<usize>().ok());
        ifb_session_enc(ctx, &z, kv["zlib"] == "1", kind, kv["past"].parse().unwrap_or(0), plain.as_deref(), kv["rep"].parse().unwrap_or(0), kv["seed"].parse().unwrap_or(1), enc); } }
}

pub fn run(ctx: &mut Ctx) {
    if let Some(lines) = ctx.replay_lines.clone() {
        replay_ifbs(ctx, &lines);
        for l in lines { if let Some(rest) = l.strip_prefix("INFSEQ ") { let kv = crate::kv(rest);
            let kind: &'static str = match kv["kind"].as_str() { "valid" => "valid", "truncated" => "truncated", "corrupt" => "corrupt", _ => "trailing" };
            let s = S13 { z: crate::tx::unhex(&kv["data"]), zlib: kv["fmt"] == "1", plain: crate::tx::unhex(&kv["plain"]), enc_len: kv["enc"].parse().unwrap(), kind };
            let actions: Vec<usize> = if kv["actions"] == "-" { vec![] } else { kv["actions"].split(',').map(|x| x.parse().unwrap()).collect() };
            let mut c = vec![];
            let p = run_sequence(&s, &actions, kv["seed"].parse().unwrap(), &mut c);
            report(ctx, &s, &actions, kv["seed"].parse().unwrap(), p); } }
        return;
    }
    let streams = make_streams(ctx, if ctx.quick() { 4 } else { 8 });
    // the generator's own plaintext is confirmed by the Lean reference decoder
    for s in &streams { if s.kind == "valid" { let id = ctx.id(); ctx.line(&crate::dec::dec_line(id, s.zlib, &[], 32768, &hex(&s.z), "genplain", 0, &s.plain, s.enc_len as i64, false, "pov=0 trail=0")); } }
    let depth = if ctx.quick() { 2 } else { 3 };
    let total = 64usize.pow(depth as u32);
    let mut counters: Vec<String> = vec![];
    for (si, s) in streams.iter().enumerate() {
        // big-output streams only get a sample of the exhaustive enumeration
        let stride = if s.plain.len() > 20000 { 7 } else { 1 };
        let mut idx = si % stride;
        while idx < total {
            let mut actions = vec![]; let mut x = idx; for _ in 0..depth { actions.push(x % 64); x /= 64; }
            let seed = (idx as u64) * 7919 + si as u64;
            let (p, kl) = run_sequence_k(s, &actions, seed, &mut counters, idx % 5 == 0);
            for l in kl { ctx.line(&l); }
            ctx.evals += 1; ctx.nontrivial.insert(fnv(&s.z) ^ (idx as u64) << 8 | 1);
            ctx.count(&format!("kind_{}", s.kind));
            report(ctx, s, &actions, seed, p);
            idx += stride;
        }
    }
    // random long schedules
    let more = make_streams(ctx, 3 * ctx.scale);
    for s in more.iter().chain(streams.iter()) {
        for _ in 0..(40 * ctx.scale) {
            let n = ctx.rng.range(0, 12);
            let actions: Vec<usize> = (0..n).map(|_| ctx.rng.below(64)).collect();
            let seed = ctx.rng.next();
            let (p, kl) = run_sequence_k(s, &actions, seed, &mut counters, true);
            for l in kl { ctx.line(&l); }
            ctx.evals += 1; ctx.nontrivial.insert(seed | 1);
            ctx.count("random_schedules");
            report(ctx, s, &actions, seed, p);
        }
    }
    for c in counters { ctx.count(&c); }
    bytes_sessions(ctx);
    ctx.sample(format!("depth-{} exhaustive over 64 actions (chunk 0/1/2/rest x out 0/1/3/100000 x None/Sync/Finish/Full) on {} streams, e.g. actions [{} {}]", depth, streams.len(), action_name(37), action_name(50)));
}
