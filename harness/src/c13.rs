//! C13 — streaming inflate obeys its status protocol and always makes progress.
use crate::sgen::{self, GenCfg};
use crate::tx::{fnv, hex, Ctx};
use miniz_oxide::inflate::stream::{inflate, InflateState};
use miniz_oxide::{DataFormat, MZError, MZFlush, MZStatus};
use std::panic::{catch_unwind, AssertUnwindSafe};

#[derive(Clone)]
pub struct S13 { pub z: Vec<u8>, pub zlib: bool, pub plain: Vec<u8>, pub enc_len: usize, pub kind: &'static str }

const CHUNKS: [usize; 4] = [0, 1, 2, usize::MAX];
const OUTS: [usize; 4] = [0, 1, 3, 100_000];
const FLUSHES: [MZFlush; 4] = [MZFlush::None, MZFlush::Sync, MZFlush::Finish, MZFlush::Full];

pub fn action_name(a: usize) -> String { format!("c{}o{}f{}", a & 3, (a >> 2) & 3, (a >> 4) & 3) }

struct Runner<'a> {
    klines: Vec<String>, record: bool,
    s: &'a S13, st: Box<InflateState>, ipos: usize, delivered: Vec<u8>, ended: bool, data_err: bool,
    finished_flag: bool, poisoned: bool, calls: usize, effective_calls: usize, check_prefix: bool,
}

impl<'a> Runner<'a> {
    fn step(&mut self, chunk_sel: usize, out_len: usize, flush: MZFlush, problems: &mut Vec<(String, String)>, phase: &str) -> Option<Result<MZStatus, MZError>> {
        let s = self.s;
        let left = s.z.len() - self.ipos;
        let chunk = chunk_sel.min(left);
        let mut out = vec![0u8; out_len];
        // a Full-flush request is refused before the state is touched, so it does not count as the first call
        let first = self.effective_calls == 0;
        if flush != MZFlush::Full { self.effective_calls += 1; }
        self.calls += 1;
        let calls = self.calls;
        let ipos = self.ipos;
        let pre = self.st.verif_snapshot();
        let st = &mut self.st;
        let r = catch_unwind(AssertUnwindSafe(|| inflate(st, &s.z[ipos..ipos + chunk], &mut out, flush)));
        let r = match r { Ok(r) => r, Err(_) => { problems.push(("panic".into(), format!("panic in inflate() call #{} ({})", calls, phase))); return None; } };
        let tr = self.st.verif_take_core_trace();
        if self.record {
            let post = self.st.verif_snapshot();
            let script: Vec<String> = tr.iter().map(|e| format!("{}:{}:{}", e[4], e[5], e[6])).collect();
            let args: Vec<String> = tr.iter().map(|e| format!("{}:{}:{}:{}", e[0], e[1], e[2], e[3])).collect();
            let code = match r.status { Ok(s) => s as i32, Err(e) => e as i32 };
            self.klines.push(format!("IFL fmt={} pre={},{},{},{},{} in={} out={} flush={} res={}:{}:{} post={},{},{},{},{} script={} args={}", if s.zlib { 0 } else { 2 }, pre[0], pre[1], pre[2], pre[3], pre[4], chunk, out_len, flush as i32, code, r.bytes_consumed, r.bytes_written, post[0], post[1], post[2], post[3], post[4], if script.is_empty() { "-".into() } else { script.join(";") }, if args.is_empty() { "-".into() } else { args.join(";") }));
        }
        if r.bytes_consumed > chunk || r.bytes_written > out_len { problems.push(("counts".into(), format!("call #{}: consumed {}/{} written {}/{}", calls, r.bytes_consumed, chunk, r.bytes_written, out_len))); return None; }
        self.ipos += r.bytes_consumed;
        self.delivered.extend_from_slice(&out[..r.bytes_written]);
        let delivered = &self.delivered;
        if self.check_prefix && (delivered.len() > s.plain.len() || delivered[..] != s.plain[..delivered.len()]) {
            problems.push(("prefix".into(), format!("call #{} ({}): {} delivered bytes are not a prefix of the plaintext (first mismatch at {})", calls, phase, delivered.len(), delivered.iter().zip(s.plain.iter()).position(|(a, b)| a != b).unwrap_or(s.plain.len())))); return None;
        }
        let status = r.status;
        if flush == MZFlush::Full {
            if status != Err(MZError::Stream) || r.bytes_consumed != 0 || r.bytes_written != 0 { problems.push(("full".into(), format!("call #{}: full flush returned {:?}", calls, status))); }
            return Some(status);
        }
        if self.poisoned {
            // dead stream: a Finish request that could not complete (first-call shortcut without room, or
            // input that was not all there) fails for good — only errors with nothing moved from now on
            if status.is_ok() || r.bytes_consumed != 0 || r.bytes_written != 0 { problems.push(("dead".into(), format!("call #{} on a dead stream returned {:?} ({} consumed, {} written)", calls, status, r.bytes_consumed, r.bytes_written))); }
            return Some(status);
        }
        if self.ended && !(self.finished_flag && flush != MZFlush::Finish) {
            if status != Ok(MZStatus::StreamEnd) || r.bytes_written != 0 || r.bytes_consumed != 0 { problems.push(("stable".into(), format!("call #{} after stream end returned {:?} ({} consumed, {} written)", calls, status, r.bytes_consumed, r.bytes_written))); }
        }
        if self.data_err && status != Err(MZError::Data) { problems.push(("sticky".into(), format!("call #{} after a data error returned {:?}", calls, status))); }
        if self.finished_flag && flush != MZFlush::Finish && !self.data_err {
            if status != Err(MZError::Stream) && !(status == Err(MZError::Buf)) { problems.push(("afterfinish".into(), format!("call #{}: non-Finish after Finish returned {:?}", calls, status))); }
            return Some(status);
        }
        if flush == MZFlush::Finish { self.finished_flag = true; }
        match status {
            Ok(MZStatus::StreamEnd) => {
                self.ended = true;
                if self.check_prefix && s.kind != "truncated" {
                    if self.delivered != s.plain { problems.push(("streamend".into(), format!("stream end with {} of {} plaintext bytes delivered", self.delivered.len(), s.plain.len()))); }
                    if self.ipos != s.enc_len { problems.push(("streamend".into(), format!("stream end with {} bytes consumed, stream is {} bytes", self.ipos, s.enc_len))); }
                }
                if s.kind == "truncated" { problems.push(("streamend".into(), "stream end on a truncated stream".into())); }
            }
            Ok(_) => {
                if chunk > 0 && out_len > 0 && r.bytes_consumed == 0 && r.bytes_written == 0 { problems.push(("progress".into(), format!("call #{} with {} input bytes and {} output bytes made no progress", calls, chunk, out_len))); }
            }
            Err(MZError::Data) => { self.data_err = true; if s.kind == "valid" && !self.poisoned { problems.push(("dataerr".into(), format!("data error on a valid stream at call #{} ({})", calls, phase))); } }
            Err(MZError::Buf) => {
                let _ = first;
                // Finish promises that all input has been supplied and (on the first call) that the output fits
                // (a Buf error with the output completely filled only asks for more room: recoverable)
                let _ = left;
                if flush == MZFlush::Finish && (first || r.bytes_written < out_len) { self.poisoned = true; }
            }
            Err(e) => { problems.push(("status".into(), format!("call #{}: unexpected {:?}", calls, e))); }
        }
        Some(status)
    }
}

/// Run `actions` (indices into the 64-letter alphabet), then the usual driver loop, checking the
/// protocol after every call. Returns problems.
pub fn run_sequence(s: &S13, actions: &[usize], rng_seed: u64, counters: &mut Vec<String>) -> Vec<(String, String)> { run_sequence_k(s, actions, rng_seed, counters, false).0 }

pub fn run_sequence_k(s: &S13, actions: &[usize], rng_seed: u64, counters: &mut Vec<String>, record: bool) -> (Vec<(String, String)>, Vec<String>) {
    let mut problems: Vec<(String, String)> = vec![];
    let mut rn = Runner { klines: vec![], record, s, st: InflateState::new_boxed(if s.zlib { DataFormat::Zlib } else { DataFormat::Raw }), ipos: 0, delivered: vec![], ended: false, data_err: false, finished_flag: false, poisoned: false, calls: 0, effective_calls: 0, check_prefix: s.kind != "corrupt" };
    let mut rng = crate::rng::Rng::new(rng_seed);
    for &a in actions {
        let f = FLUSHES[(a >> 4) & 3];
        if rn.step(CHUNKS[a & 3], OUTS[(a >> 2) & 3], f, &mut problems, "prefix").is_none() { return (problems, std::mem::take(&mut rn.klines)); }
        if !problems.is_empty() { return (problems, std::mem::take(&mut rn.klines)); }
    }
    // the usual driver loop: feed what is left, collect output, finish at the end of input
    let mut idle = 0;
    for _ in 0..(s.z.len() * 4 + s.plain.len() / 50 + 200) {
        if rn.ended || rn.data_err || rn.poisoned { break; }
        let left = s.z.len() - rn.ipos;
        let chunk = if rng.chance(1, 2) { left } else { rng.range(0, 40).min(left) };
        let fl = if rn.finished_flag || (chunk == left && rng.chance(1, 2)) { MZFlush::Finish } else if rng.chance(1, 6) { MZFlush::Sync } else { MZFlush::None };
        let chunk = if fl == MZFlush::Finish { left } else { chunk };
        let olen = *rng.pick(&[1usize, 7, 300, 40000, 100_000]);
        let before = (rn.ipos, rn.delivered.len());
        let stt = match rn.step(chunk, olen, fl, &mut problems, "loop") { None => return (problems, std::mem::take(&mut rn.klines)), Some(x) => x };
        if !problems.is_empty() { return (problems, std::mem::take(&mut rn.klines)); }
        if (rn.ipos, rn.delivered.len()) == before { idle += 1; } else { idle = 0; }
        if let Err(MZError::Buf) = stt {
            if rn.ipos == s.z.len() && idle >= 2 {
                if s.kind == "valid" || s.kind == "trailing" { if !rn.poisoned { problems.push(("loop".into(), "driver loop starved on a complete stream".into())); } }
                break;
            }
        }
        if idle > 6 { problems.push(("loop".into(), format!("driver loop stopped making progress (ipos {} of {}, delivered {})", rn.ipos, s.z.len(), rn.delivered.len()))); break; }
    }
    if (s.kind == "valid" || s.kind == "trailing") && !rn.poisoned && problems.is_empty() {
        if !rn.ended { problems.push(("loop".into(), format!("driver loop did not reach stream end (delivered {} of {})", rn.delivered.len(), s.plain.len()))); }
    }
    if s.kind == "truncated" && rn.ended { problems.push(("streamend".into(), "truncated stream ended".into())); }
    counters.push(format!("final_{}", if rn.ended { "end" } else if rn.data_err { "dataerr" } else if rn.poisoned { "poisoned" } else { "open" }));
    let kl = std::mem::take(&mut rn.klines);
    (problems, kl)
}

pub fn make_streams(ctx: &mut Ctx, n_each: usize) -> Vec<S13> {
    let mut v = vec![];
    for k in 0..n_each {
        let zlib = k % 2 == 0;
        let big = k % 3 == 2;
        let cfg = GenCfg { max_tokens: if big { 3000 } else { 40 }, max_blocks: 3, zlib, pre_len: 0, big, heavy: false };
        let g = sgen::gen_stream(&mut ctx.rng, &cfg);
        let enc = g.bytes.len();
        v.push(S13 { z: g.bytes.clone(), zlib, plain: g.plain.clone(), enc_len: enc, kind: "valid" });
        if enc > 3 { let c = ctx.rng.range(1, enc - 1); v.push(S13 { z: g.bytes[..c].to_vec(), zlib, plain: g.plain.clone(), enc_len: enc, kind: "truncated" }); }
        let (m, _) = sgen::mutate(&mut ctx.rng, &g.bytes);
        v.push(S13 { z: m, zlib, plain: g.plain.clone(), enc_len: enc, kind: "corrupt" });
        let mut t = g.bytes.clone(); let extra = ctx.rng.range(1, 20); t.extend(ctx.rng.bytes(extra));
        v.push(S13 { z: t, zlib, plain: g.plain.clone(), enc_len: enc, kind: "trailing" });
    }
    v
}

fn report(ctx: &mut Ctx, s: &S13, actions: &[usize], seed: u64, problems: Vec<(String, String)>) {
    if problems.is_empty() { return; }
    let id = ctx.id();
    let acts: Vec<String> = actions.iter().map(|a| a.to_string()).collect();
    let replay = format!("INFSEQ fmt={} kind={} enc={} seed={} actions={} plain={} data={}", s.zlib as u8, s.kind, s.enc_len, seed, if acts.is_empty() { "-".into() } else { acts.join(",") }, hex(&s.plain), hex(&s.z));
    for (cl, m) in problems { ctx.violation(id, &cl, format!("[{} zlib={} actions={}] {}", s.kind, s.zlib, actions.iter().map(|&a| action_name(a)).collect::<Vec<_>>().join(" "), m), replay.clone()); }
}

pub fn run(ctx: &mut Ctx) {
    if let Some(lines) = ctx.replay_lines.clone() {
        for l in lines { if let Some(rest) = l.strip_prefix("INFSEQ ") { let kv = crate::kv(rest);
            let kind: &'static str = match kv["kind"].as_str() { "valid" => "valid", "truncated" => "truncated", "corrupt" => "corrupt", _ => "trailing" };
            let s = S13 { z: crate::tx::unhex(&kv["data"]), zlib: kv["fmt"] == "1", plain: crate::tx::unhex(&kv["plain"]), enc_len: kv["enc"].parse().unwrap(), kind };
            let actions: Vec<usize> = if kv["actions"] == "-" { vec![] } else { kv["actions"].split(',').map(|x| x.parse().unwrap()).collect() };
            let mut c = vec![];
            let p = run_sequence(&s, &actions, kv["seed"].parse().unwrap(), &mut c);
            report(ctx, &s, &actions, kv["seed"].parse().unwrap(), p); } }
        return;
    }
    let streams = make_streams(ctx, if ctx.quick() { 4 } else { 8 });
    // the generator's own plaintext is confirmed by the Lean reference decoder
    for s in &streams { if s.kind == "valid" { let id = ctx.id(); ctx.line(&crate::dec::dec_line(id, s.zlib, &[], 32768, &hex(&s.z), "genplain", 0, &s.plain, s.enc_len as i64, false, "pov=0 trail=0")); } }
    let depth = if ctx.quick() { 2 } else { 3 };
    let total = 64usize.pow(depth as u32);
    let mut counters: Vec<String> = vec![];
    for (si, s) in streams.iter().enumerate() {
        // big-output streams only get a sample of the exhaustive enumeration
        let stride = if s.plain.len() > 20000 { 7 } else { 1 };
        let mut idx = si % stride;
        while idx < total {
            let mut actions = vec![]; let mut x = idx; for _ in 0..depth { actions.push(x % 64); x /= 64; }
            let seed = (idx as u64) * 7919 + si as u64;
            let (p, kl) = run_sequence_k(s, &actions, seed, &mut counters, idx % 5 == 0);
            for l in kl { ctx.line(&l); }
            ctx.evals += 1; ctx.nontrivial.insert(fnv(&s.z) ^ (idx as u64) << 8 | 1);
            ctx.count(&format!("kind_{}", s.kind));
            report(ctx, s, &actions, seed, p);
            idx += stride;
        }
    }
    // random long schedules
    let more = make_streams(ctx, 3 * ctx.scale);
    for s in more.iter().chain(streams.iter()) {
        for _ in 0..(40 * ctx.scale) {
            let n = ctx.rng.range(0, 12);
            let actions: Vec<usize> = (0..n).map(|_| ctx.rng.below(64)).collect();
            let seed = ctx.rng.next();
            let (p, kl) = run_sequence_k(s, &actions, seed, &mut counters, true);
            for l in kl { ctx.line(&l); }
            ctx.evals += 1; ctx.nontrivial.insert(seed | 1);
            ctx.count("random_schedules");
            report(ctx, s, &actions, seed, p);
        }
    }
    for c in counters { ctx.count(&c); }
    ctx.sample(format!("depth-{} exhaustive over 64 actions (chunk 0/1/2/rest x out 0/1/3/100000 x None/Sync/Finish/Full) on {} streams, e.g. actions [{} {}]", depth, streams.len(), action_name(37), action_name(50)));
}
