//! splitmix64: every random choice in the harness derives from one state seeded by VERIF_SEED.
#[derive(Clone)]
pub struct Rng(pub u64);
impl Rng {
    pub fn new(seed: u64) -> Self { Rng(seed ^ 0x9E37_79B9_7F4A_7C15) }
    pub fn next(&mut self) -> u64 {
        self.0 = self.0.wrapping_add(0x9E37_79B9_7F4A_7C15);
        let mut z = self.0;
        z = (z ^ (z >> 30)).wrapping_mul(0xBF58_476D_1CE4_E5B9);
        z = (z ^ (z >> 27)).wrapping_mul(0x94D0_49BB_1331_11EB);
        z ^ (z >> 31)
    }
    /// uniform in 0..n (n > 0)
    pub fn below(&mut self, n: usize) -> usize { (self.next() % (n as u64)) as usize }
    /// uniform in lo..=hi
    pub fn range(&mut self, lo: usize, hi: usize) -> usize { lo + self.below(hi - lo + 1) }
    pub fn chance(&mut self, num: usize, den: usize) -> bool { self.below(den) < num }
    pub fn byte(&mut self) -> u8 { self.next() as u8 }
    pub fn pick<'a, T>(&mut self, xs: &'a [T]) -> &'a T { &xs[self.below(xs.len())] }
    pub fn fork(&mut self) -> Rng { Rng::new(self.next()) }
    pub fn bytes(&mut self, n: usize) -> Vec<u8> { (0..n).map(|_| self.byte()).collect() }
}
