//! C19 — decoder snapshots resume identically: clone, serialisation, block boundary.
use crate::c03::gen_case;
use crate::dec::*;
use crate::tx::{fnv, hex, Ctx};
use miniz_oxide::inflate::core::{decompress, decompress_with_limit, inflate_flags::*, BlockBoundaryState, DecompressorOxide};
use miniz_oxide::inflate::TINFLStatus;

/// Finish a decode from (decoder, buffer, positions) with a fixed continuation schedule.
fn finish_from(r: &mut DecompressorOxide, buf: &mut Vec<u8>, z: &[u8], mut ipos: usize, mut opos: usize, flags: u32, ring: bool, seed: u64) -> (i32, Vec<u8>, usize, Option<u32>) {
    let mut rng = crate::rng::Rng::new(seed);
    let mut out = vec![];
    let mut st = 1;
    for _ in 0..(4 * z.len() + 100000) {
        let left = z.len() - ipos;
        let chunk = match rng.below(3) { 0 => left, 1 => 1.min(left), _ => rng.range(0, 50).min(left) };
        let f = flags | if ipos + chunk < z.len() { TINFL_FLAG_HAS_MORE_INPUT } else { 0 };
        let grant = *rng.pick(&[usize::MAX, 1, 300, 5000]);
        let (s, c, w) = decompress_with_limit(r, &z[ipos..ipos + chunk], buf, opos, grant, f);
        out.extend_from_slice(&buf[opos..opos + w]); ipos += c; opos += w; if ring && opos == buf.len() { opos = 0; }
        st = s as i32;
        match s { TINFLStatus::NeedsMoreInput => { if ipos == z.len() && chunk == left { break; } } TINFLStatus::HasMoreOutput => { if !ring && opos == buf.len() { break; } } TINFLStatus::BlockBoundary => {} _ => break }
    }
    (st, out, ipos, r.adler32())
}

/// `every`: snapshot before EVERY call and feed one byte per call (every suspension point inside
/// multi-byte fields: LEN/NLEN of a stored block, zlib header, trailer).
fn snapshots(ctx: &mut Ctx, z: &[u8], zlib: bool, expect_len: usize, seed: u64, every: bool) {
    let id = ctx.id();
    let replay = format!("{} fmt={} seed={} n={} data={}", if every { "SNAPE" } else { "SNAP" }, zlib as u8, seed, expect_len, hex(z));
    ctx.eval(fnv(z) ^ seed);
    let mut rng = crate::rng::Rng::new(seed);
    let ring = rng.chance(1, 2);
    let flags = base_flags(zlib) | if ring { 0 } else { TINFL_FLAG_USING_NON_WRAPPING_OUTPUT_BUF } | if rng.chance(1, 3) { TINFL_FLAG_COMPUTE_ADLER32 } else { 0 };
    let cap = if ring { 32768 } else { expect_len + 400 };
    let mut r = DecompressorOxide::new();
    let mut buf = ring_fill(cap, 0x42);
    let (mut ipos, mut opos) = (0usize, 0usize);
    for step in 0..(4 * z.len() + 1000) {
        // snapshot here: clone and serialise, continue all three with the same schedule
        if every || step < 12 || rng.chance(1, 8) {
            let cont_seed = rng.next();
            let mut r0 = r.clone(); let mut b0 = buf.clone();
            let base = finish_from(&mut r0, &mut b0, z, ipos, opos, flags, ring, cont_seed);
            let mut r1 = r.clone(); let mut b1 = buf.clone();
            let a = finish_from(&mut r1, &mut b1, z, ipos, opos, flags, ring, cont_seed);
            ctx.count("clone_points");
            if a != base { ctx.violation(id, "clone", format!("continuation from a clone taken after call {} differs: {:?} vs {:?}", step, (a.0, a.1.len(), a.2), (base.0, base.1.len(), base.2)), replay.clone()); }
            match rmp_serde::to_vec(&r) {
                Ok(bytes) => match rmp_serde::from_slice::<DecompressorOxide>(&bytes) {
                    Ok(mut r2) => {
                        let mut b2 = buf.clone();
                        let s = finish_from(&mut r2, &mut b2, z, ipos, opos, flags, ring, cont_seed);
                        ctx.count("serde_points");
                        if s != base { ctx.violation(id, "serde", format!("continuation from a serialise/deserialise copy taken after call {} differs: {:?} vs {:?}", step, (s.0, s.1.len(), s.2), (base.0, base.1.len(), base.2)), replay.clone()); }
                    }
                    Err(e) => ctx.violation(id, "serde", format!("deserialisation failed: {}", e), replay.clone()),
                },
                Err(e) => ctx.violation(id, "serde", format!("serialisation failed: {}", e), replay.clone()),
            }
            let (sid, _) = (r.verif_state().0, 0); ctx.count(&format!("snap_state_{}", sid));
        }
        let left = z.len() - ipos;
        let chunk = if every { 1.min(left) } else { match rng.below(3) { 0 => rng.range(0, 3).min(left), 1 => rng.range(0, 40).min(left), _ => left } };
        let f = flags | if ipos + chunk < z.len() { TINFL_FLAG_HAS_MORE_INPUT } else { 0 };
        let grant = *rng.pick(&[usize::MAX, 0, 1, 2, 258, 4000]);
        let (s, c, w) = decompress_with_limit(&mut r, &z[ipos..ipos + chunk], &mut buf, opos, grant, f);
        ipos += c; opos += w; if ring && opos == buf.len() { opos = 0; }
        match s { TINFLStatus::NeedsMoreInput => { if ipos == z.len() && chunk == left { break; } } TINFLStatus::HasMoreOutput => { if !ring && opos == buf.len() { break; } } _ => break }
    }
}

/// Clone of the streaming decoder (`InflateState`: inner decoder + 32 KiB window + hand-over
/// cursors) at call boundaries of a scheduled decode, continued with the remaining schedule and
/// compared call by call with the uninterrupted run.  Boundaries where the output so far is a
/// multiple of the window, and boundaries after an input-starved call, are always taken.
fn state_snapshots(ctx: &mut Ctx, data: &[u8], level: u8, zlib: bool, seed: u64) {
    use miniz_oxide::inflate::stream::{inflate, InflateState};
    use miniz_oxide::{DataFormat, MZFlush};
    let id = ctx.id();
    let replay = format!("STSNAP fmt={} level={} seed={} in={}", zlib as u8, level, seed, hex(data));
    ctx.eval(fnv(data) ^ seed ^ 0x5157);
    ctx.count("state_snapshot_streams");
    let z = if zlib { miniz_oxide::deflate::compress_to_vec_zlib(data, level) } else { miniz_oxide::deflate::compress_to_vec(data, level) };
    let fmt = if zlib { DataFormat::Zlib } else { DataFormat::Raw };
    let mut rng = crate::rng::Rng::new(seed);
    let in_style = rng.below(3); let out_style = rng.below(4);
    // the uninterrupted run: schedule, per-call results, clones at the chosen boundaries
    let mut st = InflateState::new_boxed(fmt);
    let mut sched: Vec<(usize, usize, i32)> = vec![];
    let mut results: Vec<(i32, usize, usize)> = vec![];
    let mut outs: Vec<Vec<u8>> = vec![];
    let mut snaps: Vec<(usize, usize, Box<InflateState>)> = vec![]; // (call index, input position, clone)
    let (mut ipos, mut total_out) = (0usize, 0usize);
    let mut starved = false;
    for call in 0..100000 {
        if call < 6 || total_out % 32768 == 0 || starved || rng.chance(1, 12) { if snaps.len() < 160 { snaps.push((call, ipos, st.clone())); } }
        let left = z.len() - ipos;
        let ain = match in_style { 0 => rng.range(1, 1500).min(left), 1 => 1000.min(left), _ => left };
        let aout = match out_style { 0 => 4096, 1 => *rng.pick(&[1024usize, 2048, 8192, 16384, 32768]), 2 => rng.range(1, 9000), _ => 70000 };
        let flush = if ain == left && rng.chance(1, 4) { 4 } else { *rng.pick(&[0, 0, 2]) };
        let mut out = vec![0u8; aout];
        let r = inflate(&mut st, &z[ipos..ipos + ain], &mut out, MZFlush::new(flush).unwrap());
        let rc = match r.status { Ok(s) => s as i32, Err(e) => e as i32 };
        sched.push((ain, aout, flush)); results.push((rc, r.bytes_consumed, r.bytes_written)); out.truncate(r.bytes_written);
        starved = r.bytes_written < aout && r.bytes_consumed == ain && rc == 0;
        ipos += r.bytes_consumed; total_out += r.bytes_written; outs.push(out);
        if rc != 0 && !(rc == -5 && (r.bytes_consumed > 0 || r.bytes_written > 0)) { break; }
        if flush == 4 && rc == -5 { break; }
    }
    ctx.count_n("state_snapshot_calls", sched.len() as u64);
    for (k, ip, snap) in snaps.into_iter() {
        let mut c = snap; let mut ipos = ip;
        ctx.count("state_clone_points");
        for j in k..sched.len() {
            let (_, aout, flush) = sched[j];
            // the same input offer as the uninterrupted run made at this call
            let ain = sched[j].0;
            let mut out = vec![0u8; aout];
            let r = inflate(&mut c, &z[ipos..ipos + ain], &mut out, MZFlush::new(flush).unwrap());
            let rc = match r.status { Ok(s) => s as i32, Err(e) => e as i32 };
            if (rc, r.bytes_consumed, r.bytes_written) != results[j] || out[..r.bytes_written] != outs[j][..] {
                ctx.violation(id, "state_clone", format!("clone of the streaming decoder taken before call {} (of {}): call {} gave ({}, {}, {}) / {} output bytes equal, uninterrupted gave {:?}", k, sched.len(), j, rc, r.bytes_consumed, r.bytes_written, out[..r.bytes_written].iter().zip(outs[j].iter()).take_while(|(a, b)| a == b).count(), results[j]), replay.clone());
                return;
            }
            ipos += r.bytes_consumed;
        }
    }
}

/// stop-at-block-boundary: one stop per non-final block; rebuild from the boundary record + 32 KiB of output
fn boundaries(ctx: &mut Ctx, z: &[u8], zlib: bool, expect_len: usize) {
    let id = ctx.id();
    let replay = format!("BOUND fmt={} n={} data={}", zlib as u8, expect_len, hex(z));
    ctx.eval(fnv(z) ^ 0xBB);
    let flags = base_flags(zlib) | TINFL_FLAG_USING_NON_WRAPPING_OUTPUT_BUF | TINFL_FLAG_STOP_ON_BLOCK_BOUNDARY;
    // uninterrupted reference run (no stop flag)
    let mut r0 = DecompressorOxide::new();
    let mut full = vec![0u8; expect_len + 400];
    let (st0, c0, w0) = decompress(&mut r0, z, &mut full, 0, base_flags(zlib) | TINFL_FLAG_USING_NON_WRAPPING_OUTPUT_BUF);
    let mut r = DecompressorOxide::new();
    let mut buf = vec![0u8; expect_len + 400];
    let (mut ipos, mut opos) = (0usize, 0usize);
    let mut bits: Vec<usize> = vec![];
    let mut final_st;
    loop {
        let (s, c, w) = decompress(&mut r, &z[ipos..], &mut buf, opos, flags);
        ipos += c; opos += w; final_st = s;
        if s != TINFLStatus::BlockBoundary { break; }
        ctx.count("boundaries");
        let bs = match r.block_boundary_state() { Some(b) => b, None => { ctx.violation(id, "boundary", "BlockBoundary returned but block_boundary_state() is None".into(), replay.clone()); return; } };
        if bs.num_bits >= 8 { ctx.violation(id, "boundary", format!("{} pending bits at a block boundary", bs.num_bits), replay.clone()); }
        if bs.num_bits > 0 {
            let last = z[ipos - 1];
            if bs.bit_buf != last >> (8 - bs.num_bits) { ctx.violation(id, "boundary", format!("pending bits {:#x} are not the top {} bits of the last consumed byte {:#x}", bs.bit_buf, bs.num_bits, last), replay.clone()); }
        } else if bs.bit_buf != 0 { ctx.violation(id, "boundary", "bit_buf non-zero with zero pending bits".into(), replay.clone()); }
        bits.push(8 * ipos - bs.num_bits as usize);
        // rebuild from the record + the preceding 32 KiB of output, in a fresh buffer laid out the same way
        let mut r2 = DecompressorOxide::from_block_boundary_state(&BlockBoundaryState { num_bits: bs.num_bits, bit_buf: bs.bit_buf, z_header0: bs.z_header0, z_header1: bs.z_header1, check_adler32: bs.check_adler32 });
        let mut b2 = vec![0u8; expect_len + 400];
        let keep = opos.min(32768);
        b2[opos - keep..opos].copy_from_slice(&buf[opos - keep..opos]);
        let (s2, c2, w2) = decompress(&mut r2, &z[ipos..], &mut b2, opos, base_flags(zlib) | TINFL_FLAG_USING_NON_WRAPPING_OUTPUT_BUF);
        ctx.count("rebuilds");
        if s2 != st0 || ipos + c2 != c0 || opos + w2 != w0 || b2[opos..opos + w2] != full[opos..w0] {
            ctx.violation(id, "rebuild", format!("decoder rebuilt at boundary #{} (input {} output {}): ({:?}, {}, {}) vs uninterrupted ({:?}, {}, {})", bits.len(), ipos, opos, s2, ipos + c2, opos + w2, st0, c0, w0), replay.clone());
        }
        if bits.len() > 100000 { break; }
    }
    if final_st != st0 || ipos != c0 || opos != w0 || buf[..opos] != full[..w0] {
        ctx.violation(id, "boundary", format!("run with stops: ({:?}, {}, {}) vs uninterrupted ({:?}, {}, {})", final_st, ipos, opos, st0, c0, w0), replay.clone());
    }
    let bl: Vec<String> = bits.iter().map(|b| b.to_string()).collect();
    ctx.line(&format!("BB id={} rp=BOUND;inkey=data;n={} fmt={} st={} bits={} data={}", id, expect_len, zlib as u8, st0 as i32, if bl.is_empty() { "-".into() } else { bl.join(",") }, hex(z)));
}

pub fn run(ctx: &mut Ctx) {
    if let Some(lines) = ctx.replay_lines.clone() {
        for l in lines {
            let (tag, rest) = l.split_once(' ').unwrap_or((l.as_str(), ""));
            let kv = crate::kv(rest);
            match tag {
                "SNAP" | "SNAPE" => snapshots(ctx, &crate::tx::unhex(&kv["data"]), kv["fmt"] == "1", kv["n"].parse().unwrap(), kv["seed"].parse().unwrap(), tag == "SNAPE"),
                "STSNAP" => state_snapshots(ctx, &crate::tx::unhex(&kv["in"]), kv["level"].parse().unwrap(), kv["fmt"] == "1", kv["seed"].parse().unwrap()),
                "BOUND" => boundaries(ctx, &crate::tx::unhex(&kv["data"]), kv["fmt"] == "1", kv["n"].parse().unwrap()),
                _ => {}
            }
        }
        return;
    }
    for i in 0..(90 * ctx.scale) {
        let sc = gen_case(ctx, i % 5 == 4);
        let z = if i % 6 == 5 { crate::sgen::mutate(&mut ctx.rng, &sc.z).0 } else { sc.z.clone() };
        let seed = ctx.rng.next();
        snapshots(ctx, &z, sc.zlib, sc.expect_len + if i % 6 == 5 { 70000 } else { 0 }, seed, false);
        if i % 6 != 5 { boundaries(ctx, &sc.z, sc.zlib, sc.expect_len); }
    }
    for i in 0..(12 * ctx.scale) {
        // `stored_fields`: hand-made streams of short stored blocks with non-zero LEN (some after a
        // few header bits of padding, some in zlib framing), one input byte per call and a snapshot
        // before every call: every suspension point inside LEN / NLEN, the zlib header and the trailer
        let zlib = i % 3 == 2;
        let nblocks = ctx.rng.range(1, 5);
        let mut body = vec![]; let mut plain = vec![];
        for b in 0..nblocks {
            let len = ctx.rng.range(1, 700);
            let d = ctx.rng.bytes(len);
            body.push(if b + 1 == nblocks { 1u8 } else { 0u8 });
            body.extend_from_slice(&[(len & 255) as u8, (len >> 8) as u8, !(len & 255) as u8, !(len >> 8) as u8]);
            body.extend_from_slice(&d); plain.extend_from_slice(&d);
        }
        let z = if zlib { let mut v = vec![0x78, 0x9c]; v.extend_from_slice(&body); v.extend_from_slice(&crate::sgen::adler32(&plain).to_be_bytes()); v } else { body };
        let seed = ctx.rng.next();
        ctx.count("stored_fields_streams");
        snapshots(ctx, &z, zlib, plain.len(), seed, true);
    }
    for i in 0..(6 * ctx.scale) {
        // long-range redundancy: a noise period just under one window, repeated past two windows
        let period = ctx.rng.range(20000, 32700);
        let n = ctx.rng.range(70000, 140000);
        let block = ctx.rng.bytes(period);
        let mut d: Vec<u8> = block.iter().cycle().take(n).cloned().collect();
        if i % 3 == 2 { d = crate::plain::gen(&mut ctx.rng, "repeat_far", n); }
        let seed = ctx.rng.next();
        let lv = *ctx.rng.pick(&[1u8, 6, 9]);
        state_snapshots(ctx, &d, lv, i % 2 == 0, seed);
    }
    for _ in 0..(6 * ctx.scale) {
        let kind = *ctx.rng.pick(crate::plain::KINDS);
        let n = ctx.rng.range(1, 50000);
        let d = crate::plain::gen(&mut ctx.rng, kind, n);
        let seed = ctx.rng.next();
        let lv = ctx.rng.range(0, 10) as u8; let zl = ctx.rng.chance(1, 2);
        state_snapshots(ctx, &d, lv, zl, seed);
    }
    ctx.sample("snapshot (clone, rmp-serde round trip) between any two calls of a scheduled flat/ring decode, continued with one schedule and compared; stop-on-block-boundary runs with a decoder rebuilt at every boundary".into());
}
