//! Driving the streaming compressor under generated call schedules (G-sched), with the
//! per-call native oracles of C02/C14 (counts within what was offered, legal statuses, no panic).
use crate::rng::Rng;
use miniz_oxide::deflate::core::{compress, compress_to_output, CompressionStrategy, CompressorOxide, TDEFLFlush, TDEFLStatus};
use miniz_oxide::DataFormat;
use std::panic::{catch_unwind, AssertUnwindSafe};

#[derive(Clone, Copy, Debug)]
pub struct Cfg { pub level: u8, pub strategy: u8, pub zlib: bool, pub wb: u8 }

pub fn strategy_of(n: u8) -> CompressionStrategy {
    match n { 1 => CompressionStrategy::Filtered, 2 => CompressionStrategy::HuffmanOnly, 3 => CompressionStrategy::RLE, 4 => CompressionStrategy::Fixed, _ => CompressionStrategy::Default }
}
pub fn flush_of(n: u8) -> TDEFLFlush {
    match n { 1 => TDEFLFlush::Partial, 2 => TDEFLFlush::Sync, 3 => TDEFLFlush::Full, 4 => TDEFLFlush::Finish, 5 => TDEFLFlush::PartialOpt, 6 => TDEFLFlush::SyncOpt, 7 => TDEFLFlush::NoSync, _ => TDEFLFlush::None }
}
impl Cfg {
    pub fn make(&self) -> CompressorOxide {
        CompressorOxide::with_params(if self.zlib { DataFormat::Zlib } else { DataFormat::Raw }, self.level, strategy_of(self.strategy), self.wb)
    }
    pub fn random(rng: &mut Rng) -> Cfg {
        Cfg { level: rng.below(11) as u8, strategy: rng.below(5) as u8, zlib: rng.chance(1, 2), wb: rng.range(8, 15) as u8 }
    }
    /// the mode constraints the property attaches to this configuration (as the caller asked for it)
    pub fn modes(&self) -> String {
        let mut m: Vec<&str> = vec![];
        if self.level == 0 { m.push("stored"); }
        else {
            match self.strategy { 1 => m.push("filtered"), 2 => m.push("huff"), 3 => m.push("rle"), 4 => m.push("fixed"), _ => {} }
        }
        if m.is_empty() { "-".into() } else { m.join(",") }
    }
    pub fn describe(&self) -> String { format!("level={} strategy={} fmt={} wb={}", self.level, self.strategy, self.zlib as u8, self.wb) }
}

#[derive(Clone, Debug)]
pub struct CallRec { pub chunk: usize, pub out: usize, pub flush: u8, pub status: i32, pub cin: usize, pub cout: usize }

pub struct CompRun {
    pub out: Vec<u8>,
    pub calls: Vec<CallRec>,
    pub problems: Vec<(String, String)>,
    pub done: bool,
    /// (input bytes supplied so far, output bytes emitted so far, flush kind) at qualifying flush points (C12)
    pub flush_points: Vec<(usize, usize, u8)>,
    /// per call (buffer sink): `outLen:flush:status:cout:blocks` with blocks = `size.local.ret.kind` joined by `,`
    /// taken from the hook trace (flush_block events); input of the staging-model correspondence (op STG)
    pub stg: Vec<String>,
}

#[derive(Clone, Copy, PartialEq)]
pub enum Sink { Buf, Callback }

pub struct SchedOpts { pub sink: Sink, pub flush_p: usize, pub max_calls: usize, pub tiny_out: bool }

/// Run one generated schedule on a fresh compressor. Every random choice comes from `rng`.
pub fn run_schedule(rng: &mut Rng, cfg: &Cfg, data: &[u8], o: &SchedOpts) -> CompRun {
    let mut c = cfg.make();
    let mut run = CompRun { out: vec![], calls: vec![], problems: vec![], done: false, flush_points: vec![], stg: vec![] };
    let _ = c.verif_take_trace();
    let mut pos = 0usize;
    let mut finishing = false;
    let mut prev_had_space = true;
    let style = rng.below(4); // chunking style
    for _ in 0..o.max_calls {
        let left = data.len() - pos;
        let chunk = if finishing { left } else {
            match style { 0 => left, 1 => rng.range(0, 3).min(left), 2 => rng.range(0, 5000).min(left), _ => if rng.chance(1, 5) { 0 } else { rng.range(1, 70000).min(left) } }
        };
        let out_len = if o.tiny_out { *rng.pick(&[1usize, 1, 2, 3, 5, 7, 64]) } else {
            match rng.below(6) { 0 => 1, 1 => rng.range(1, 9), 2 => rng.range(10, 400), 3 => rng.range(400, 90000), _ => 200_000 }
        };
        let flush: u8 = if finishing { 4 } else if pos + chunk == data.len() && rng.chance(1, 2) { finishing = true; 4 }
            else if rng.below(100) < o.flush_p { *rng.pick(&[1u8, 2, 3, 5, 6, 7]) } else { 0 };
        let input = &data[pos..pos + chunk];
        let mut outbuf = vec![0u8; out_len];
        let mut cb_bytes: Vec<u8> = vec![];
        let r = catch_unwind(AssertUnwindSafe(|| {
            if o.sink == Sink::Buf { compress(&mut c, input, &mut outbuf, flush_of(flush)) }
            else { let (s, i) = compress_to_output(&mut c, input, flush_of(flush), |b: &[u8]| { cb_bytes.extend_from_slice(b); true }); (s, i, 0) }
        }));
        let (st, cin, cout) = match r { Ok(x) => x, Err(_) => { run.problems.push(("panic".into(), format!("panic in compress call #{} (chunk {} out {} flush {})", run.calls.len(), chunk, out_len, flush))); return run; } };
        run.calls.push(CallRec { chunk, out: out_len, flush, status: st as i32, cin, cout });
        if o.sink == Sink::Buf && run.stg.len() < 4000 {
            let evs = c.verif_take_trace();
            let blocks: Vec<String> = evs.iter().filter(|e| e[0] == 1).map(|e| format!("{}.{}.{}.{}", e[3], e[4], e[6] as i64, e[1])).collect();
            run.stg.push(format!("{}:{}:{}:{}:{}", out_len, flush, st as i32, cout, if blocks.is_empty() { "-".to_string() } else { blocks.join(",") }));
        } else { let _ = c.verif_take_trace(); }
        if cin > chunk { run.problems.push(("counts".into(), format!("call #{} consumed {} > offered {}", run.calls.len() - 1, cin, chunk))); return run; }
        if cout > out_len { run.problems.push(("counts".into(), format!("call #{} wrote {} > space {}", run.calls.len() - 1, cout, out_len))); return run; }
        if o.sink == Sink::Buf { run.out.extend_from_slice(&outbuf[..cout]); } else { run.out.extend_from_slice(&cb_bytes); }
        pos += cin;
        match st {
            TDEFLStatus::Done => { run.done = true; if flush != 4 { run.problems.push(("status".into(), "Done without Finish".into())); } break; }
            TDEFLStatus::Okay => {}
            other => { run.problems.push(("status".into(), format!("call #{} returned {:?} on a legal schedule", run.calls.len() - 1, other))); return run; }
        }
        // C12: a qualifying flush point
        let space_left = o.sink == Sink::Callback || cout < out_len;
        if matches!(flush, 1 | 2 | 3) && prev_had_space && cin == chunk && space_left {
            run.flush_points.push((pos, run.out.len(), flush));
        }
        prev_had_space = space_left;
    }
    if !run.done && run.problems.is_empty() { run.problems.push(("progress".into(), format!("not finished after {} calls (pos {} of {})", o.max_calls, pos, data.len()))); }
    run
}

pub fn calls_summary(calls: &[CallRec]) -> String {
    let mut s = String::new();
    for (i, c) in calls.iter().enumerate().take(40) { if i > 0 { s.push(';'); } s.push_str(&format!("{}/{}/{}->{}:{}:{}", c.chunk, c.out, c.flush, c.status, c.cin, c.cout)); }
    if calls.len() > 40 { s.push_str(&format!(";…({} calls)", calls.len())); }
    s
}
