//! C15 — the advertised compression bound really bounds one-shot output.
use crate::plain;
use crate::tx::{fnv, hex, Ctx};
use miniz_oxide_c_api::*;

fn deflate_finish(data: &[u8], level: i32, strategy: i32, cap: usize) -> (i32, usize) {
    unsafe {
        let mut s = mz_stream::default();
        let rc = mz_deflateInit2(&mut s, level, MZ_DEFLATED, MZ_DEFAULT_WINDOW_BITS, 9, strategy);
        if rc != 0 { return (rc, 0); }
        let mut out = vec![0u8; cap];
        s.next_in = data.as_ptr(); s.avail_in = data.len() as u32;
        s.next_out = out.as_mut_ptr(); s.avail_out = cap as u32;
        let rc = mz_deflate(&mut s, 4);
        let n = s.total_out as usize;
        mz_deflateEnd(&mut s);
        (rc, n)
    }
}

pub fn case(ctx: &mut Ctx, data: &[u8], level: i32, strategy: i32, kind: &str) {
    let id = ctx.id();
    let n = data.len();
    let bound = mz_deflateBound(std::ptr::null_mut(), n as _) as usize;
    let cbound = mz_compressBound(n as _) as usize;
    let replay = format!("BOUND level={} strategy={} in={}", level, strategy, hex(data));
    ctx.eval(if n > 0 { fnv(data) ^ ((level + 2) as u64) << 3 ^ strategy as u64 } else { 0 });
    ctx.count(&format!("kind_{}", kind)); ctx.count(&format!("level_{}", level)); ctx.count(&format!("strategy_{}", strategy));
    // exact size with a generous buffer
    let (rc, size) = deflate_finish(data, level, strategy, n * 2 + 4096);
    if rc != 1 { ctx.violation(id, "status", format!("mz_deflate(MZ_FINISH) with a large buffer returned {}", rc), replay.clone()); return; }
    if size > bound { ctx.violation(id, "bound", format!("n={} level={} strategy={} kind={}: output {} > mz_deflateBound {}", n, level, strategy, kind, size, bound), replay.clone()); }
    if cbound != bound { ctx.violation(id, "bound", format!("mz_compressBound {} != mz_deflateBound {}", cbound, bound), replay.clone()); }
    // a bound-sized buffer must be enough for one finishing call
    let (rc2, size2) = deflate_finish(data, level, strategy, bound);
    if rc2 != 1 { ctx.violation(id, "bound", format!("n={} level={} strategy={}: mz_deflate(MZ_FINISH) into a bound-sized buffer ({}) returned {} after {} bytes", n, level, strategy, bound, rc2, size2), replay.clone()); }
    // mz_compress2 (default strategy only) never fails for lack of space
    if strategy == 0 {
        let mut dest = vec![0u8; cbound];
        let mut dl = cbound as libc::c_ulong;
        let rc3 = unsafe { mz_compress2(dest.as_mut_ptr(), &mut dl, data.as_ptr(), n as _, level) };
        if rc3 != 0 { ctx.violation(id, "compress2", format!("mz_compress2 with a bound-sized destination returned {} (n={} level={})", rc3, n, level), replay.clone()); }
    }
    ctx.sample(format!("n={} level={} strategy={} kind={} out={} bound={}", n, level, strategy, kind, size, bound));
    ctx.count_n("slack_total", (bound - size.min(bound)) as u64);
}

pub fn run(ctx: &mut Ctx) {
    if let Some(lines) = ctx.replay_lines.clone() {
        for l in lines { if let Some(rest) = l.strip_prefix("BOUND ") { let kv = crate::kv(rest); case(ctx, &crate::tx::unhex(&kv["in"]), kv["level"].parse().unwrap(), kv["strategy"].parse().unwrap(), "replay"); } }
        return;
    }
    let kinds = ["random", "highbyte", "sparse3", "ramp", "runs", "text4"];
    let levels: Vec<i32> = (-1..=10).collect();
    // lengths 0..300 (exhaustive in thorough, stride in quick)
    let stride = if ctx.quick() { 5 } else { 1 };
    let mut n = 0;
    while n <= 300 {
        let kind = *ctx.rng.pick(&kinds); let d = plain::gen(&mut ctx.rng, kind, n);
        let lv = *ctx.rng.pick(&levels); let st = ctx.rng.below(5) as i32;
        case(ctx, &d, lv, st, kind);
        if !ctx.quick() { for &lv in &[0, 1, 6] { case(ctx, &d, lv, 4, kind); } }
        n += stride;
    }
    // every block-size threshold +-3, adversarial contents, level 1 + fixed included every time
    let mut th = plain::threshold_lengths();
    th.extend_from_slice(&[57000, 58253, 58254, 58255, 65520, 116508, 131072]);
    for (i, &n) in th.iter().enumerate() {
        if n <= 300 { continue; }
        if ctx.quick() && i % 2 == (ctx.seed % 2) as usize { continue; }
        let kind = *ctx.rng.pick(&["random", "highbyte", "sparse3"]);
        let d = plain::gen(&mut ctx.rng, kind, n);
        let lv = *ctx.rng.pick(&levels); let st = ctx.rng.below(5) as i32;
        case(ctx, &d, lv, st, kind);
        case(ctx, &d, 1, 4, kind);
        // level 0 (stored blocks only) has its own block-cut rule; past one window every time
        if n > 32000 { case(ctx, &d, 0, 0, kind); }
    }
    // bigger inputs
    let nb = if ctx.quick() { 10 } else { 120 };
    for _ in 0..nb {
        let kind = *ctx.rng.pick(&["random", "highbyte", "sparse3", "highbyte"]);
        let n = ctx.rng.range(100_000, if ctx.quick() { 700_000 } else { 5_000_000 });
        let d = plain::gen(&mut ctx.rng, kind, n);
        let (lv, st) = if ctx.rng.chance(1, 2) { (1, 4) } else { (*ctx.rng.pick(&levels), ctx.rng.below(5) as i32) };
        case(ctx, &d, lv, st, kind);
        case(ctx, &d, 0, 0, kind);
    }
}
