//! C11 — the window size declared in the zlib header bounds every match distance.
use crate::comp::*;
use crate::plain;
use crate::tx::{fnv, hex, Ctx};
use miniz_oxide::inflate::core::{decompress, inflate_flags::*, DecompressorOxide};
use miniz_oxide::inflate::TINFLStatus;

/// Decode with a ring buffer of exactly `ring` bytes (what zlib does when told to trust the header).
pub fn ring_decode(z: &[u8], ring: usize) -> (TINFLStatus, Vec<u8>) {
    let mut r = DecompressorOxide::new();
    let mut buf = vec![0u8; ring];
    let (mut res, mut ipos, mut opos) = (vec![], 0usize, 0usize);
    for _ in 0..10_000_000 {
        let (st, c, w) = decompress(&mut r, &z[ipos..], &mut buf, opos, TINFL_FLAG_PARSE_ZLIB_HEADER);
        res.extend_from_slice(&buf[opos..opos + w]); ipos += c; opos = (opos + w) & (ring - 1);
        if st != TINFLStatus::HasMoreOutput { return (st, res); }
    }
    (TINFLStatus::Failed, res)
}

pub fn case(ctx: &mut Ctx, cfg: &Cfg, data: &[u8], kind: &str) {
    let id = ctx.id();
    let mut c = cfg.make();
    let mut out = vec![0u8; data.len() * 2 + 1000];
    let (st, _, n) = miniz_oxide::deflate::core::compress(&mut c, data, &mut out, miniz_oxide::deflate::core::TDEFLFlush::Finish);
    out.truncate(n);
    let replay = format!("WIN {} in={}", cfg.describe(), hex(data));
    ctx.eval(fnv(data) ^ ((cfg.wb as u64) << 8) ^ cfg.level as u64);
    ctx.count(&format!("wb_{}", cfg.wb)); ctx.count(&format!("level_{}", cfg.level)); ctx.count(&format!("strategy_{}", cfg.strategy));
    if st != miniz_oxide::deflate::core::TDEFLStatus::Done { ctx.violation(id, "status", format!("one-shot Finish returned {:?}", st), replay); return; }
    // a decoder that allocates only the declared window must decode the stream
    let cinfo = (out[0] >> 4) as usize;
    if cinfo <= 7 {
        let ring = 1usize << (cinfo + 8);
        let (rst, rout) = ring_decode(&out, ring);
        if rst != TINFLStatus::Done || rout != data {
            ctx.violation(id, "window", format!("ring decoder of the declared window ({} bytes) returned {:?} (output equal: {}) [{}]", ring, rst, rout == data, cfg.describe()), replay.clone());
        }
    }
    ctx.sample(format!("{} kind={} len={} comp_len={} cmf={:#x}", cfg.describe(), kind, data.len(), out.len(), out[0]));
    ctx.line(&format!("ENC id={} rp=WIN checks=rt,window,header modes=- {} in={} comp={}", id, cfg.describe(), hex(data), hex(&out)));
}

/// The level is changed in the middle of the stream (after a flush, when the compressor looks idle):
/// the header has already declared its window, so later matches must still respect it.
pub fn level_change_case(ctx: &mut Ctx, cfg: &Cfg, a: &[u8], b: &[u8], flush1: u8, new_level: u8, raw_api: bool) {
    use miniz_oxide::deflate::core::{compress, TDEFLFlush, TDEFLStatus};
    let id = ctx.id();
    let mut data = a.to_vec(); data.extend_from_slice(b);
    let replay = format!("LVL {} split={} flush1={} newlevel={} rawapi={} in={}", cfg.describe(), a.len(), flush1, new_level, raw_api as u8, hex(&data));
    ctx.eval(fnv(&data) ^ ((cfg.wb as u64) << 8) ^ ((new_level as u64) << 16) ^ 0x77);
    ctx.count("level_change_cases");
    let mut c = cfg.make();
    let mut out = vec![0u8; data.len() * 2 + 2000];
    let (st, i, mut n) = compress(&mut c, a, &mut out, flush_of(flush1));
    if st != TDEFLStatus::Okay || i != a.len() { ctx.violation(id, "status", format!("first call {:?} consumed {}", st, i), replay); return; }
    if raw_api { c.set_compression_level_raw(new_level); } else { c.set_compression_level(match new_level { 0 => miniz_oxide::deflate::CompressionLevel::NoCompression, 1 => miniz_oxide::deflate::CompressionLevel::BestSpeed, 9 => miniz_oxide::deflate::CompressionLevel::BestCompression, 10 => miniz_oxide::deflate::CompressionLevel::UberCompression, _ => miniz_oxide::deflate::CompressionLevel::DefaultLevel }); }
    let (st, _, w) = compress(&mut c, b, &mut out[n..], TDEFLFlush::Finish);
    n += w; out.truncate(n);
    if st != TDEFLStatus::Done { ctx.violation(id, "status", format!("finish call {:?}", st), replay); return; }
    let cinfo = (out[0] >> 4) as usize;
    if cinfo <= 7 {
        let ring = 1usize << (cinfo + 8);
        let (rst, rout) = ring_decode(&out, ring);
        if rst != TINFLStatus::Done || rout != data {
            ctx.violation(id, "window", format!("after a level change: ring decoder of the declared window ({} bytes) returned {:?} (output equal: {}) [{}]", ring, rst, rout == data, cfg.describe()), replay.clone());
        }
    }
    ctx.line(&format!("ENC id={} rp=LVL;split={};flush1={};newlevel={};rawapi={} checks=rt,window modes=- {} in={} comp={}", id, a.len(), flush1, new_level, raw_api as u8, cfg.describe(), hex(&data), hex(&out)));
}

pub fn run(ctx: &mut Ctx) {
    if let Some(lines) = ctx.replay_lines.clone() {
        for l in lines { if let Some(rest) = l.strip_prefix("LVL ") { let kv = crate::kv(rest);
            let cfg = Cfg { level: kv["level"].parse().unwrap(), strategy: kv["strategy"].parse().unwrap(), zlib: true, wb: kv["wb"].parse().unwrap() };
            let data = crate::tx::unhex(&kv["in"]); let k: usize = kv["split"].parse().unwrap();
            level_change_case(ctx, &cfg, &data[..k.min(data.len())], &data[k.min(data.len())..], kv["flush1"].parse().unwrap(), kv["newlevel"].parse().unwrap(), kv["rawapi"] == "1"); }
          if let Some(rest) = l.strip_prefix("WIN ") { let kv = crate::kv(rest);
            let cfg = Cfg { level: kv["level"].parse().unwrap(), strategy: kv["strategy"].parse().unwrap(), zlib: true, wb: kv["wb"].parse().unwrap() };
            case(ctx, &cfg, &crate::tx::unhex(&kv["in"]), "replay"); } }
        return;
    }
    let reps = ctx.scale;
    for rep in 0..reps {
        for wb in 8..=15u8 { for level in 0..=10u8 {
            let strategy = ((level as usize + wb as usize + rep) % 5) as u8;
            let cfg = Cfg { level, strategy, zlib: true, wb };
            // redundancy only between the declared window and 32 KiB
            let kind = if ctx.rng.chance(2, 3) { "repeat_far" } else { *ctx.rng.pick(plain::KINDS) };
            let len = ctx.rng.range(20000, 90000);
            let mut data = plain::gen(&mut ctx.rng, kind, len);
            if kind == "repeat_far" && ctx.rng.chance(1, 2) {
                // the design witness: random bytes followed by their first 300 bytes again
                let n = ctx.rng.range((1usize << wb) + 1, 33000);
                data = ctx.rng.bytes(n); let head = data[..300.min(n)].to_vec(); data.extend_from_slice(&head);
            }
            case(ctx, &cfg, &data, kind);
        } }
        // level raised in mid-stream, after a flush or with data pending
        for wb in 8..=14u8 { for _ in 0..3 {
            let cfg = Cfg { level: ctx.rng.range(0, 10) as u8, strategy: *ctx.rng.pick(&[0u8, 0, 1, 3, 4]), zlib: true, wb };
            let na = ctx.rng.range(1, 400);
            let a = ctx.rng.bytes(na);
            let n = ctx.rng.range((1usize << wb) + 1, 33000);
            let mut b = ctx.rng.bytes(n); let head = b[..300.min(n)].to_vec(); b.extend_from_slice(&head);
            let flush1 = *ctx.rng.pick(&[2u8, 2, 3, 1, 0]);
            let new_level = *ctx.rng.pick(&[6u8, 9, 10, 2, 1]);
            let raw_api = ctx.rng.chance(1, 2);
            level_change_case(ctx, &cfg, &a, &b, flush1, new_level, raw_api);
        } }
        // the same with redundancy INSIDE the window the compressor was created with (so that the new
        // level really emits the matches), every non-default strategy at creation, windows up to 15
        for wb in 10..=15u8 { for strategy in [1u8, 2, 3, 4] { for &flush1 in &[2u8, 3] {
            if ctx.quick() && (wb as usize + strategy as usize + flush1 as usize + rep) % 2 == 1 { continue; }
            let cfg = Cfg { level: ctx.rng.range(0, 10) as u8, strategy, zlib: true, wb };
            let na = ctx.rng.range(1, 400);
            let a = ctx.rng.bytes(na);
            let n = ctx.rng.range(300, ((1usize << wb) - 300).min(30000));
            let mut b = ctx.rng.bytes(n); let head = b[..300.min(n)].to_vec(); b.extend_from_slice(&head);
            let new_level = *ctx.rng.pick(&[1u8, 1, 6, 9]);
            let raw_api = ctx.rng.chance(2, 3);
            level_change_case(ctx, &cfg, &a, &b, flush1, new_level, raw_api);
        } } }
    }
}
