//! C20 — the compiler's side of the program-text model: `cargo check` of the core crate for the
//! feature sets, with unsafe code forbidden from the command line too, and a probe crate whose
//! compilation asserts Send + Sync + Clone + 'static for the public state types.
use crate::tx::Ctx;
use std::process::Command;

fn cargo(args: &[&str], dir: &str, rustflags: &str) -> (bool, String) {
    let out = Command::new("cargo").args(args).current_dir(dir)
        .env("CARGO_NET_OFFLINE", "true").env("CARGO_TARGET_DIR", "/verif/.build/c20target").env("RUSTFLAGS", rustflags)
        .output();
    match out { Ok(o) => (o.status.success(), String::from_utf8_lossy(&o.stderr).to_string()), Err(e) => (false, e.to_string()) }
}

pub fn run(ctx: &mut Ctx) {
    let repo = std::env::var("VERIF_REPO").unwrap_or("/repo".into());
    let crate_dir = format!("{}/miniz_oxide", repo);
    let feats = ["with-alloc", "std", "serde", "block-boundary", "simd"];
    let mut sets: Vec<Vec<&str>> = vec![];
    for mask in 0..32u32 {
        let v: Vec<&str> = (0..5).filter(|i| mask & (1 << i) != 0).map(|i| feats[i]).collect();
        sets.push(v);
    }
    if ctx.quick() {
        // none, each single feature, the default set, everything
        sets.retain(|s| s.len() <= 1 || s.len() == 5 || *s == vec!["with-alloc", "std"] || *s == vec!["with-alloc", "block-boundary"] || *s == vec!["serde", "block-boundary"]);
    }
    for s in &sets {
        let id = ctx.id();
        let f = s.join(",");
        let mut args = vec!["check", "--offline", "--lib", "--no-default-features"];
        if !f.is_empty() { args.push("--features"); args.push(&f); }
        // -F unsafe_code: any `unsafe` in an active item is a hard error whatever the crate attributes say
        let (ok, err) = cargo(&args, &crate_dir, "-F unsafe_code");
        ctx.evals += 1; ctx.nontrivial.insert(id as u64 | 1 << 20);
        ctx.count("feature_sets_checked");
        if !ok {
            let tail: String = err.lines().filter(|l| l.contains("error")).take(4).collect::<Vec<_>>().join(" | ");
            ctx.violation(id, "build", format!("`cargo check --no-default-features --features \"{}\"` with -F unsafe_code failed: {}", f, tail), format!("FEATS {}", f));
        }
        ctx.sample(format!("cargo check --no-default-features --features \"{}\" (RUSTFLAGS=-F unsafe_code): {}", f, if ok { "ok" } else { "FAILED" }));
    }
    // trait probe
    for f in ["", "with-alloc", "with-alloc,block-boundary", "with-alloc,block-boundary,std"] {
        let id = ctx.id();
        let mut args = vec!["check", "--offline"];
        if !f.is_empty() { args.push("--features"); args.push(f); }
        let (ok, err) = cargo(&args, "/verif/harness/probe", "");
        ctx.evals += 1; ctx.nontrivial.insert(id as u64 | 1 << 21);
        ctx.count("trait_probes");
        if !ok {
            let tail: String = err.lines().filter(|l| l.contains("error") || l.contains("cannot be")).take(4).collect::<Vec<_>>().join(" | ");
            ctx.violation(id, "traits", format!("probe crate (Send + Sync + Clone + 'static on the state types) failed to compile with features \"{}\": {}", f, tail), format!("PROBE {}", f));
        }
    }
    // freestanding probe: a #![no_std] crate with its own panic handler depending on the core crate
    // without default features (and with alloc but not std): compiles only if std is not linked
    for f in ["", "block-boundary", "with-alloc", "with-alloc,block-boundary"] {
        let id = ctx.id();
        let mut args = vec!["check", "--offline"];
        if !f.is_empty() { args.push("--features"); args.push(f); }
        let (ok, err) = cargo(&args, "/verif/harness/probe_nostd", "");
        ctx.evals += 1; ctx.nontrivial.insert(id as u64 | 1 << 22);
        ctx.count("nostd_probes");
        if !ok {
            let tail: String = err.lines().filter(|l| l.contains("error")).take(4).collect::<Vec<_>>().join(" | ");
            ctx.violation(id, "no_std", format!("freestanding #![no_std] consumer (own panic handler) of the crate built with --no-default-features --features \"{}\" failed to compile: {}", f, tail), format!("NOSTD {}", f));
        }
    }
}
